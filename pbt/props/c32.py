"""C32 — symmetry unfolding is consistent.

Three statements are decided, all at array level (no time loop):

(i)   keeping the upper half of an unfolded field / detector array returns the input;
(ii)  the unfolded array obeys the *documented* per-component parity and mirror index map;
(iii) for detectors, unfolding the volume-reduced value equals reducing the unfolded spatial record whenever no
      recorded sample sits on a plane.

The reference model below is restated from the documentation (SKILL.md "Simulation Symmetry", the module docstring
of fdtd/symmetry.py and the docstrings of unfold_fields / unfold_array / unfold_detector_states) in plain numpy with
explicit index tables.  It never calls field_component_parity, mirror_pairs_on_plane, mirror_extend_low_side or any
other fdtdx helper.

Documented rules used:

* wall -1 (electric / PEC): tangential E odd, normal E even; normal H odd, tangential H even.
  wall +1 (magnetic / PMC): tangential H odd, normal H even; normal E odd, tangential E even.
* electric plane: sits on the reduced min edge.  Components sampled on it (tangential E, normal H) pair as m +- j,
  the plane row (first kept sample) is its own mirror and the outermost reconstructed cell repeats its neighbour;
  half-cell-offset components mirror one-to-one.  magnetic plane: every component mirrors one-to-one.
* detectors: touched axis = axis on which the detector crossed the plane (unreduced start < 0).  Spatial outputs are
  mirrored per component; with exact_interpolation the six components are co-located at (i, j, k+1/2), so x and y
  of an *electric* plane use the on-plane map, everything else the plain flip.  reduce_volume: Field/Phasor are
  means (even keeps, odd vanishes), Energy / Poynting are sums (even doubles, odd vanishes); energy density is
  even; the Poynting vector is a polar vector (normal component odd, tangential even, for both wall types).
"""

from __future__ import annotations

import itertools

import numpy as np
from hypothesis import strategies as st

from pbt.engine import Sub

ID = "C32"
RULE = (
    "fields: every (symmetry tuple, E/H) pair of the 26x2 domain with reduced shapes from {1..4}^3 (thorough: all "
    "of them, quick: one shape per pair chosen from the run seed), values = dense gaussian from a seed stored in the "
    "case (every fourth case complex). array: Hypothesis draws rank 3..5 arrays, which array axes are spatial, "
    "the symmetry tuple, optional per-axis sign arrays and on-plane axes for unfold_array. detector: Hypothesis draws "
    "the detector kind (field / phasor / energy / energy-as-slices / poynting), component subset, exact_interpolation, "
    "keep_all_components, the region relative to each plane (straddling symmetric / asymmetric, starting on it, "
    "inside the kept half) and a random spatial record; the reduce_volume twin is derived from the same record. "
    "detector_placed: the same with detectors placed by place_objects. Non-trivial = at least one mirrored axis with "
    ">= 2 kept samples and pairwise distinct data (gaussian), so parity and index errors are visible. Distinct = "
    "sha1 of the case JSON."
)
ASSUMPTIONS = [
    "the documented fill of the one partner-less cell of an on-plane component (outermost cell repeats its "
    "neighbour) is asserted as documented",
    "'no component sits on the plane' is read as: the detector's on-plane axis set is empty (exact_interpolation off, "
    "or no electric plane touched on x / y)",
    "reduce means: FieldDetector / PhasorDetector = spatial mean, EnergyDetector / PoyntingFluxDetector = spatial sum, "
    "EnergyDetector(as_slices) = mean over the collapsed axis (uniform grid, so cell weights are constant)",
    "mirroring is flips, slices and multiplications by +-1, 0, 1, 2: compared with relative tolerance 1e-12",
    "ModeOverlap / FieldProjection / PhasorPoynting detectors (PhasorDetector subclasses that store the same phasor "
    "state) and DiffractiveDetector (documented NotImplementedError) are not generated",
]

SYMS = [t for t in itertools.product((-1, 0, 1), repeat=3) if any(t)]
COMPS = ("Ex", "Ey", "Ez", "Hx", "Hy", "Hz")
TOL = 1e-12


# ----------------------------------------------------------------------------------------------
# reference model (docs restated)
# ----------------------------------------------------------------------------------------------
def doc_parity(ft, comp, axis, wall):
    normal = comp == axis
    if wall == -1:
        odd = (ft == "E" and not normal) or (ft == "H" and normal)
    else:
        odd = (ft == "H" and not normal) or (ft == "E" and normal)
    return -1 if odd else 1


def doc_on_plane(ft, comp, axis, wall):
    if wall != -1:
        return False
    return (ft == "E" and comp != axis) or (ft == "H" and comp == axis)


def axis_table(n, on_plane):
    """For the 2n reconstructed samples: source index in the kept half and whether it is a mirror image."""
    src = np.zeros(2 * n, dtype=np.int64)
    mir = np.zeros(2 * n, dtype=bool)
    for i in range(2 * n):
        if i >= n:
            src[i] = i - n  # kept half, unchanged
        elif not on_plane:
            src[i], mir[i] = (n - 1 - i), True  # one-to-one: (m-1-j) <-> (m+j)
        elif i >= 1:
            src[i], mir[i] = (n - i), True  # on the plane: (m-j) <-> (m+j), j = 1..n-1
        else:
            src[i], mir[i] = (n - 1), True  # partner-less outermost cell repeats its neighbour (i = 1)
    return src, mir


def ref_unfold_axis(arr, array_axis, on_plane, sign):
    """sign: scalar or array broadcastable against arr (applied to mirror images only)."""
    n = arr.shape[array_axis]
    src, mir = axis_table(n, on_plane)
    out = np.take(arr, src, axis=array_axis)
    shp = [1] * arr.ndim
    shp[array_axis] = 2 * n
    factor = np.where(mir.reshape(shp), np.asarray(sign, dtype=np.float64), 1.0)
    return out * factor


def ref_unfold_fields(f, sym, ft):
    comps = []
    for c in range(3):
        a = f[c]
        for ax in range(3):
            if sym[ax] == 0:
                continue
            a = ref_unfold_axis(a, ax, doc_on_plane(ft, c, ax, sym[ax]), doc_parity(ft, c, ax, sym[ax]))
        comps.append(a)
    return np.stack(comps)


def upper_half(arr, array_axes):
    idx = [slice(None)] * arr.ndim
    for ax in array_axes:
        idx[ax] = slice(arr.shape[ax] // 2, None)
    return arr[tuple(idx)]


def gaussian(seed, shape, cplx=False):
    rng = np.random.default_rng(int(seed) & 0xFFFFFFFF)
    a = rng.standard_normal(shape)
    if cplx:
        a = a + 1j * rng.standard_normal(shape)
    return a


_JIT = {}


def _unfold_fields_jit():
    if "f" not in _JIT:
        import fdtdx
        import jax

        _JIT["f"] = jax.jit(fdtdx.unfold_fields, static_argnums=(1, 2))
    return _JIT["f"]


# ----------------------------------------------------------------------------------------------
# sub: fields (unfold_fields on the whole (tuple, field type, shape) domain)
# ----------------------------------------------------------------------------------------------
def _thin(sym, shape):
    return any(sym[a] == -1 and shape[a] == 1 for a in range(3))


def field_cases(ctx):
    shapes = [s for s in itertools.product((1, 2, 3, 4), repeat=3)]
    k = 0
    if ctx.tier == "thorough":
        import os

        stride = max(1, round(1.0 / float(os.environ.get("VERIF_SCALE", "1"))))  # development aid only (as in the driver)
        for sym in SYMS:
            for ft in ("E", "H"):
                for shp in shapes:
                    if _thin(sym, shp):
                        continue
                    k += 1
                    if k % stride:
                        continue
                    yield {"sym": list(sym), "ft": ft, "shape": list(shp), "seed": 7919 * k + ctx.seed,
                           "complex": k % 4 == 0}
    else:
        rng = np.random.default_rng(1000003 * int(ctx.seed) + 17)
        for sym in SYMS:
            for ft in ("E", "H"):
                shp = [int(rng.integers(2, 5)) if sym[a] else int(rng.integers(1, 5)) for a in range(3)]
                k += 1
                yield {"sym": list(sym), "ft": ft, "shape": shp, "seed": int(rng.integers(0, 2**31 - 1)),
                       "complex": k % 4 == 0}


def body_fields(ctx, case):
    import jax.numpy as jnp

    sym, ft, shape = tuple(case["sym"]), case["ft"], tuple(case["shape"])
    f = gaussian(case["seed"], (3, *shape), case["complex"])
    got = np.asarray(_unfold_fields_jit()(jnp.asarray(f), sym, ft))
    want_shape = (3, *(shape[a] * (2 if sym[a] else 1) for a in range(3)))
    ctx.check(got.shape == want_shape, f"unfold_fields: shape {got.shape}, each symmetric axis must double",
              observed=list(got.shape), expected=list(want_shape))
    sym_axes = [a for a in range(3) if sym[a]]
    ctx.classify("ft=" + ft, f"planes={len(sym_axes)}",
                 *("wall=electric" if sym[a] == -1 else "wall=magnetic" for a in sym_axes),
                 "complex" if case["complex"] else "real")
    ctx.nontrivial(any(shape[a] >= 2 for a in sym_axes))
    # (i) round trip
    ctx.close(upper_half(got, [a + 1 for a in sym_axes]), f, tol=TOL, msg="upper half of unfold_fields != input",
              metric="roundtrip_err")
    # (ii) documented parity + index map, every reconstructed cell
    ctx.close(got, ref_unfold_fields(f, sym, ft), tol=TOL,
              msg=f"unfold_fields({ft}, {sym}) deviates from the documented parity / mirror index map",
              metric="map_err")


# ----------------------------------------------------------------------------------------------
# sub: array (unfold_array, the generic building block)
# ----------------------------------------------------------------------------------------------
@st.composite
def array_strategy(draw, ctx):
    sym = draw(st.sampled_from(SYMS))
    rank = draw(st.integers(3, 5))
    spatial = draw(st.permutations(list(range(rank))))[:3]
    on_plane = [a for a in range(3) if sym[a] == -1 and draw(st.booleans())]
    shape = [draw(st.integers(1, 3)) for _ in range(rank)]
    for a in range(3):
        if a in on_plane:
            shape[spatial[a]] = draw(st.integers(2, 4))
    other = [ax for ax in range(rank) if ax not in spatial]
    signs = {}
    for a in range(3):
        if sym[a] == 0:
            continue
        kind = draw(st.sampled_from(["none", "scalar", "vector"]))
        if kind == "scalar":
            signs[str(a)] = draw(st.sampled_from([1.0, -1.0]))
        elif kind == "vector" and other:
            ax = draw(st.sampled_from(other))
            signs[str(a)] = {"axis": ax, "values": [draw(st.sampled_from([1.0, -1.0])) for _ in range(shape[ax])]}
    return {"sym": list(sym), "shape": shape, "spatial": list(spatial), "on_plane": on_plane, "signs": signs,
            "use_signs": draw(st.booleans()) or bool(signs), "seed": draw(st.integers(0, 2**31 - 1))}


def body_array(ctx, case):
    import fdtdx
    import jax
    import jax.numpy as jnp

    sym, shape, spatial = tuple(case["sym"]), tuple(case["shape"]), tuple(case["spatial"])
    arr = gaussian(case["seed"], shape)
    signs_np = {}
    for k, v in case["signs"].items():
        if isinstance(v, dict):
            shp = [1] * len(shape)
            shp[v["axis"]] = len(v["values"])
            signs_np[int(k)] = np.asarray(v["values"]).reshape(shp)
        else:
            signs_np[int(k)] = float(v)
    signs_j = {a: (jnp.asarray(s) if isinstance(s, np.ndarray) else s) for a, s in signs_np.items()}
    # one fused XLA program per case instead of one per jnp op (pure speed; semantics are identical)
    fn = jax.jit(lambda x, sg: fdtdx.unfold_array(x, sym, spatial, sg, tuple(case["on_plane"])))
    got = np.asarray(fn(jnp.asarray(arr), signs_j if case["use_signs"] else None))
    want = arr
    for a in range(3):
        if sym[a]:
            want = ref_unfold_axis(want, spatial[a], a in case["on_plane"], signs_np.get(a, 1.0))
    sym_axes = [a for a in range(3) if sym[a]]
    ctx.classify(f"rank={len(shape)}", f"planes={len(sym_axes)}", f"on_plane={len(case['on_plane'])}",
                 "signs" if case["signs"] else "no-signs")
    ctx.nontrivial(any(shape[spatial[a]] >= 2 for a in sym_axes))
    ctx.check(got.shape == want.shape, f"unfold_array: shape {got.shape} vs {want.shape}",
              observed=list(got.shape), expected=list(want.shape))
    ctx.close(upper_half(got, [spatial[a] for a in sym_axes]), arr, tol=TOL,
              msg="upper half of unfold_array != input", metric="roundtrip_err")
    ctx.close(got, want, tol=TOL, msg="unfold_array deviates from the documented mirror map", metric="map_err")


# ----------------------------------------------------------------------------------------------
# detectors: model
# ----------------------------------------------------------------------------------------------
def comp_spec(components):
    return [("E" if n[0] == "E" else "H", "xyz".index(n[1])) for n in COMPS if n in components]


def poynting_parity(i, axis):
    return -1 if i == axis else 1  # polar vector: the component normal to the mirror flips


def det_touched(case):
    sym = case["sym"]
    return [sym[a] if case["unreduced"][a][0] < 0 else 0 for a in range(3)]


def det_clipped(case):
    return [(max(s0, 0), s1) if case["sym"][a] else (s0, s1) for a, (s0, s1) in enumerate(case["unreduced"])]


def det_layout(case):
    """-> dict key -> (leading shape, component parities per stored component or None, physical axes stored)"""
    kind = case["kind"]
    T = case["T"]
    if kind == "field":
        return {"fields": ((T,), comp_spec(case["components"]), (0, 1, 2))}
    if kind == "phasor":
        return {"phasor": ((1, case["nfreq"]), comp_spec(case["components"]), (0, 1, 2))}
    if kind == "energy":
        return {"energy": ((T,), None, (0, 1, 2))}
    if kind == "energy_slices":
        return {"XY Plane": ((T,), None, (0, 1)), "XZ Plane": ((T,), None, (0, 2)), "YZ Plane": ((T,), None, (1, 2))}
    if kind == "poynting":
        return {"poynting_flux": ((T,), "S3" if case["keep_all"] else "S1", (0, 1, 2))}
    raise ValueError(kind)


def det_signs(case, spec, axis, wall):
    if spec is None:
        return [1]
    if spec == "S3":
        return [poynting_parity(i, axis) for i in range(3)]
    if spec == "S1":
        return [poynting_parity(case["prop_axis"], axis)]
    return [doc_parity(ft, c, axis, wall) for ft, c in spec]


def det_on_plane(case, touched):
    return [a for a in (0, 1) if case["exact"] and touched[a] == -1]


def ref_unfold_spatial(case, key, arr):
    """Reference unfolding of a spatial record `arr` = leading + [components] + stored physical axes."""
    lead, spec, phys = det_layout(case)[key]
    touched = det_touched(case)
    onp = det_on_plane(case, touched)
    has_comp = spec is not None and spec != "S1"
    off = len(lead) + (1 if has_comp else 0)
    out = arr
    for pos, a in enumerate(phys):
        if touched[a] == 0:
            continue
        s = det_signs(case, spec, a, touched[a])
        if has_comp:
            shp = [1] * arr.ndim
            shp[len(lead)] = len(s)
            sign = np.asarray(s, dtype=np.float64).reshape(shp)
        else:
            sign = float(s[0])
        out = ref_unfold_axis(out, off + pos, a in onp, sign)
    return out


def ref_reduce(case, arr):
    """Volume reduction of a spatial record as the detector stores it (uniform grid)."""
    kind = case["kind"]
    sp = tuple(range(arr.ndim - 3, arr.ndim))
    if kind in ("field", "phasor"):
        return arr.mean(axis=sp)
    if kind == "energy":
        return arr.sum(axis=sp)[:, None]
    if kind == "poynting":
        r = arr.sum(axis=sp)
        return r if case["keep_all"] else r[:, None]
    raise ValueError(kind)


def ref_reduce_factor(case):
    """even doubles (sum) / keeps (mean), odd vanishes — per stored component."""
    touched = det_touched(case)
    lead, spec, _ = det_layout(case)[{"field": "fields", "phasor": "phasor", "energy": "energy",
                                      "poynting": "poynting_flux"}[case["kind"]]]
    mean = case["kind"] in ("field", "phasor")
    ncomp = 1 if spec in (None, "S1") else (3 if spec == "S3" else len(spec))
    fac = np.ones(ncomp)
    for a in range(3):
        if touched[a] == 0:
            continue
        s = np.asarray(det_signs(case, spec, a, touched[a]), dtype=np.float64)
        fac = fac * ((1 + s) / 2 if mean else (1 + s))
    return fac  # broadcasts against the trailing component axis


def make_detector(case, reduce, lane="f64"):
    import fdtdx
    import jax.numpy as jnp

    fdt = jnp.float64 if lane == "f64" else jnp.float32
    cdt = jnp.complex128 if lane == "f64" else jnp.complex64
    kind = case["kind"]
    common = dict(name="det", exact_interpolation=case["exact"], plot=False)
    if kind == "field":
        d = fdtdx.FieldDetector(dtype=fdt, reduce_volume=reduce, components=tuple(case["components"]), **common)
    elif kind == "phasor":
        d = fdtdx.PhasorDetector(dtype=cdt, reduce_volume=reduce, components=tuple(case["components"]),
                                 wave_characters=tuple(fdtdx.WaveCharacter(wavelength=(8.0 + 2 * i) * 5e-8)
                                                       for i in range(case["nfreq"])), **common)
    elif kind == "energy":
        d = fdtdx.EnergyDetector(dtype=fdt, reduce_volume=reduce, **common)
    elif kind == "energy_slices":
        d = fdtdx.EnergyDetector(dtype=fdt, as_slices=True, **common)
    elif kind == "poynting":
        d = fdtdx.PoyntingFluxDetector(dtype=fdt, direction=case["direction"], reduce_volume=reduce,
                                       keep_all_components=case["keep_all"],
                                       fixed_propagation_axis=case["prop_axis"], **common)
    else:
        raise ValueError(kind)
    # what place_objects records on a placed detector: clipped slice + unclipped slice in reduced coordinates
    d = d.aset("_grid_slice_tuple", tuple(tuple(x) for x in det_clipped(case)))
    d = d.aset("_unreduced_grid_slice_tuple", tuple(tuple(x) for x in case["unreduced"]))
    return d


_BASE = {}


def _base(lane):
    """One tiny placed scene per process: supplies a genuine ArrayContainer / SimulationConfig / volume."""
    if lane not in _BASE:
        from pbt import scenes

        _BASE[lane] = scenes.build({"shape": [4, 4, 4], "steps": 2, "symmetry": [-1, 0, 0], "faces": {}}, lane)
    return _BASE[lane]


def run_unfold(ctx, case, det, state_np, jit=True):
    import fdtdx
    import jax
    import jax.numpy as jnp
    from fdtdx.fdtd.container import ObjectContainer

    b = _base(ctx.lane)
    oc = ObjectContainer(object_list=[b.objects.volume, det], volume_idx=0)
    cfg = b.config.aset("symmetry", tuple(case["sym"]))

    def fn(st):
        return fdtdx.unfold_detector_states(b.arrays.aset("detector_states", {"det": st}), oc, cfg).detector_states["det"]

    if jit:  # one fused XLA program per case instead of one per jnp op (pure speed; the placed sub runs eagerly)
        fn = jax.jit(fn)
    out = fn({k: jnp.asarray(v) for k, v in state_np.items()})
    return {k: np.asarray(v) for k, v in out.items()}


def spatial_state(case, seed):
    clipped = det_clipped(case)
    n = [hi - lo for lo, hi in clipped]
    out = {}
    for i, (key, (lead, spec, phys)) in enumerate(det_layout(case).items()):
        ncomp = () if spec in (None, "S1") else ((3,) if spec == "S3" else (len(spec),))
        shape = (*lead, *ncomp, *(n[a] for a in phys))
        out[key] = gaussian(seed + i, shape, cplx=case["kind"] == "phasor")
    return out


def check_detector(ctx, case, det_spatial, det_reduced, unfold):
    """unfold(det, state) -> unfolded state dict.  Shared by the synthetic and the placed sub."""
    touched = det_touched(case)
    onp = det_on_plane(case, touched)
    clipped = det_clipped(case)
    n = [hi - lo for lo, hi in clipped]
    kind = case["kind"]
    ctx.classify("kind=" + kind, f"touched={sum(1 for t in touched if t)}",
                 "on_plane" if onp else "off_plane", "exact" if case["exact"] else "raw",
                 *("touch=electric" if t == -1 else "touch=magnetic" for t in touched if t))
    ctx.nontrivial(any(touched[a] and n[a] >= 2 for a in range(3)))

    s = spatial_state(case, case["seed"])
    if kind == "energy_slices":
        # a genuine volume record so that the slices are means of one array
        vol = gaussian(case["seed"] + 11, (case["T"], *n))
        s = {"XY Plane": vol.mean(axis=3), "XZ Plane": vol.mean(axis=2), "YZ Plane": vol.mean(axis=1)}
    U = unfold(det_spatial, s)
    for key, arr in s.items():
        lead, spec, phys = det_layout(case)[key]
        want = ref_unfold_spatial(case, key, arr)
        got = U[key]
        ctx.check(got.shape == want.shape, f"{kind}/{key}: unfolded shape {got.shape}, expected {want.shape}",
                  observed=list(got.shape), expected=list(want.shape))
        off = arr.ndim - len(phys)
        mirrored = [off + p for p, a in enumerate(phys) if touched[a]]
        ctx.close(upper_half(got, mirrored), arr, tol=TOL,
                  msg=f"{kind}/{key}: upper half of the unfolded record != stored record", metric="roundtrip_err")
        ctx.close(got, want, tol=TOL,
                  msg=f"{kind}/{key}: unfolded record deviates from the documented parity / mirror map "
                      f"(touched={touched}, on_plane={onp})", metric="map_err")

    if kind == "energy_slices":
        if not onp:
            # partial reduction commutes too: slices of the unfolded volume record == unfolded slices
            case_v = dict(case, kind="energy")
            Uv = ref_unfold_spatial(case_v, "energy", vol)
            for key, axis in (("XY Plane", 3), ("XZ Plane", 2), ("YZ Plane", 1)):
                ctx.close(U[key], Uv.mean(axis=axis), tol=1e-11,
                          msg=f"energy slices/{key}: unfolded slice != slice of the unfolded volume record",
                          metric="commute_err")
        return

    key = next(iter(s))
    r = ref_reduce(case, s[key])
    Ur = unfold(det_reduced, {key: r})[key]
    ctx.check(Ur.shape == r.shape, f"{kind}: unfolded reduced shape {Ur.shape} vs stored {r.shape}",
              observed=list(Ur.shape), expected=list(r.shape))
    fac = ref_reduce_factor(case)
    scale = max(float(np.abs(r).max()), 1e-300)
    ctx.close(Ur, r * fac, tol=TOL, scale=scale,
              msg=f"{kind}: reduce_volume value not rescaled as documented (even doubles/keeps, odd vanishes; "
                  f"touched={touched})", metric="reduce_err")
    if any(touched):
        ctx.classify("reduce:" + ("some-odd" if (fac == 0).any() else "all-even"))
    if not onp:
        # (iii) unfold(reduce(s)) == reduce(unfold(s)) — both sides through fdtdx, reductions in numpy
        ctx.close(Ur, ref_reduce(case, U[key]), tol=1e-11, scale=scale,
                  msg=f"{kind}: unfolding the volume-reduced value != reducing the unfolded spatial record "
                      f"(touched={touched})", metric="commute_err")


# ----------------------------------------------------------------------------------------------
# sub: detector (synthetic detector objects, random records)
# ----------------------------------------------------------------------------------------------
@st.composite
def region_strategy(draw, sym, exact, allow_thin=False):
    """Unreduced slice per axis in reduced coordinates (plane at 0)."""
    out = []
    # most cases cross at least one plane (the untouched case only checks "returned unchanged")
    forced = draw(st.sampled_from([a for a in range(3) if sym[a]])) if draw(st.integers(0, 7)) else None
    for a in range(3):
        if sym[a] == 0:
            lo = draw(st.integers(0, 2))
            out.append([lo, lo + draw(st.integers(1, 3))])
            continue
        if a == forced:
            rel = draw(st.sampled_from(["straddle", "straddle", "asym"]))
        else:
            rel = draw(st.sampled_from(["straddle", "straddle", "straddle", "asym", "start", "start", "inside"]))
        on_plane = exact and sym[a] == -1 and a in (0, 1)
        kmin = 2 if (on_plane and not allow_thin) else 1
        k = draw(st.sampled_from([x for x in (1, 2, 2, 3, 3) if x >= kmin]))
        if rel == "straddle":
            out.append([-k, k])
        elif rel == "asym":
            out.append([-draw(st.integers(1, 3)), k])
        elif rel == "start":
            out.append([0, k])
        else:
            lo = draw(st.integers(1, 2))
            out.append([lo, lo + k])
    return out


@st.composite
def detector_strategy(draw, ctx, kinds=("field", "phasor", "energy", "energy_slices", "poynting"), keep_all=True):
    sym = draw(st.sampled_from(SYMS))
    kind = draw(st.sampled_from(list(kinds)))
    exact = draw(st.booleans())
    case = {"sym": list(sym), "kind": kind, "exact": exact, "T": draw(st.integers(1, 2)),
            "seed": draw(st.integers(0, 2**31 - 1))}
    if kind in ("field", "phasor"):
        sel = draw(st.lists(st.sampled_from(COMPS), min_size=1, max_size=6, unique=True))
        # the user's listing order is free (records are stored in canonical Ex..Hz order whatever the listing);
        # half of the cases keep the drawn, generally non-canonical order
        case["components"] = sel if draw(st.booleans()) else [c for c in COMPS if c in sel]
    if kind == "phasor":
        case["nfreq"] = draw(st.integers(1, 2))
        case["T"] = 1
    case["unreduced"] = draw(region_strategy(sym, exact))
    if kind == "poynting":
        case["keep_all"] = draw(st.booleans()) if keep_all else False
        case["direction"] = draw(st.sampled_from(["+", "-"]))
        case["prop_axis"] = draw(st.integers(0, 2))
    return case


def body_detector(ctx, case):
    det_s = make_detector(case, False, ctx.lane)
    det_r = None if case["kind"] == "energy_slices" else make_detector(case, True, ctx.lane)
    check_detector(ctx, case, det_s, det_r, lambda det, state: run_unfold(ctx, case, det, state))


# ----------------------------------------------------------------------------------------------
# sub: detector_placed (the same through place_objects)
# ----------------------------------------------------------------------------------------------
@st.composite
def placed_strategy(draw, ctx):
    case = draw(detector_strategy(ctx, keep_all=False))
    # full-domain volume: plane at m = n on symmetric axes; leave room above the region
    half = [max(2, case["unreduced"][a][1], -case["unreduced"][a][0]) + draw(st.integers(0, 1)) for a in range(3)]
    case["half"] = half
    if case["kind"] == "poynting":
        # a flux plane: one cell thick along its axis (no fixed axis given to the real detector)
        a = case["prop_axis"]
        lo = draw(st.integers(0, half[a] - 1))
        case["unreduced"][a] = [lo, lo + 1]
        if sum(1 for b in range(3) if det_clipped(case)[b][1] - det_clipped(case)[b][0] == 1) != 1:
            # make the other axes at least two kept cells thick so the propagation axis is unambiguous
            for b in range(3):
                if b != a:
                    s0, s1 = case["unreduced"][b]
                    if s1 - max(s0, 0) < 2:
                        case["unreduced"][b] = [s0, s1 + 1]
                        case["half"][b] = max(case["half"][b], s1 + 1)
    return case


def body_placed(ctx, case):
    import fdtdx
    import jax.numpy as jnp
    from pbt import scenes

    sym = case["sym"]
    half = case["half"]
    shape = [2 * half[a] if sym[a] else half[a] for a in range(3)]
    m = [half[a] if sym[a] else 0 for a in range(3)]
    lo = [case["unreduced"][a][0] + m[a] for a in range(3)]
    hi = [case["unreduced"][a][1] + m[a] for a in range(3)]
    kind = case["kind"]

    def dspec(name, reduce):
        d = {"name": name, "lo": lo, "hi": hi, "exact": case["exact"], "reduce": reduce}
        if kind in ("field", "phasor"):
            d.update(type=kind, components=case["components"])
            if kind == "phasor":
                d["wl_cells"] = [8.0 + 2 * i for i in range(case["nfreq"])]
        elif kind == "energy":
            d.update(type="energy")
        elif kind == "energy_slices":
            d.update(type="energy", as_slices=True, reduce=False)
        else:
            d.update(type="poynting", direction=case["direction"], keep_all=False)
        return d

    dets = [dspec("det_s", False)] + ([] if kind == "energy_slices" else [dspec("det_r", True)])
    spec = {"shape": shape, "steps": case["T"], "symmetry": sym, "faces": {}, "detectors": dets}
    b = scenes.build(spec, ctx.lane)
    by_name = {d.name: d for d in b.objects.detectors}
    ds = by_name["det_s"]
    # the placement bookkeeping the unfold relies on, against the geometric model
    ctx.check([list(x) for x in ds.grid_slice_tuple] == [list(x) for x in det_clipped(case)],
              "placed detector: clipped slice differs from the geometric model",
              observed=[list(x) for x in ds.grid_slice_tuple], expected=[list(x) for x in det_clipped(case)])
    ctx.check([ds.straddles_symmetry_plane(a) for a in range(3)] == [case["unreduced"][a][0] < 0 and sym[a] != 0
                                                                     for a in range(3)],
              "placed detector: straddles_symmetry_plane differs from the geometric model")
    proto = spatial_state(case, 0)
    for key, arr in proto.items():
        st_shape = tuple(b.arrays.detector_states["det_s"][key].shape)
        ctx.check(st_shape == arr.shape, f"placed {kind}/{key}: state shape {st_shape}, model {arr.shape}",
                  observed=list(st_shape), expected=list(arr.shape))
    if kind == "poynting":
        ctx.check(ds.propagation_axis == case["prop_axis"], "placed poynting detector: unexpected propagation axis",
                  observed=ds.propagation_axis, expected=case["prop_axis"])

    def unfold(det, state):
        name = det
        arr = b.arrays.aset("detector_states", {
            n: ({k: jnp.asarray(v, dtype=b.arrays.detector_states[n][k].dtype) for k, v in state.items()}
                if n == name else b.arrays.detector_states[n]) for n in b.arrays.detector_states})
        out = fdtdx.unfold_detector_states(arr, b.objects, b.config).detector_states[name]
        return {k: np.asarray(v) for k, v in out.items()}

    ctx.classify("placed")
    check_detector(ctx, case, "det_s", "det_r", unfold)


# ----------------------------------------------------------------------------------------------
# sub: thin (one kept sample on an electric plane — boundary of the on-plane index map)
# ----------------------------------------------------------------------------------------------
def thin_cases(ctx):
    for a in range(3):
        for ft in ("E", "H"):
            shape = [3, 2, 4]
            shape[a] = 1
            sym = [0, 0, 0]
            sym[a] = -1
            yield {"thin": True, "what": "fields", "sym": sym, "ft": ft, "shape": shape, "seed": 5 + a}
    for a in (0, 1):
        sym = [0, 0, 0]
        sym[a] = -1
        unred = [[0, 2], [0, 2], [0, 2]]
        unred[a] = [-1, 1]
        yield {"thin": True, "what": "detector", "sym": sym, "kind": "field", "exact": True, "T": 1, "seed": 9 + a,
               "components": ["Ex", "Ey", "Hz"], "unreduced": unred}


def body_thin(ctx, case):
    import fdtdx
    import jax.numpy as jnp

    ctx.classify("thin/" + case["what"])
    ctx.nontrivial(True)
    if case["what"] == "fields":
        sym, shape = tuple(case["sym"]), tuple(case["shape"])
        f = gaussian(case["seed"], (3, *shape))
        got = np.asarray(fdtdx.unfold_fields(jnp.asarray(f), sym, case["ft"]))
        want_shape = (3, *(shape[a] * (2 if sym[a] else 1) for a in range(3)))
        ctx.check(got.shape == want_shape, f"unfold_fields: shape {got.shape}, each symmetric axis must double",
                  observed=list(got.shape), expected=list(want_shape))
        ctx.close(upper_half(got, [a + 1 for a in range(3) if sym[a]]), f, tol=TOL,
                  msg="upper half of unfold_fields != input")
        return
    det = make_detector(case, False, ctx.lane)
    s = spatial_state(case, case["seed"])
    U = run_unfold(ctx, case, det, s, jit=False)
    touched = det_touched(case)
    for key, arr in s.items():
        want_shape = list(arr.shape)
        for a in range(3):
            if touched[a]:
                want_shape[2 + a] *= 2
        ctx.check(list(U[key].shape) == want_shape,
                  f"detector two cells thick across an electric plane: unfolded shape {U[key].shape}, the full-domain "
                  f"region has shape {tuple(want_shape)}", observed=list(U[key].shape), expected=want_shape)
        ctx.close(upper_half(U[key], [2 + a for a in range(3) if touched[a]]), arr, tol=TOL,
                  msg="upper half of the unfolded record != stored record")


SUBS = [
    Sub(name="fields", body=body_fields, cases=field_cases, lanes=("f64",), exhaustive=True, exhaustive_quick=False,
        quick_shards=4, rule="all 26 symmetry tuples x {E,H} x reduced shapes {1..4}^3 (quick: one shape per pair)"),
    Sub(name="array", body=body_array, strategy=lambda ctx: array_strategy(ctx), quick=120, thorough=6000,
        lanes=("f64",), quick_shards=4, rule="unfold_array with drawn spatial-axis placement, signs, on-plane axes"),
    Sub(name="detector", body=body_detector, strategy=lambda ctx: detector_strategy(ctx), quick=200, thorough=12000,
        lanes=("f64",), quick_shards=4,
        rule="synthetic detector of every kind, region in every relation to the planes, random records"),
    Sub(name="detector_placed", body=body_placed, strategy=lambda ctx: placed_strategy(ctx), quick=16, thorough=480,
        lanes=("f64",), quick_shards=4, rule="the same through place_objects (bookkeeping + state shapes + unfold)"),
    Sub(name="thin", body=body_thin, cases=thin_cases, lanes=("f64",), exhaustive=True, exhaustive_quick=True,
        quick_shards=4, rule="one kept sample along an electric-plane axis (2-cell axis / 2-cell-thick detector)"),
]

KNOWN_CLASSES = {
    # one kept sample on an electric plane: mirror_extend_low_side(on_plane=True) returns an empty block
    "C32-thin": lambda case: bool(case.get("thin")),
}
