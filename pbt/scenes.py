"""Shared scene description (JSON-able), Hypothesis strategies for it, and the builder into fdtdx.

A *scene spec* is a plain dict — the unit that is generated, shrunk, fingerprinted and replayed:

    {"d": 5e-8,                          # base spacing in metres
     "shape": [nx, ny, nz],
     "grid": {"kind": "uniform"} | {"kind": "rect", "widths": [[..nx..],[..ny..],[..nz..]]}   # widths in units of d
             | {"kind": "quasi"},                                                              # dx=dy=dz=d
     "courant": 0.99, "steps": T,
     "faces": {"min_x": {"kind": "none"|"pec"|"pmc"|"periodic"|"bloch"|"pml", "thickness": n}, ... six entries},
     "bloch_phase": [px, py, pz],        # phase advance across the whole domain per axis (k = p / L)
     "complex": null | true | false,
     "background": MAT, "objects": [{"name", "lo":[i,j,k], "hi":[i,j,k], "material": MAT, "order": int}],
     "sources": [...], "detectors": [...],
     "gradient": null | {"method": "reversible", "ckpt": r} | {"method": "checkpointed", "n": n},
     "symmetry": [0,0,0]}

    MAT = {"eps": s | [3] | [9], "mu": ..., "sigE": ..., "sigH": ...}   (missing keys = vacuum defaults)

Everything is positioned with explicit GridCoordinateConstraints and every object gets an explicit name.
"""

from __future__ import annotations

import math

import numpy as np
from hypothesis import strategies as st

FACES = ("min_x", "max_x", "min_y", "max_y", "min_z", "max_z")
AXNAME = "xyz"


# ----------------------------------------------------------------------------------------------
# strategies
# ----------------------------------------------------------------------------------------------
@st.composite
def faces_strategy(draw, kinds=("none", "pec", "pmc", "periodic"), pml_thickness=(2, 5), allow_bloch=False,
                   mixed_periodic=False):
    """Per-face boundary kinds; periodic / bloch come in pairs on an axis, except that with mixed_periodic one axis in
    three gets a periodic boundary object on ONE face and a wall / zero halo on the other (fdtdx accepts that: the axis
    is wrap-padded and the wall's own condition is enforced on top)."""
    faces = {}
    for ax in range(3):
        if mixed_periodic and "periodic" in kinds and draw(st.integers(0, 2)) == 0:
            per_side = draw(st.sampled_from(["min", "max"]))
            other = "max" if per_side == "min" else "min"
            faces[f"{per_side}_{AXNAME[ax]}"] = {"kind": "periodic"}
            faces[f"{other}_{AXNAME[ax]}"] = {"kind": draw(st.sampled_from([k for k in kinds if k in ("none", "pec", "pmc")]))}
            continue
        pair_kinds = [k for k in kinds if k in ("periodic",)] + (["bloch"] if allow_bloch else [])
        single = [k for k in kinds if k not in ("periodic", "bloch")]
        choice = draw(st.sampled_from((["pair"] if pair_kinds else []) + (["single"] if single else [])))
        if choice == "pair":
            k = draw(st.sampled_from(pair_kinds))
            for side in ("min", "max"):
                faces[f"{side}_{AXNAME[ax]}"] = {"kind": k}
        else:
            for side in ("min", "max"):
                k = draw(st.sampled_from(single))
                f = {"kind": k}
                if k == "pml":
                    f["thickness"] = draw(st.integers(*pml_thickness))
                faces[f"{side}_{AXNAME[ax]}"] = f
    return faces


@st.composite
def grid_strategy(draw, shape, faces=None, kinds=("uniform", "rect")):
    kind = draw(st.sampled_from(list(kinds)))
    if kind != "rect":
        return {"kind": kind}
    widths = []
    for ax in range(3):
        n = shape[ax]
        w = [draw(st.sampled_from([0.6, 0.75, 1.0, 1.0, 1.25, 1.6])) for _ in range(n)]
        if faces is not None and any(faces[f"{sd}_{AXNAME[ax]}"]["kind"] in ("periodic", "bloch") for sd in ("min", "max")):
            w[-1] = w[0]
        widths.append(w)
    return {"kind": "rect", "widths": widths}


def material_strategy(tiers=("iso", "diag"), lossy=False, magnetic=True, lo=1.0, hi=6.0):
    val = st.floats(lo, hi, allow_nan=False, width=32).map(lambda x: round(x, 3))

    @st.composite
    def _m(draw):
        m = {}
        for key, on in (("eps", True), ("mu", magnetic and draw(st.booleans()))):
            if not on:
                continue
            t = draw(st.sampled_from(list(tiers)))
            if t == "iso":
                m[key] = draw(val)
            elif t == "diag":
                m[key] = [draw(val) for _ in range(3)]
            else:
                m[key] = spd_tensor(draw, val)
        if lossy:
            for key in ("sigE", "sigH"):
                if draw(st.booleans()):
                    v = draw(st.sampled_from([0.0, 1e3, 1e4, 5e4])) if key == "sigE" else draw(
                        st.sampled_from([0.0, 1e8, 1e9, 5e9]))
                    # conductivities may be diagonally anisotropic independently of the permittivity's tier
                    if v and any(t in tiers for t in ("diag", "full")) and draw(st.integers(0, 2)) == 0:
                        v = [v, 0.5 * v, 2.0 * v]
                    m[key] = v
        return m

    return _m()


def spd_tensor(draw, val):
    """Full symmetric positive definite 3x3 tensor R diag(l) R^T as a 9-list (row major)."""
    lam = [draw(val) for _ in range(3)]
    angles = [draw(st.sampled_from([0.0, 0.3, 0.7, 1.1, 2.0])) for _ in range(3)]
    R = _rot(*angles)
    T = R @ np.diag(lam) @ R.T
    T = (T + T.T) / 2
    return [round(float(x), 6) for x in T.reshape(-1)]


def _rot(a, b, c):
    ca, sa, cb, sb, cc, sc = math.cos(a), math.sin(a), math.cos(b), math.sin(b), math.cos(c), math.sin(c)
    Rz = np.array([[ca, -sa, 0], [sa, ca, 0], [0, 0, 1]])
    Ry = np.array([[cb, 0, sb], [0, 1, 0], [-sb, 0, cb]])
    Rx = np.array([[1, 0, 0], [0, cc, -sc], [0, sc, cc]])
    return Rz @ Ry @ Rx


@st.composite
def box_strategy(draw, shape, min_size=1, margin=0):
    lo, hi = [], []
    for ax in range(3):
        n = shape[ax]
        a = draw(st.integers(margin, n - margin - min_size))
        b = draw(st.integers(a + min_size, n - margin))
        lo.append(a)
        hi.append(b)
    return lo, hi


@st.composite
def switch_strategy(draw, steps, dt_periods=True):
    """On/off schedules in the public vocabulary, JSON form. Times are given in *steps* and converted
    to seconds by the builder (start_time = step * dt)."""
    kind = draw(st.sampled_from(["always", "always", "window", "interval", "fixed", "off", "duration"]))
    if kind == "always":
        return {}
    if kind == "duration":  # window given through a duration (on_for_*), alone or with one edge, seconds or periods
        n = draw(st.integers(0, max(0, steps - 2)))
        s = {"on_for_steps": n}
        edge = draw(st.sampled_from(["none", "none", "start", "end"]))
        if edge == "start":
            s["start_step"] = draw(st.integers(0, max(0, steps - 2)))
        elif edge == "end":
            s["end_step"] = draw(st.integers(n, steps))
        if draw(st.booleans()):
            s["periods"] = True
        return s
    if kind == "off":
        return {"is_always_off": True}
    if kind == "fixed":
        n = draw(st.integers(1, min(6, steps)))
        idx = sorted(draw(st.sets(st.integers(0, steps - 1), min_size=n, max_size=n)))
        return {"fixed_on_time_steps": idx}
    s = {}
    a = draw(st.integers(0, max(0, steps - 2)))
    b = draw(st.integers(a, steps))
    s["start_step"] = a
    if draw(st.booleans()):
        s["end_step"] = b
    if kind == "interval":
        s["interval"] = draw(st.integers(2, 4))
    return s


@st.composite
def profile_strategy(draw, wl_cells):
    kind = draw(st.sampled_from(["cw", "cw", "pulse", "custom"]))
    if kind == "cw":
        p = {"kind": "cw"}
        if draw(st.booleans()):
            p["phase"] = draw(st.sampled_from([0.0, 0.5, 1.0, math.pi]))
        return p
    if kind == "pulse":
        return {"kind": "pulse", "width_factor": draw(st.sampled_from([3.0, 5.0, 10.0]))}
    n = draw(st.integers(3, 12))
    sig = [round(draw(st.floats(-1, 1, allow_nan=False, width=32)), 3) for _ in range(n)]
    return {"kind": "custom", "signal": sig, "dt_steps": draw(st.sampled_from([1.0, 2.5, 4.0]))}


def transverse_pol(draw, axis):
    """E polarisation transverse to `axis` with a random in-plane angle."""
    ang = draw(st.sampled_from([0.0, 90.0, 30.0, 45.0, 120.0, 210.0, 300.0]))
    v = [0.0, 0.0, 0.0]
    h, w = [(1, 2), (2, 0), (0, 1)][axis]
    v[h] = round(math.cos(math.radians(ang)), 9)
    v[w] = round(math.sin(math.radians(ang)), 9)
    return v


@st.composite
def source_strategy(draw, shape, steps, faces, kinds=("uniform_plane", "gaussian_plane", "dipole_e", "dipole_m"),
                    name="src0", switches=True, profiles=True, interior=None):
    """interior: per-axis (lo, hi) cell range in which sources may sit (e.g. outside PML)."""
    kind = draw(st.sampled_from(list(kinds)))
    if interior is None:
        interior = interior_range(shape, faces)
    wl = draw(st.sampled_from([8.0, 10.0, 12.5, 16.0]))
    s = {"type": kind, "name": name, "wl_cells": wl, "amp": draw(st.sampled_from([1.0, 1.0, 0.5, 2.0, -1.5]))}
    if draw(st.integers(0, 3)) == 0:
        s["wave_phase"] = draw(st.sampled_from([0.5, 1.0, 1.5707963, -2.0]))  # WaveCharacter.phase_shift
    s["profile"] = draw(profile_strategy(wl)) if profiles else {"kind": "cw"}
    s["switch"] = draw(switch_strategy(steps)) if switches else {}
    if kind in ("uniform_plane", "gaussian_plane"):
        ax = draw(st.integers(0, 2))
        lo, hi = interior[ax]
        if hi - lo < 3:
            ax = max(range(3), key=lambda a: interior[a][1] - interior[a][0])
            lo, hi = interior[ax]
        s["axis"] = ax
        s["pos"] = draw(st.integers(lo + 1, max(lo + 1, hi - 2)))
        s["direction"] = draw(st.sampled_from(["+", "-"]))
        s["pol"] = transverse_pol(draw, ax)
        if draw(st.integers(0, 3)) == 0:
            s["pol_len"] = draw(st.sampled_from([2.0, 0.5, 5.0]))
        if kind == "gaussian_plane":
            s["radius_cells"] = draw(st.sampled_from([2.0, 3.0, 5.0]))
    else:
        s["pos"] = [draw(st.integers(interior[a][0], interior[a][1] - 1)) for a in range(3)]
        s["pol"] = draw(st.integers(0, 2))
        if draw(st.booleans()):
            s["az"] = draw(st.sampled_from([0.0, 20.0, 45.0, 90.0]))
            s["el"] = draw(st.sampled_from([0.0, 15.0, 60.0]))
    return s


def interior_range(shape, faces):
    out = []
    for ax in range(3):
        lo = faces[f"min_{AXNAME[ax]}"].get("thickness", 0) if faces[f"min_{AXNAME[ax]}"]["kind"] == "pml" else 0
        hi = shape[ax] - (
            faces[f"max_{AXNAME[ax]}"].get("thickness", 0) if faces[f"max_{AXNAME[ax]}"]["kind"] == "pml" else 0)
        out.append((lo, hi))
    return out


@st.composite
def detector_strategy(draw, shape, steps, name="det0", kinds=("field", "energy", "poynting", "phasor"),
                      switches=True, exact=(True, False), within=None):
    """within: optional per-axis (lo, hi) cell range the detector box must stay inside (e.g. outside PML)."""
    if within is not None:
        sub = [b - a for a, b in within]
        d = draw(detector_strategy(sub, steps, name=name, kinds=kinds, switches=switches, exact=exact))
        d["lo"] = [d["lo"][a] + within[a][0] for a in range(3)]
        d["hi"] = [d["hi"][a] + within[a][0] for a in range(3)]
        return d
    kind = draw(st.sampled_from(list(kinds)))
    d = {"type": kind, "name": name, "exact": draw(st.sampled_from(list(exact)))}
    d["switch"] = draw(switch_strategy(steps)) if switches else {}
    if kind == "poynting":
        ax = draw(st.integers(0, 2))
        lo, hi = draw(box_strategy(shape))
        p = draw(st.integers(0, shape[ax] - 1))
        lo[ax], hi[ax] = p, p + 1
        d.update(lo=lo, hi=hi, direction=draw(st.sampled_from(["+", "-"])), reduce=draw(st.booleans()),
                 keep_all=draw(st.booleans()))
        # the propagation axis is inferred from "exactly one axis of size 1" (documented precondition);
        # when the drawn plane is degenerate in a transverse axis too, state the axis explicitly
        if sum(hi[a] - lo[a] == 1 for a in range(3)) != 1 or draw(st.integers(0, 4)) == 0:
            d["fixed_axis"] = ax
    else:
        lo, hi = draw(box_strategy(shape))
        d.update(lo=lo, hi=hi, reduce=draw(st.booleans()))
        if kind in ("field", "phasor"):
            comps = ["Ex", "Ey", "Ez", "Hx", "Hy", "Hz"]
            sel = draw(st.lists(st.sampled_from(comps), min_size=1, max_size=6, unique=True))
            d["components"] = [c for c in comps if c in sel]
        if kind == "phasor":
            d["wl_cells"] = [draw(st.sampled_from([8.0, 10.0, 16.0]))]
            # a phasor detector that is never on is rejected at placement with a clear error (its window sums to 0):
            # documented precondition, so generate at least one active step
            if not switch_on_steps(d["switch"], steps):
                d["switch"] = {}
    return d


# ----------------------------------------------------------------------------------------------
# builder
# ----------------------------------------------------------------------------------------------
def _mat(m):
    import fdtdx

    kw = {}
    if "eps" in m:
        kw["permittivity"] = _tup(m["eps"])
    if "mu" in m:
        kw["permeability"] = _tup(m["mu"])
    if "sigE" in m:
        kw["electric_conductivity"] = _tup(m["sigE"])
    if "sigH" in m:
        kw["magnetic_conductivity"] = _tup(m["sigH"])
    if "poles" in m:  # [{"type": "lorentz", "w": rad/s, "g": rad/s, "de": x} | {"type": "drude", "wp": rad/s, "g": rad/s}]
        poles = []
        for q in m["poles"]:
            if q["type"] == "lorentz":
                poles.append(fdtdx.LorentzPole(resonance_frequency=q["w"], damping=q["g"], delta_epsilon=q["de"]))
            else:
                poles.append(fdtdx.DrudePole(plasma_frequency=q["wp"], damping=q["g"]))
        kw["dispersion"] = fdtdx.DispersionModel(poles=tuple(poles))
    return fdtdx.Material(**kw)


def _tup(v):
    if isinstance(v, (list, tuple)):
        return tuple(float(x) for x in v)
    return float(v)


def make_config(spec, lane, gradient="spec", extra=None):
    """SimulationConfig whose time_steps_total == spec['steps']."""
    import fdtdx
    import jax.numpy as jnp

    d = spec.get("d", 5e-8)
    g = spec.get("grid", {"kind": "uniform"})
    ckw = {"center": tuple(spec["center"])} if spec.get("center") else {}
    if g["kind"] == "uniform":
        grid = fdtdx.UniformGrid(spacing=d, **ckw)
    elif g["kind"] == "quasi":
        grid = fdtdx.QuasiUniformGrid(dx=d, dy=d, dz=d, **ckw)
    else:
        edges = [np.concatenate([[0.0], np.cumsum(np.asarray(w, dtype=np.float64) * d)]) for w in g["widths"]]
        grid = fdtdx.RectilinearGrid(x_edges=edges[0], y_edges=edges[1], z_edges=edges[2])
    kw = dict(grid=grid, time=1e-15, backend="cpu", courant_factor=spec.get("courant", 0.99),
              dtype=(jnp.float64 if lane == "f64" else jnp.float32))
    if spec.get("complex") is not None:
        kw["use_complex_fields"] = spec["complex"]
    if spec.get("symmetry"):
        kw["symmetry"] = tuple(spec["symmetry"])
    if extra:
        kw.update(extra)
    cfg = fdtdx.SimulationConfig(**kw)
    dt = cfg.time_step_duration
    cfg = cfg.aset("time", (spec["steps"] + 0.25) * dt)
    gspec = spec.get("gradient") if gradient == "spec" else gradient
    if gspec:
        if gspec["method"] == "reversible":
            gc = fdtdx.GradientConfig(method="reversible", recorder=fdtdx.Recorder(modules=[]),
                                      num_checkpoints_reversible=gspec.get("ckpt", 0))
        else:
            gc = fdtdx.GradientConfig(method="checkpointed", num_checkpoints=gspec["n"])
        cfg = cfg.aset("gradient_config", gc)
    return cfg


def _switch(sw, dt, wl_period):
    import fdtdx

    if not sw:
        return fdtdx.OnOffSwitch()
    kw = {}
    if sw.get("is_always_off"):
        kw["is_always_off"] = True
    if "fixed_on_time_steps" in sw:
        kw["fixed_on_time_steps"] = list(sw["fixed_on_time_steps"])
    # window edges sit a quarter step off the sample times so float rounding cannot flip a sample
    if "start_step" in sw:
        kw["start_time"] = (sw["start_step"] - 0.25) * dt
    if "end_step" in sw:
        kw["end_time"] = (sw["end_step"] + 0.25) * dt
    if "on_for_steps" in sw:
        # with one edge given the other edge is edge -/+ duration: total margin stays a quarter step on both sides
        kw["on_for_time"] = (sw["on_for_steps"] + (0.5 if ("start_step" in sw or "end_step" in sw) else 0.25)) * dt
    if "interval" in sw:
        kw["interval"] = sw["interval"]
    if sw.get("periods"):  # the same window expressed through *_periods with period = 4 dt
        period = 4.0 * dt
        kw["period"] = period
        for t_key, p_key in (("start_time", "start_after_periods"), ("end_time", "end_after_periods"),
                             ("on_for_time", "on_for_periods")):
            if t_key in kw:
                kw[p_key] = kw.pop(t_key) / period
    return fdtdx.OnOffSwitch(**kw)


def switch_on_steps(sw, steps):
    """Reference: list of active step indices of the JSON switch used by _switch (exact integers)."""
    if not sw:
        return list(range(steps))
    if sw.get("is_always_off"):
        return []
    if "fixed_on_time_steps" in sw:
        return sorted(set(sw["fixed_on_time_steps"]))
    a = sw.get("start_step", 0)
    b = sw.get("end_step", steps)
    if "on_for_steps" in sw:  # documented defaulting: start = end - on_for | 0, end = start + on_for
        n = sw["on_for_steps"]
        if "start_step" in sw:
            b = a + n
        elif "end_step" in sw:
            a = b - n
        else:
            a, b = 0, n
    iv = sw.get("interval", 1)
    return [t for t in range(steps) if a <= t <= b and t % iv == 0]


def _profile(p, wl, dt):
    import fdtdx
    import jax.numpy as jnp

    if p["kind"] == "cw":
        if "phase" in p:
            return fdtdx.SingleFrequencyProfile(phase_shift=p["phase"])
        return fdtdx.SingleFrequencyProfile()
    if p["kind"] == "pulse":
        return fdtdx.GaussianPulseProfile(center_wave=fdtdx.WaveCharacter(wavelength=wl),
                                          spectral_width=fdtdx.WaveCharacter(wavelength=wl * p["width_factor"]))
    return fdtdx.CustomTimeSignalProfile(signal=jnp.asarray(p["signal"]), time_step_duration=p["dt_steps"] * dt)


def build_objects(spec, lane, cfg):
    """-> (object_list, constraints, volume)"""
    import fdtdx
    import jax.numpy as jnp

    shape = tuple(spec["shape"])
    d = spec.get("d", 5e-8)
    dt = cfg.time_step_duration
    vol = fdtdx.SimulationVolume(partial_grid_shape=shape, material=_mat(spec.get("background", {})), name="volume")
    objs, cons = [vol], []

    g0 = spec.get("grid", {"kind": "uniform"})
    if g0["kind"] == "rect":
        edges64 = [np.concatenate([[0.0], np.cumsum(np.asarray(w, dtype=np.float64) * d)]) for w in g0["widths"]]
    else:
        edges64 = None

    def put(o, lo, hi):
        objs.append(o)
        if edges64 is None:
            cons.append(o.set_grid_coordinates(axes=(0, 1, 2, 0, 1, 2), sides=("-", "-", "-", "+", "+", "+"),
                                               coordinates=(lo[0], lo[1], lo[2], hi[0], hi[1], hi[2])))
        else:  # index-space constraints are rejected on stretched grids: give the exact edge coordinates
            import fdtdx as _f

            cons.append(_f.RealCoordinateConstraint(
                object=o.name, axes=(0, 1, 2, 0, 1, 2), sides=("-", "-", "-", "+", "+", "+"),
                coordinates=tuple(float(edges64[a][lo[a]]) for a in range(3))
                + tuple(float(edges64[a][hi[a]]) for a in range(3))))

    # boundaries ------------------------------------------------------------------------------
    faces = spec.get("faces", {})
    phase = spec.get("bloch_phase", [0.0, 0.0, 0.0])
    g = spec.get("grid", {"kind": "uniform"})
    if g["kind"] == "rect":
        L = [float(np.sum(np.asarray(w) * d)) for w in g["widths"]]
    else:
        L = [shape[a] * d for a in range(3)]
    kvec = tuple(phase[a] / L[a] for a in range(3))
    for fname in FACES:
        f = faces.get(fname, {"kind": "none"})
        if f["kind"] == "none":
            continue
        side, axn = fname.split("_")
        ax = AXNAME.index(axn)
        direction = "-" if side == "min" else "+"
        thick = f.get("thickness", 1) if f["kind"] == "pml" else 1
        gs = [None, None, None]
        gs[ax] = thick
        kw = dict(axis=ax, direction=direction, name=f"bound_{fname}")
        if edges64 is None:
            kw["partial_grid_shape"] = tuple(gs)
        if f["kind"] == "pml":
            b = fdtdx.PerfectlyMatchedLayer(**kw, **f.get("pml_kwargs", {}))
        elif f["kind"] == "pec":
            b = fdtdx.PerfectElectricConductor(**kw)
        elif f["kind"] == "pmc":
            b = fdtdx.PerfectMagneticConductor(**kw)
        elif f["kind"] == "periodic":
            b = fdtdx.BlochBoundary(**kw, bloch_vector=(0.0, 0.0, 0.0))
        elif f["kind"] == "bloch":
            b = fdtdx.BlochBoundary(**kw, bloch_vector=kvec)
        else:
            raise ValueError(f["kind"])
        lo = [0, 0, 0]
        hi = list(shape)
        if side == "min":
            hi[ax] = thick
        else:
            lo[ax] = shape[ax] - thick
        put(b, lo, hi)

    # static material boxes ---------------------------------------------------------------------
    for i, o in enumerate(spec.get("objects", [])):
        if o.get("sphere") and edges64 is None:
            # ellipsoid inscribed in the box lo..hi (a StaticMultiMaterialObject: its writes go through the
            # mask-based, sharding-preserving "add" path rather than a plain slice assignment)
            r = [(o["hi"][a] - o["lo"][a]) * d / 2.0 for a in range(3)]
            ob = fdtdx.Sphere(radius=r[0], radius_x=r[0], radius_y=r[1], radius_z=r[2],
                              materials={"m0": _mat(o["material"])}, material_name="m0",
                              name=o.get("name", f"sphere{i}"), placement_order=o.get("order", 0))
            objs.append(ob)
            cons.append(ob.set_grid_coordinates(axes=(0, 1, 2), sides=("-", "-", "-"), coordinates=tuple(o["lo"])))
            continue
        ob = fdtdx.UniformMaterialObject(material=_mat(o["material"]), name=o.get("name", f"box{i}"),
                                         placement_order=o.get("order", 0))
        put(ob, o["lo"], o["hi"])

    # sources -----------------------------------------------------------------------------------
    for i, s in enumerate(spec.get("sources", [])):
        wl = s["wl_cells"] * d
        wave = fdtdx.WaveCharacter(wavelength=wl, phase_shift=s.get("wave_phase", 0.0))
        common = dict(wave_character=wave, name=s.get("name", f"src{i}"),
                      temporal_profile=_profile(s.get("profile", {"kind": "cw"}), wl, dt),
                      switch=_switch(s.get("switch", {}), dt, wl / 299792458.0),
                      static_amplitude_factor=s.get("amp", 1.0))
        t = s["type"]
        if t in ("uniform_plane", "gaussian_plane"):
            ax = s["axis"]
            # the polarisation vector need not have unit length (fdtdx normalises it) and may be given for E or H
            pvec = tuple(float(x) * s.get("pol_len", 1.0) for x in s["pol"])
            kw = dict(direction=s["direction"], **common)
            kw["fixed_H_polarization_vector" if s.get("pol_field", "E") == "H" else "fixed_E_polarization_vector"] = pvec
            if "az" in s:
                kw["azimuth_angle"] = s["az"]
            if "el" in s:
                kw["elevation_angle"] = s["el"]
            if t == "uniform_plane":
                src = fdtdx.UniformPlaneSource(**kw)
            else:
                src = fdtdx.GaussianPlaneSource(radius=s["radius_cells"] * d, **kw)
            lo = list(s.get("lo", [0, 0, 0]))
            hi = list(s.get("hi", shape))
            lo[ax], hi[ax] = s["pos"], s["pos"] + 1
            put(src, lo, hi)
        elif t in ("dipole_e", "dipole_m"):
            src = fdtdx.PointDipoleSource(polarization=s["pol"], azimuth_angle=s.get("az", 0.0),
                                          elevation_angle=s.get("el", 0.0),
                                          source_type="electric" if t == "dipole_e" else "magnetic", **common)
            p = s["pos"]
            put(src, p, [p[0] + 1, p[1] + 1, p[2] + 1])
        elif t == "tfsf_region":
            src = fdtdx.TFSFPlaneSourceRegion(propagation_axis=s["axis"], direction=s["direction"],
                                              fixed_E_polarization_vector=tuple(s["pol"]),
                                              periodic_axes=tuple(s.get("periodic_axes", ())), **common)
            put(src, s["lo"], s["hi"])
        else:
            raise ValueError(t)

    # detectors ---------------------------------------------------------------------------------
    fdt = jnp.float64 if lane == "f64" else jnp.float32
    cdt = jnp.complex128 if lane == "f64" else jnp.complex64
    for i, dd in enumerate(spec.get("detectors", [])):
        t = dd["type"]
        common = dict(name=dd.get("name", f"det{i}"), switch=_switch(dd.get("switch", {}), dt, None),
                      exact_interpolation=dd.get("exact", True), plot=False)
        if t == "field":
            det = fdtdx.FieldDetector(dtype=fdt, reduce_volume=dd.get("reduce", False),
                                      components=tuple(dd.get("components", ("Ex", "Ey", "Ez", "Hx", "Hy", "Hz"))),
                                      **common)
        elif t == "energy":
            det = fdtdx.EnergyDetector(dtype=fdt, reduce_volume=dd.get("reduce", False),
                                       as_slices=dd.get("as_slices", False), **common)
        elif t == "poynting":
            det = fdtdx.PoyntingFluxDetector(dtype=fdt, direction=dd["direction"], reduce_volume=dd.get("reduce", True),
                                             keep_all_components=dd.get("keep_all", False),
                                             fixed_propagation_axis=dd.get("fixed_axis"), **common)
        elif t == "phasor":
            det = fdtdx.PhasorDetector(dtype=cdt, reduce_volume=dd.get("reduce", False),
                                       wave_characters=tuple(fdtdx.WaveCharacter(wavelength=w * d) for w in dd["wl_cells"]),
                                       components=tuple(dd.get("components", ("Ex", "Ey", "Ez", "Hx", "Hy", "Hz"))),
                                       **{k: v for k, v in dd.get("phasor_kwargs", {}).items()}, **common)
        else:
            raise ValueError(t)
        put(det, dd["lo"], dd["hi"])
    return objs, cons, vol


class Built:
    """Result of building a spec: placed objects, arrays, config, key."""

    def __init__(self, spec, lane, objects, arrays, params, config, key):
        self.spec, self.lane = spec, lane
        self.objects, self.arrays, self.params, self.config, self.key = objects, arrays, params, config, key

    @property
    def dt(self):
        return self.config.time_step_duration


def build(spec, lane, gradient="spec", extra_config=None, extra_objects=None) -> Built:
    """place_objects + apply_params for a spec. extra_objects: callable(cfg, vol) -> (objs, constraints)."""
    import fdtdx
    import jax

    cfg = make_config(spec, lane, gradient=gradient, extra=extra_config)
    objs, cons, vol = build_objects(spec, lane, cfg)
    if extra_objects is not None:
        eo, ec = extra_objects(cfg, vol)
        objs += list(eo)
        cons += list(ec)
    key = jax.random.PRNGKey(0)
    objects, arrays, params, config, _ = fdtdx.place_objects(object_list=objs, config=cfg, constraints=cons, key=key)
    arrays, objects, _ = fdtdx.apply_params(arrays, objects, params, key)
    assert config.time_steps_total == spec["steps"], (config.time_steps_total, spec["steps"])
    return Built(spec, lane, objects, arrays, params, config, key)


# ----------------------------------------------------------------------------------------------
# field helpers
# ----------------------------------------------------------------------------------------------
def random_field(seed, shape, complex_=False, impulses=(), dense=1.0):
    """Dense gaussian field (amplitude `dense`) from a drawn integer seed + explicit impulses."""
    rng = np.random.default_rng(int(seed) & 0xFFFFFFFF)
    full = (3, *shape)
    f = dense * rng.standard_normal(full)
    if complex_:
        f = f + 1j * dense * rng.standard_normal(full)
    for c, i, j, k, v in impulses:
        f[c, i % shape[0], j % shape[1], k % shape[2]] += v
    return f


def set_fields(arrays, E=None, H=None):
    import jax.numpy as jnp

    if E is not None:
        arrays = arrays.aset("fields->E", jnp.asarray(E, dtype=arrays.fields.E.dtype))
    if H is not None:
        arrays = arrays.aset("fields->H", jnp.asarray(H, dtype=arrays.fields.H.dtype))
    return arrays


def project_walls(arrays, objects):
    """Make a field state wall-consistent with the boundaries' own post-update hooks."""
    E, H = arrays.fields.E, arrays.fields.H
    for b in objects.boundary_objects:
        if hasattr(b, "apply_post_E_update"):
            E = b.apply_post_E_update(E)
        if hasattr(b, "apply_post_H_update"):
            H = b.apply_post_H_update(H)
    arrays = arrays.aset("fields->E", E)
    arrays = arrays.aset("fields->H", H)
    return arrays


def step(built, state, record_detectors=False, record_boundaries=False):
    from fdtdx.fdtd.forward import forward

    return forward(state, built.config, built.objects, built.key, record_detectors=record_detectors,
                   record_boundaries=record_boundaries, simulate_boundaries=True)


def npf(x):
    return np.asarray(x)


def cell_widths(built):
    """Per-axis float64 cell widths of the resolved grid."""
    g = built.config.resolved_grid
    return [np.diff(np.asarray(g.edges(a), dtype=np.float64)) for a in range(3)]


# ----------------------------------------------------------------------------------------------
# general "simulation" scenes (sources + detectors + objects + any boundary kinds)
# ----------------------------------------------------------------------------------------------
@st.composite
def sim_scene_strategy(draw, pml=True, periodic=True, steps=(6, 30), shape=(6, 11), n_sources=(1, 2), n_detectors=(1, 2),
                       material_tiers=("iso", "diag"), lossy=False, grids=("uniform", "rect"),
                       source_kinds=("uniform_plane", "gaussian_plane", "dipole_e", "dipole_m"),
                       detector_kinds=("field", "energy", "poynting", "phasor"), n_objects=(0, 2), exact=(True, False),
                       require_pml=False, magnetic=True, detectors_outside_pml=False):
    """A random open/closed scene. Plane sources get full transverse extent and sit in the background
    material (objects are kept off plane-source cells so their faces are locally isotropic)."""
    kinds = ["none", "pec", "pmc"] + (["pml"] if pml else []) + (["periodic"] if periodic else [])
    sh = [draw(st.integers(*shape)) for _ in range(3)]
    faces = draw(faces_strategy(kinds=tuple(kinds), pml_thickness=(2, 4)))
    if require_pml and not any(f["kind"] == "pml" for f in faces.values()):
        ax = draw(st.integers(0, 2))
        side = draw(st.sampled_from(["min", "max"]))
        other = "max" if side == "min" else "min"
        faces[f"{side}_{AXNAME[ax]}"] = {"kind": "pml", "thickness": draw(st.integers(2, 4))}
        if faces[f"{other}_{AXNAME[ax]}"]["kind"] == "periodic":
            faces[f"{other}_{AXNAME[ax]}"] = {"kind": draw(st.sampled_from(["none", "pec", "pmc"]))}
    # keep a usable interior
    for ax in range(3):
        tot = sum(faces[f"{s}_{AXNAME[ax]}"].get("thickness", 0) for s in ("min", "max")
                  if faces[f"{s}_{AXNAME[ax]}"]["kind"] == "pml")
        if sh[ax] - tot < 4:
            sh[ax] = tot + 4
    T = draw(st.integers(*steps))
    grid = draw(grid_strategy(sh, faces, kinds=grids))
    spec = {"shape": sh, "steps": T, "courant": draw(st.sampled_from([0.7, 0.9, 0.99])), "grid": grid, "faces": faces,
            "background": {}, "objects": [], "sources": [], "detectors": []}
    interior = interior_range(sh, faces)
    ns = draw(st.integers(*n_sources))
    plane_cells = []
    for i in range(ns):
        s = draw(source_strategy(sh, T, faces, kinds=source_kinds, name=f"src{i}", interior=interior))
        spec["sources"].append(s)
        if s["type"] in ("uniform_plane", "gaussian_plane"):
            plane_cells.append((s["axis"], s["pos"]))
    for i in range(draw(st.integers(*n_objects))):
        lo, hi = draw(box_strategy(sh))
        # keep material boxes at least one cell away from plane-source cells along the propagation axis
        ok = True
        for ax, p in plane_cells:
            if lo[ax] <= p + 1 and hi[ax] >= p - 1:
                ok = False
        if not ok:
            continue
        spec["objects"].append({"name": f"box{i}", "lo": lo, "hi": hi,
                                "material": draw(material_strategy(tiers=material_tiers, lossy=lossy, magnetic=magnetic)),
                                "order": draw(st.integers(0, 2))})
    for i in range(draw(st.integers(*n_detectors))):
        spec["detectors"].append(draw(detector_strategy(sh, T, name=f"det{i}", kinds=detector_kinds, exact=exact,
                                                        within=interior if detectors_outside_pml else None)))
    return spec


def detector_arrays(arrays):
    """{det name: {key: np.ndarray}}"""
    return {n: {k: np.asarray(v) for k, v in st_.items()} for n, st_ in arrays.detector_states.items()}
