"""C15 — detectors record the co-located fields of their region.

One generated scene carries 5..8 FieldDetectors whose boxes are drawn per axis from the contact classes
{low, interior, high, full}; random E, H, H_prev are written into the arrays and
``fdtdx.fdtd.update.update_detector_states`` is called once.  Every detector record is compared with an
independent numpy co-location (pbt/oracles/detectors.py, DESIGN §9) of the whole simulated domain restricted to the
detector's box - the same oracle for boxes that take the interior fast path and for boxes that take the full-domain
fallback - and with the raw components when ``exact_interpolation=False``.
"""

from __future__ import annotations

import numpy as np
from hypothesis import strategies as st

from pbt import scenes
from pbt.engine import Sub
from pbt.oracles import detectors as od

ID = "C15"
RULE = (
    "Hypothesis draws a simulated domain of 4..9 cells per axis (uniform, or rectilinear with widths from "
    "{0.6..1.6}*d), per axis either a periodic pair or two faces from {zero halo, PEC, PMC}, and with probability "
    "~0.45 one or two symmetry planes via config.symmetry (electric -1, rarely magnetic +1; the built model then has "
    "2N cells and mirror-symmetric widths on that axis); 5..8 FieldDetectors with per-axis contact class drawn from "
    "{low, interior, high, full} (detector 0 is forced strictly interior and exact, detector 1 exact and touching a "
    "face, the others free), exact_interpolation in {True, False}, random component subsets, some switched off at "
    "the probed step or never on (always-off switch); dense gaussian E, H, H_prev from drawn seeds plus drawn impulses next to the faces. "
    "Non-trivial = the case holds at least one exact detector on the fallback path (touches a face) and one on the "
    "interior path, both non-empty and compared against the oracle. Distinct = sha1 of the case JSON."
)
ASSUMPTIONS = [
    "co-location weights are physical distances; the (virtual) cell behind index 0 has the first cell's width, so a "
    "zero halo halves the first row (DESIGN §9); on periodic axes the generator forces w[0] == w[N-1]",
    "a magnetic symmetry plane (+1) and user-placed PEC/PMC faces use the zero halo (documented in "
    "pad_fields_with_symmetry_mirror); periodic faces are never combined with a symmetry plane on the same axis; "
    "Bloch phases and PML are out of scope of the property text",
    "cell widths are np.diff of the edge coordinates stored in the placed config (float32 in the f32 lane)",
    "tolerance 1e-12 (f64 lane) / 5e-6 (f32 lane) relative to the largest field magnitude",
    "records of steps at which a detector is off must stay zero (state untouched); a detector that is never on "
    "(always-off switch) keeps its zero-row state and must not disturb the update of the others",
]

CONTACT = ("L", "I", "H", "F")


def _extent(draw, n, cls):
    if cls == "F":
        return 0, n
    if cls == "L":
        return 0, draw(st.integers(1, n - 1))
    if cls == "H":
        return draw(st.integers(1, n - 1)), n
    lo = draw(st.integers(1, n - 2))
    return lo, draw(st.integers(lo + 1, n - 1))


@st.composite
def case_strategy(draw, ctx):
    n = [draw(st.integers(4, 9)) for _ in range(3)]
    sym = [0, 0, 0]
    if draw(st.integers(0, 99)) < 45:
        for a in draw(st.sampled_from([[0], [1], [2], [0, 1], [1, 2], [0, 2]])):
            sym[a] = draw(st.sampled_from([-1, -1, -1, -1, 1]))
    faces = {}
    for a, ax in enumerate("xyz"):
        if sym[a] == 0 and draw(st.integers(0, 2)) == 0:
            faces[f"min_{ax}"] = {"kind": "periodic"}
            faces[f"max_{ax}"] = {"kind": "periodic"}
        else:
            for side in ("min", "max"):
                faces[f"{side}_{ax}"] = {"kind": draw(st.sampled_from(["none", "none", "pec", "pmc"]))}
    rect = draw(st.booleans())
    shape = [2 * n[a] if sym[a] else n[a] for a in range(3)]
    if rect:
        widths = []
        for a, ax in enumerate("xyz"):
            w = [draw(st.sampled_from([0.6, 0.75, 1.0, 1.25, 1.6])) for _ in range(n[a])]
            if faces[f"min_{ax}"]["kind"] == "periodic":
                w[-1] = w[0]
            widths.append((w[::-1] + w) if sym[a] else w)
        grid = {"kind": "rect", "widths": widths}
    else:
        grid = {"kind": "uniform"}
    steps = 3
    t = draw(st.integers(0, steps - 1))
    dets = []
    for i in range(draw(st.integers(5, 8))):
        if i == 0:
            cls = ["I", "I", "I"]
        elif i == 1:
            cls = [draw(st.sampled_from(CONTACT)) for _ in range(3)]
            if all(c == "I" for c in cls):
                cls[draw(st.integers(0, 2))] = draw(st.sampled_from(["L", "H", "F"]))
        elif draw(st.integers(0, 3)) == 0:
            cls = ["I", "I", "I"]
        else:
            cls = [draw(st.sampled_from(["L", "L", "I", "H", "H", "F"])) for _ in range(3)]
        ext = [_extent(draw, n[a], cls[a]) for a in range(3)]
        comps = draw(st.sampled_from([list(od.COMPS), list(od.COMPS), ["Ex", "Hz"], ["Ey", "Hx", "Hy"], ["Ez"],
                                      ["Hz"], ["Ex", "Ey", "Hz"], ["Hx", "Hy", "Hz"]]))
        dets.append({
            "name": f"d{i}", "lo": [e[0] for e in ext], "hi": [e[1] for e in ext], "contact": "".join(cls),
            "exact": True if i < 2 else draw(st.sampled_from([True, True, True, False])),
            "components": comps,
            # True = always on, False = on at every step but the probed one, "never" = always-off switch
            "on": True if i < 2 else draw(st.sampled_from([True] * 9 + [False, False, "never"])),
        })
    imp = []
    for _ in range(draw(st.integers(0, 3))):
        imp.append([draw(st.integers(0, 8)), draw(st.sampled_from([0, 1, -1, -2])), draw(st.sampled_from([0, 1, -1, -2])),
                    draw(st.sampled_from([0, 1, -1, -2])), draw(st.sampled_from([4.0, -7.0]))])
    return {
        "scene": {"shape": shape, "steps": steps, "courant": draw(st.sampled_from([0.7, 0.99])), "grid": grid,
                  "faces": faces, "symmetry": sym},
        "dets": dets, "t": t,
        "seeds": [draw(st.integers(0, 2**31 - 1)) for _ in range(3)],
        "impulses": imp,
    }


def _fields(case, shape, lane):
    """E, H, H_prev as float arrays of the lane's dtype (so that the oracle sees exactly what fdtdx sees)."""
    dt = np.float64 if lane == "f64" else np.float32
    out = []
    for which in range(3):
        imps = [[i[0] - 3 * which, *i[1:]] for i in case["impulses"] if 3 * which <= i[0] < 3 * which + 3]
        out.append(scenes.random_field(case["seeds"][which], shape, False, imps, 1.0).astype(dt))
    return out


def build_scene(case, lane):
    import fdtdx
    import jax.numpy as jnp

    spec = dict(case["scene"])
    steps = spec["steps"]
    fdt = jnp.float64 if lane == "f64" else jnp.float32
    put = od.placer(spec)

    def extra(cfg, vol):
        objs, cons = [], []
        for d in case["dets"]:
            if d["on"] == "never":
                sw = fdtdx.OnOffSwitch(is_always_off=True)
            else:
                sw = od.on_switch(None if d["on"] else [s for s in range(steps) if s != case["t"]], steps)
            det = fdtdx.FieldDetector(name=d["name"], dtype=fdt, exact_interpolation=d["exact"], plot=False,
                                      components=tuple(d["components"]), switch=sw)
            lo, hi = od.full_coords(spec, d["lo"], d["hi"])
            objs.append(det)
            cons.append(put(det, lo, hi))
        return objs, cons

    b = scenes.build(spec, lane, extra_objects=extra)
    od.check_slices(b, {d["name"]: (d["lo"], d["hi"]) for d in case["dets"]})
    return b


def body(ctx, case):
    import jax
    import jax.numpy as jnp
    from fdtdx.fdtd.update import update_detector_states

    spec = case["scene"]
    b = build_scene(case, ctx.lane)
    n = od.reduced_shape(spec)
    if tuple(b.objects.volume.grid_shape) != tuple(n):
        raise RuntimeError(f"volume shape {b.objects.volume.grid_shape} != expected reduced shape {n}")
    E, H, Hp = _fields(case, n, ctx.lane)
    arrays = scenes.set_fields(b.arrays, E, H)
    t = case["t"]
    # one jit-compiled call (as in production, where the time loop is traced); eager dispatch would compile every
    # primitive separately for the per-case shapes, which is 2-3x slower
    fn = jax.jit(lambda ts, arr, hp: update_detector_states(ts, arr, b.objects, b.config, hp, False).detector_states)
    out = fn(jnp.asarray(t, dtype=jnp.int32), arrays, jnp.asarray(Hp, dtype=arrays.fields.H.dtype))
    states = {k: {kk: np.asarray(vv) for kk, vv in v.items()} for k, v in out.items()}

    w = od.stored_widths(b)
    rules = od.halo_rules(spec)
    Ec, Hc = od.colocate(E, H, Hp, w, rules)
    scale = float(max(np.abs(E).max(), np.abs(H).max(), np.abs(Hp).max()))
    tol = ctx.tol(1e-12, 5e-6)

    kinds = sorted({f["kind"] for f in spec["faces"].values()})
    ctx.classify("grid=" + spec["grid"]["kind"], *("face=" + k for k in kinds),
                 "sym=" + ("none" if not any(spec["symmetry"]) else
                           "".join("e" if s == -1 else "m" if s == 1 else "0" for s in spec["symmetry"])))
    have_interior = have_fallback = False
    for d in case["dets"]:
        lo, hi = d["lo"], d["hi"]
        rec = states[d["name"]]["fields"]
        nsteps_on = 0 if d["on"] == "never" else spec["steps"] if d["on"] else spec["steps"] - 1
        ctx.check(rec.shape == (nsteps_on, len(d["components"]), *[hi[a] - lo[a] for a in range(3)]),
                  f"{d['name']}: state shape {rec.shape}", observed=list(rec.shape))
        interior = all(lo[a] >= 1 and hi[a] <= n[a] - 1 for a in range(3))
        path = "raw" if not d["exact"] else ("interior" if interior else "fallback")
        ctx.classify("path=" + path, "contact=" + d["contact"])
        if d["on"] == "never":
            ctx.classify("never_on")  # zero-row state: nothing to record, the update must simply leave it alone
            continue
        if not d["on"]:
            ctx.classify("off_at_t")
            ctx.check(not np.any(rec), f"{d['name']}: detector is off at step {t} but its state changed",
                      observed=float(np.abs(rec).max()), expected=0.0)
            continue
        if d["exact"]:
            want = od.select(od.region(Ec, lo, hi), od.region(Hc, lo, hi), d["components"])
        else:
            want = od.select(od.region(E, lo, hi), od.region(H, lo, hi), d["components"])
        ctx.close(rec[t], want, scale=scale, tol=tol, metric=f"err_{path}",
                  msg=f"{d['name']} ({path} path, contact {d['contact']}, box {lo}..{hi}) differs from the "
                      f"co-location oracle")
        other = np.delete(rec, t, axis=0)
        ctx.check(not np.any(other), f"{d['name']}: records of other steps were written", observed=float(np.abs(other).max()))
        for a in range(3):
            if d["exact"] and lo[a] == 0:
                ctx.classify("low_halo=" + rules[a][0])
            if d["exact"] and hi[a] == n[a]:
                ctx.classify("high_halo=" + rules[a][1])
        have_interior |= path == "interior"
        have_fallback |= path == "fallback"
    ctx.nontrivial(have_interior and have_fallback)


SUBS = [
    Sub(name="colocation", body=body, strategy=lambda ctx: case_strategy(ctx), quick=24, thorough=1600,
        lanes=("f64", "f32"), f32_fraction=0.25, quick_shards=2,
        rule="random scene with 5..8 FieldDetectors over all face-contact classes; one update_detector_states call; "
             "every record equals the numpy co-location oracle restricted to its box (interior path and fallback "
             "path alike), raw components without interpolation, untouched state when off"),
]
