"""Independent numpy reference models for the detector properties C15 / C16 / C17.

Nothing in here calls an fdtdx function that is under test.  The only things read from fdtdx objects are *data*:
the stored grid edge coordinates (to derive widths / areas / volumes with plain ``np.diff``) and the time step duration.

Conventions (DESIGN §9, "Co-location"):

* All six components are co-located onto the E_z node ``(i, j, k+1/2)``.
  ``avg_a(f)[i] = (f[i]*w[i-1]/2 + f[i-1]*w[i]/2) / (w[i-1]/2 + w[i]/2)``   (backward, physical-distance weights;
  the cell behind index 0 is given the first cell's width, so the weights are 1/2,1/2 there and on uniform grids),
  ``fwd_z(f)[k] = (f[k] + f[k+1]) / 2``.
  ``Ex -> fwd_z(avg_x Ex)``, ``Ey -> fwd_z(avg_y Ey)``, ``Ez -> Ez``, ``Hx -> avg_y Hm``, ``Hy -> avg_x Hm``,
  ``Hz -> fwd_z(avg_y(avg_x Hm))`` with ``Hm = (H_prev + H)/2``.
* Out-of-domain samples (index -1 and N per axis): 0 on a non-periodic axis, wrapped on a periodic axis, and on the
  low side of an *electric* symmetry plane ``parity * f[m]`` with ``m = 0`` for a component sampled half a cell off the
  plane and ``m = 1`` for a component sampled on it (domain indices; padded indices 1 and 2).
  Parity across an electric plane normal to ``a``: E_c even iff c == a, H_c odd iff c == a.
  Sampled on the plane: E_c with c != a, H_c with c == a.
"""

from __future__ import annotations

import numpy as np

COMPS = ("Ex", "Ey", "Ez", "Hx", "Hy", "Hz")


# ----------------------------------------------------------------------------------------------------------------
# grid metrics from edges
# ----------------------------------------------------------------------------------------------------------------
def reduced_shape(spec):
    sym = spec.get("symmetry") or [0, 0, 0]
    return tuple(n // 2 if sym[a] != 0 else n for a, n in enumerate(spec["shape"]))


def spec_widths(spec):
    """float64 widths (metres) of the *simulated* (symmetry-reduced) domain, from the spec alone."""
    d = spec.get("d", 5e-8)
    sym = spec.get("symmetry") or [0, 0, 0]
    g = spec.get("grid", {"kind": "uniform"})
    out = []
    for a, n in enumerate(spec["shape"]):
        if g["kind"] == "rect":
            w = np.asarray(g["widths"][a], dtype=np.float64) * d
        else:
            w = np.full(n, d, dtype=np.float64)
        if sym[a] != 0:
            w = w[n // 2:]
        out.append(w)
    return out


def stored_widths(built):
    """Cell widths as plain differences of the edge coordinates the placed config stores (their own dtype, then
    float64).  Falls back to the spec for grids without stored edges (UniformGrid).  A mismatch between the two
    beyond float32 round-off is a harness problem, not a property violation."""
    ref = spec_widths(built.spec)
    g = built.config.resolved_grid
    if g is None:
        return ref
    out = []
    for a in range(3):
        e = np.asarray(g.edges(a))
        w = np.diff(e).astype(np.float64)
        if w.shape != ref[a].shape or not np.allclose(w, ref[a], rtol=2e-3, atol=0.0):
            raise RuntimeError(f"stored grid edges on axis {a} do not match the spec: {w} vs {ref[a]}")
        out.append(w)
    return out


def cell_volumes(w, lo, hi):
    return (w[0][lo[0]:hi[0], None, None] * w[1][None, lo[1]:hi[1], None] * w[2][None, None, lo[2]:hi[2]])


def face_areas(w, lo, hi, axis):
    """Transverse cell areas of a face normal to `axis` over the box [lo,hi): size one along `axis`."""
    t = [w[a][lo[a]:hi[a]] for a in range(3)]
    t[axis] = np.ones(1)
    return t[0][:, None, None] * t[1][None, :, None] * t[2][None, None, :]


# ----------------------------------------------------------------------------------------------------------------
# halo
# ----------------------------------------------------------------------------------------------------------------
def halo_rules(spec):
    """Per axis (low_rule, high_rule) with rules 'zero' | 'wrap' | 'mirror' for the simulated domain."""
    sym = spec.get("symmetry") or [0, 0, 0]
    faces = spec.get("faces", {})
    rules = []
    for a, ax in enumerate("xyz"):
        lo_kind = faces.get(f"min_{ax}", {"kind": "none"})["kind"]
        hi_kind = faces.get(f"max_{ax}", {"kind": "none"})["kind"]
        if sym[a] == -1:
            rules.append(("mirror", "zero"))
            if hi_kind in ("periodic", "bloch"):
                raise ValueError("periodic + symmetry on one axis is not generated")
        elif sym[a] == 1:
            rules.append(("zero", "zero"))
            if hi_kind in ("periodic", "bloch"):
                raise ValueError("periodic + symmetry on one axis is not generated")
        else:
            per = lo_kind == "periodic" and hi_kind == "periodic"
            rules.append(("wrap", "wrap") if per else ("zero", "zero"))
    return rules


def _axis_map(n, rule, ftype, comp, axis):
    """index array (n+2,) into the domain and factor array (n+2,) for one axis of one component."""
    idx = np.empty(n + 2, dtype=np.int64)
    fac = np.ones(n + 2, dtype=np.float64)
    idx[1:-1] = np.arange(n)
    lo, hi = rule
    # low halo (domain index -1)
    if lo == "zero":
        idx[0], fac[0] = 0, 0.0
    elif lo == "wrap":
        idx[0] = n - 1
    elif lo == "mirror":
        normal = comp == axis
        if ftype == "E":
            parity = 1.0 if normal else -1.0
            on_plane = not normal
        else:
            parity = -1.0 if normal else 1.0
            on_plane = normal
        idx[0] = 1 if on_plane else 0
        fac[0] = parity
    else:
        raise ValueError(lo)
    # high halo (domain index n)
    if hi == "zero":
        idx[-1], fac[-1] = n - 1, 0.0
    elif hi == "wrap":
        idx[-1] = 0
    else:
        raise ValueError(hi)
    return idx, fac


def padded(F, ftype, rules):
    """F: (3, Nx, Ny, Nz) -> (3, Nx+2, Ny+2, Nz+2) with the halo of every axis filled per `rules`."""
    F = np.asarray(F)
    out = []
    for c in range(3):
        maps = [_axis_map(F.shape[a + 1], rules[a], ftype, c, a) for a in range(3)]
        g = F[c][np.ix_(maps[0][0], maps[1][0], maps[2][0])]
        g = g * maps[0][1][:, None, None] * maps[1][1][None, :, None] * maps[2][1][None, None, :]
        out.append(g)
    return np.stack(out)


# ----------------------------------------------------------------------------------------------------------------
# co-location
# ----------------------------------------------------------------------------------------------------------------
def _sl(ndim, axis, s):
    i = [slice(None)] * ndim
    i[axis] = s
    return tuple(i)


def _avg_back(P, axis, w):
    """P has padded extent n+2 along `axis`; returns extent n: value at the lower edge of cell i."""
    n = P.shape[axis] - 2
    cur = P[_sl(P.ndim, axis, slice(1, n + 1))]
    prev = P[_sl(P.ndim, axis, slice(0, n))]
    w = np.asarray(w, dtype=np.float64)
    wprev = np.concatenate([w[:1], w[:-1]])
    shp = [1] * P.ndim
    shp[axis] = n
    dc = (w / 2).reshape(shp)  # distance edge -> centre of cell i
    dp = (wprev / 2).reshape(shp)  # distance edge -> centre of cell i-1
    return (cur * dp + prev * dc) / (dc + dp)


def _fwd(P, axis):
    n = P.shape[axis] - 2
    return 0.5 * (P[_sl(P.ndim, axis, slice(1, n + 1))] + P[_sl(P.ndim, axis, slice(2, n + 2))])


def _core(P, axis):
    n = P.shape[axis] - 2
    return P[_sl(P.ndim, axis, slice(1, n + 1))]


def colocate(E, H, H_prev, w, rules):
    """Full-domain co-located (E, H), each (3, Nx, Ny, Nz) float64 (or complex128)."""
    Ep = padded(np.asarray(E).astype(np.result_type(np.asarray(E).dtype, np.float64)), "E", rules)
    Hm = (np.asarray(H_prev).astype(np.result_type(np.asarray(H).dtype, np.float64)) + np.asarray(H)) / 2
    Hp = padded(Hm, "H", rules)
    # component arrays have axes (x, y, z) = (0, 1, 2)
    Ex = _core(_fwd(_avg_back(Ep[0], 0, w[0]), 2), 1)
    Ey = _core(_fwd(_avg_back(Ep[1], 1, w[1]), 2), 0)
    Ez = _core(_core(_core(Ep[2], 0), 1), 2)
    Hx = _core(_core(_avg_back(Hp[0], 1, w[1]), 0), 2)
    Hy = _core(_core(_avg_back(Hp[1], 0, w[0]), 1), 2)
    Hz = _fwd(_avg_back(_avg_back(Hp[2], 0, w[0]), 1, w[1]), 2)
    return np.stack([Ex, Ey, Ez]), np.stack([Hx, Hy, Hz])


def region(F, lo, hi):
    return F[(slice(None),) + tuple(slice(lo[a], hi[a]) for a in range(3))]


def select(Ec, Hc, components):
    """Stack the requested components in the canonical order Ex,Ey,Ez,Hx,Hy,Hz."""
    allc = {"Ex": Ec[0], "Ey": Ec[1], "Ez": Ec[2], "Hx": Hc[0], "Hy": Hc[1], "Hz": Hc[2]}
    return np.stack([allc[c] for c in COMPS if c in components])


# ----------------------------------------------------------------------------------------------------------------
# scene helpers: add arbitrary detector objects to a scenes.build() scene
# ----------------------------------------------------------------------------------------------------------------
def full_coords(spec, lo, hi):
    """Reduced-domain box -> full-domain box (symmetric axes keep the upper half)."""
    sym = spec.get("symmetry") or [0, 0, 0]
    off = [spec["shape"][a] // 2 if sym[a] != 0 else 0 for a in range(3)]
    return [lo[a] + off[a] for a in range(3)], [hi[a] + off[a] for a in range(3)]


def placer(spec):
    """-> put(obj, lo, hi) -> constraint, in full-domain cell coordinates (exact edges on stretched grids)."""
    import fdtdx

    d = spec.get("d", 5e-8)
    g = spec.get("grid", {"kind": "uniform"})
    edges = None
    if g["kind"] == "rect":
        edges = [np.concatenate([[0.0], np.cumsum(np.asarray(wd, dtype=np.float64) * d)]) for wd in g["widths"]]

    def put(o, lo, hi):
        if edges is None:
            return o.set_grid_coordinates(axes=(0, 1, 2, 0, 1, 2), sides=("-", "-", "-", "+", "+", "+"),
                                          coordinates=(lo[0], lo[1], lo[2], hi[0], hi[1], hi[2]))
        return fdtdx.RealCoordinateConstraint(
            object=o.name, axes=(0, 1, 2, 0, 1, 2), sides=("-", "-", "-", "+", "+", "+"),
            coordinates=tuple(float(edges[a][lo[a]]) for a in range(3)) + tuple(float(edges[a][hi[a]]) for a in range(3)))

    return put


def on_switch(on_steps, steps):
    """OnOffSwitch for an explicit list of active steps (None = always on)."""
    import fdtdx

    if on_steps is None:
        return fdtdx.OnOffSwitch()
    return fdtdx.OnOffSwitch(fixed_on_time_steps=[int(t) for t in on_steps])


def check_slices(built, expected):
    """Harness precondition: every detector sits where the case says (reduced-domain coordinates)."""
    for d in built.objects.detectors:
        if d.name in expected:
            lo, hi = expected[d.name]
            got = tuple(tuple(int(v) for v in p) for p in d.grid_slice_tuple)
            want = tuple((int(lo[a]), int(hi[a])) for a in range(3))
            if got != want:
                raise RuntimeError(f"detector {d.name} placed at {got}, case asked for {want}")


# ----------------------------------------------------------------------------------------------------------------
# driving update_detector_states
# ----------------------------------------------------------------------------------------------------------------
def jit_update(built, inverse=False):
    """fn(time_step:int, arrays, H_prev) -> arrays, one jit compilation per scene (the production call path traces
    the update as well; eager dispatch compiles every primitive for the per-case shapes and is 2-3x slower)."""
    import jax
    import jax.numpy as jnp
    from fdtdx.fdtd.update import update_detector_states

    objects, config = built.objects, built.config
    fn = jax.jit(lambda ts, arr, hp: update_detector_states(ts, arr, objects, config, hp, inverse))

    def call(t, arrays, H_prev):
        return fn(jnp.asarray(int(t), dtype=jnp.int32), arrays, jnp.asarray(H_prev, dtype=arrays.fields.H.dtype))

    return call


def states(arrays):
    return {n: {k: np.asarray(v) for k, v in s.items()} for n, s in arrays.detector_states.items()}


def lane_dtypes(lane):
    import jax.numpy as jnp

    return (jnp.float64, jnp.complex128) if lane == "f64" else (jnp.float32, jnp.complex64)
