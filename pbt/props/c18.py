"""C18 — device parameters map to materials exactly as documented, including histories of `apply_params`.

A scene with 1..2 devices (continuous / discrete / etched) and static neighbours is placed once.  A drawn
*history* of parameter sets is then applied, each on the result of the previous call
(`arrays, objects, _ = apply_params(arrays, objects, params_i, key, beta=beta_i)`).

Oracle after every application (independent numpy model, float64):
  * continuous device cell:  inv_eps = (eps_a + v (eps_b - eps_a))^-1, eps_a/eps_b the two device materials ordered by
    eps_xx (the documented material order), v the transform-chain output of the cell's design voxel
    (identity / linear range map / tanh projection / Gaussian smoothing re-implemented here), tensor inverse for the
    9-component tier; consequently eps lies between the two materials (component-wise, eigenvalue-wise for tensors);
  * etched device cell: the same blend between the *pre-device* permittivity of the cell (freshly placed arrays) and
    the single etch material;
  * discrete device cell: exactly the inverse permittivity of material round(v) and exactly that material's
    (c1, c2, c3) dispersion-coefficient stack, zero padded (formulas from the docstring of
    `compute_pole_coefficients_per_axis`);
  * every cell outside all devices: all material arrays bit-identical to the freshly placed arrays.
Oracle for the history: the material arrays after the whole sequence are bit-identical to those obtained by applying
only the last parameter set to the freshly placed arrays.
"""

from __future__ import annotations

import math

import numpy as np
from hypothesis import assume
from hypothesis import strategies as st

from pbt import scenes
from pbt.engine import Sub

ID = "C18"
RULE = (
    "Hypothesis draws: volume 8..12 x 6..10 x 6..10 cells on a uniform grid (1/4: stretched rectilinear grid), a "
    "background and 0..2 static boxes (isotropic / diagonal / full tensor, optionally lossy, magnetic or "
    "Lorentz/Drude dispersive) placed anywhere, so they overlap or touch the devices; 1..2 non-overlapping devices, "
    "each with design voxels of 1..3 cells per axis (given as cell counts or as physical size), kind continuous "
    "(2 materials; chain identity / StandardToCustomRange / TanhProjection / GaussianSmoothing2D / smoothing+tanh), "
    "etched (1 material, same chains, `use_etching=True`) or discrete (2..4 materials; ClosestIndex, range map + "
    "ClosestIndex, TanhProjection + ClosestIndex); device materials isotropic / diagonal / full SPD tensors with "
    "distinct eps_xx, optionally with Lorentz / Drude poles (isotropic or per-axis). A history of 1..4 parameter sets "
    "(uniform random, binary, constant 0, constant 1, quarter levels; beta in {0, 0.5, 2, 8, 30, inf}) is applied "
    "cumulatively. Non-trivial = at least two applications with different parameters, or an etched device; and the "
    "last application really changed device cells relative to the freshly placed arrays. Distinct = sha1 of the case."
)
ASSUMPTIONS = [
    "the 'two device materials' are ordered by their first permittivity component (documented in "
    "compute_ordered_material_name_tuples): v=0 selects the lower one; generated eps_xx values are distinct",
    "for an etched device the blend is between the cell's pre-device permittivity and the single etch material "
    "(docstring of Device.use_etching); only the permittivity claim is asserted for continuous/etched devices — the "
    "property text claims dispersion coefficients for discrete outputs only",
    "discrete parameters are generated >= 0.15 away from rounding boundaries so float32 cannot flip an index",
    "tolerances: 1e-10 (f64) / 5e-6 (f32; 5e-5 for 3x3 tensor inverses, times beta after smoothing+projection) "
    "relative for blended values, 1e-12 / 2e-6 (2e-5 tensors) for selected materials; "
    "'unchanged' and 'history = last' are exact (bit equality)",
    "devices do not overlap each other (the property says what *a* device cell gets); static objects may overlap them",
]

EPS_XX = [1.0, 1.44, 2.25, 3.4, 5.1, 7.9, 12.25]
BETAS = [0.0, 0.5, 2.0, 8.0, 30.0, "inf"]
CONT_CHAINS = ["id", "id", "range", "tanh", "gauss", "gauss_tanh"]
DISC_CHAINS = ["closest", "range_closest", "tanh_closest"]


# ----------------------------------------------------------------------------------------------
# strategies
# ----------------------------------------------------------------------------------------------
def _pole_strategy(draw, per_axis):
    def val(choices):
        if per_axis:
            return [draw(st.sampled_from(choices)) for _ in range(3)]
        return draw(st.sampled_from(choices))

    if draw(st.booleans()):
        return {"type": "lorentz", "w0dt": val([0.05, 0.2, 0.5, 0.9]), "gdt": val([0.0, 0.01, 0.1]),
                "de": val([0.5, 1.5, 3.0])}
    return {"type": "drude", "wpdt": val([0.1, 0.3, 0.6]), "gdt": val([0.0, 0.02, 0.2])}


def _eps(draw, tier, xx):
    other = st.sampled_from([1.0, 1.7, 2.6, 4.0, 6.5, 9.0])
    if tier == "iso":
        return xx
    if tier == "diag":
        return [xx, draw(other), draw(other)]
    lam = [draw(other) for _ in range(3)]
    ang = [draw(st.sampled_from([0.0, 0.3, 0.7, 1.1, 2.0])) for _ in range(3)]
    R = scenes._rot(*ang)
    T = R @ np.diag(lam) @ R.T
    T = (T + T.T) / 2
    return [round(float(x), 6) for x in T.reshape(-1)]


@st.composite
def case_strategy(draw, ctx):
    shape = [draw(st.integers(8, 12)), draw(st.integers(6, 10)), draw(st.integers(6, 10))]
    rect = draw(st.integers(0, 3)) == 0
    grid = {"kind": "uniform"}
    if rect:
        grid = {"kind": "rect", "widths": [[draw(st.sampled_from([0.6, 0.75, 1.0, 1.0, 1.25, 1.6])) for _ in range(n)]
                                           for n in shape]}
    dev_tier = draw(st.sampled_from(["iso", "iso", "diag", "full"]))
    disp_where = draw(st.sampled_from(["none", "device", "box", "box", "both"]))
    # a quarter of the scenes (rotated per (seed, shard, lane): Hypothesis' first example in every worker is the
    # all-minimal one) put a dispersive object under a discrete device without dispersive materials — the cells where
    # "the dispersion coefficients of one device material" means exactly zero and stale coefficients would show
    rot = int(getattr(ctx, "seed", 0)) * 3 + int(getattr(ctx, "shard", 0)) * 2 + (1 if getattr(ctx, "lane", "") == "f32" else 0)
    plain_over_dispersive = (draw(st.integers(0, 3)) + rot) % 4 == 1
    if plain_over_dispersive:
        disp_where = "box"
    per_axis_poles = draw(st.booleans())

    # devices: split the volume along x so they cannot overlap ------------------------------------
    ndev = draw(st.integers(1, 2))
    if ndev == 1:
        regions = [([0, 0, 0], list(shape))]
    else:
        h = draw(st.integers(3, shape[0] - 3))
        regions = [([0, 0, 0], [h, shape[1], shape[2]]), ([h, 0, 0], list(shape))]
    devices = []
    for i, (rlo, rhi) in enumerate(regions):
        kind = draw(st.sampled_from(["cont", "cont", "disc", "disc", "disc", "etch"]))
        if plain_over_dispersive and i == 0:
            kind = "disc"
        chain = draw(st.sampled_from(CONT_CHAINS if kind in ("cont", "etch") else DISC_CHAINS))
        flat = draw(st.integers(0, 2)) if chain.startswith("gauss") else None
        vox, lo, hi = [], [], []
        for a in range(3):
            room = rhi[a] - rlo[a]
            need2 = flat is not None and a != flat
            v = draw(st.integers(1, max(1, min(3, room // 2 if need2 else room))))
            cmax = room // v
            if flat is not None and a == flat:
                cnt = 1
            elif need2:
                cnt = draw(st.integers(2, cmax))
            else:
                cnt = draw(st.integers(1, cmax))
            l0 = draw(st.integers(rlo[a], rhi[a] - v * cnt))
            vox.append(v)
            lo.append(l0)
            hi.append(l0 + v * cnt)
        nmat = 1 if kind == "etch" else (2 if kind == "cont" or chain == "tanh_closest" else draw(st.integers(2, 4)))
        xxs = sorted(draw(st.lists(st.sampled_from(EPS_XX), min_size=nmat, max_size=nmat, unique=True)))
        order = draw(st.permutations(list(range(nmat))))  # dict insertion order must not matter
        mats = []
        for j in order:
            m = {"eps": _eps(draw, dev_tier, xxs[j])}
            if disp_where in ("device", "both") and draw(st.booleans()):
                m["poles"] = [_pole_strategy(draw, per_axis_poles) for _ in range(draw(st.integers(1, 2)))]
            mats.append(m)
        if dev_tier == "full":  # eps_xx of rotated tensors must stay distinct (ordering key) with a margin
            firsts = sorted(m["eps"][0] for m in mats)
            assume(all(b - a > 0.05 for a, b in zip(firsts, firsts[1:])))
        devices.append({
            "name": f"dev{i}", "lo": lo, "hi": hi, "voxel": vox,
            "voxel_spec": "grid" if rect else draw(st.sampled_from(["grid", "grid", "real"])),
            "kind": kind, "chain": chain, "materials": mats,
            "eta": draw(st.sampled_from([0.3, 0.5, 0.7])) if chain != "tanh_closest" else 0.5,
            "std": draw(st.integers(1, 2)),
            "range": draw(st.sampled_from([[0.0, 1.0], [0.2, 0.9], [0.0, 0.5], [0.35, 1.0]])),
        })

    # static neighbours ----------------------------------------------------------------------------------
    boxes = []
    for i in range(draw(st.integers(1 if disp_where in ("box", "both") else 0, 2))):
        if i == 0:  # the first neighbour always overlaps (or at least touches) device 0 and usually sticks out of it
            dl, dh = devices[0]["lo"], devices[0]["hi"]
            lo, hi = [], []
            for a in range(3):
                l0 = draw(st.integers(max(0, dl[a] - 2), dh[a] - 1))
                h0 = draw(st.integers(max(l0 + 1, dl[a] + 1), min(shape[a], dh[a] + 2)))
                lo.append(l0)
                hi.append(h0)
        else:
            lo, hi = draw(scenes.box_strategy(shape))
        m = draw(scenes.material_strategy(tiers=("iso", "diag", "full"), lossy=True))
        if disp_where in ("box", "both") and (i == 0 or draw(st.booleans())):
            m["poles"] = [_pole_strategy(draw, per_axis_poles) for _ in range(draw(st.integers(1, 2)))]
        boxes.append({"name": f"box{i}", "lo": lo, "hi": hi, "material": m, "order": draw(st.integers(0, 2))})
    bg = draw(scenes.material_strategy(tiers=("iso", "iso", "diag"), lossy=False, magnetic=False))

    history = [{"seed": draw(st.integers(0, 2**31 - 1)),
                "style": draw(st.sampled_from(["uniform", "uniform", "binary", "const0", "const1", "levels"])),
                "beta": draw(st.sampled_from(BETAS))} for _ in range(draw(st.integers(1, 4)))]
    return {"shape": shape, "grid": grid, "background": bg, "boxes": boxes, "devices": devices, "history": history}


# ----------------------------------------------------------------------------------------------
# building the fdtdx scene
# ----------------------------------------------------------------------------------------------
def _poles(plist, dt):
    import fdtdx

    def t(x, f=1.0):
        return tuple(float(v) * f for v in x) if isinstance(x, list) else float(x) * f

    out = []
    for p in plist:
        if p["type"] == "lorentz":
            out.append(fdtdx.LorentzPole(resonance_frequency=t(p["w0dt"], 1 / dt), damping=t(p["gdt"], 1 / dt),
                                         delta_epsilon=t(p["de"])))
        else:
            out.append(fdtdx.DrudePole(plasma_frequency=t(p["wpdt"], 1 / dt), damping=t(p["gdt"], 1 / dt)))
    return tuple(out)


def _material(m, dt):
    import fdtdx

    kw = {}
    for key, name in (("eps", "permittivity"), ("mu", "permeability"), ("sigE", "electric_conductivity"),
                      ("sigH", "magnetic_conductivity")):
        if key in m:
            kw[name] = scenes._tup(m[key])
    if m.get("poles"):
        kw["dispersion"] = fdtdx.DispersionModel(poles=_poles(m["poles"], dt))
    return fdtdx.Material(**kw)


def _transforms(dev, nmat):
    import fdtdx

    c = dev["chain"]
    tanh = fdtdx.TanhProjection(projection_midpoint=dev["eta"])
    rng = fdtdx.StandardToCustomRange(min_value=dev["range"][0], max_value=dev["range"][1])
    gauss = fdtdx.GaussianSmoothing2D(std_discrete=dev["std"])
    return {
        "id": [], "range": [rng], "tanh": [tanh], "gauss": [gauss], "gauss_tanh": [gauss, tanh],
        "closest": [fdtdx.ClosestIndex()],
        "range_closest": [fdtdx.StandardToCustomRange(min_value=0.0, max_value=float(nmat - 1)), fdtdx.ClosestIndex()],
        "tanh_closest": [tanh, fdtdx.ClosestIndex()],
    }[c]


def _place(case, lane):
    import fdtdx
    import jax

    shape = case["shape"]
    spec = {"shape": shape, "steps": 4, "grid": case["grid"], "faces": {}, "background": case["background"]}
    cfg = scenes.make_config(spec, lane)
    dt = cfg.time_step_duration
    d = spec.get("d", 5e-8)
    objs, cons, vol = scenes.build_objects(spec, lane, cfg)
    edges64 = None
    if case["grid"]["kind"] == "rect":
        edges64 = [np.concatenate([[0.0], np.cumsum(np.asarray(w, dtype=np.float64) * d)]) for w in case["grid"]["widths"]]

    def put(o, lo, hi):
        objs.append(o)
        if edges64 is None:
            cons.append(o.set_grid_coordinates(axes=(0, 1, 2, 0, 1, 2), sides=("-", "-", "-", "+", "+", "+"),
                                               coordinates=(*lo, *hi)))
        else:
            cons.append(fdtdx.RealCoordinateConstraint(
                object=o.name, axes=(0, 1, 2, 0, 1, 2), sides=("-", "-", "-", "+", "+", "+"),
                coordinates=tuple(float(edges64[a][lo[a]]) for a in range(3))
                + tuple(float(edges64[a][hi[a]]) for a in range(3))))

    for b in case["boxes"]:
        put(fdtdx.UniformMaterialObject(material=_material(b["material"], dt), name=b["name"],
                                        placement_order=b["order"]), b["lo"], b["hi"])
    for dev in case["devices"]:
        mats = {f"m{j}": _material(m, dt) for j, m in enumerate(dev["materials"])}
        kw = {}
        if dev["voxel_spec"] == "grid":
            kw["partial_voxel_grid_shape"] = tuple(dev["voxel"])
        else:
            kw["partial_voxel_real_shape"] = tuple(v * d for v in dev["voxel"])
        put(fdtdx.Device(name=dev["name"], materials=mats, param_transforms=_transforms(dev, len(mats)),
                         use_etching=dev["kind"] == "etch", **kw), dev["lo"], dev["hi"])
    key = jax.random.PRNGKey(0)
    objects, arrays, params, config, _ = fdtdx.place_objects(object_list=objs, config=cfg, constraints=cons, key=key)
    return objects, arrays, params, config, key


# ----------------------------------------------------------------------------------------------
# independent model
# ----------------------------------------------------------------------------------------------
def _gen_params(dev, h, idx, fdtype):
    """Design parameters of one device for one history entry (numpy, lane dtype)."""
    rng = np.random.default_rng([h["seed"], idx])
    mshape = tuple((dev["hi"][a] - dev["lo"][a]) // dev["voxel"][a] for a in range(3))
    nmat = len(dev["materials"])
    style = h["style"]
    if dev["kind"] == "disc":
        if style == "const0":
            target = np.zeros(mshape, dtype=int)
        elif style == "const1":
            target = np.full(mshape, nmat - 1)
        else:
            target = rng.integers(0, nmat, mshape)
        jitter = rng.uniform(-0.35, 0.35, mshape)
        if dev["chain"] == "range_closest":
            p = np.clip((target + jitter) / (nmat - 1), 0.0, 1.0)
        elif dev["chain"] == "closest":
            p = np.clip(target + jitter, 0.0, 1.0)  # two reachable indices for parameters in [0,1]
        else:  # tanh_closest, eta = 0.5: the projection keeps the side of 0.5
            p = np.where(target > 0, rng.uniform(0.62, 1.0, mshape), rng.uniform(0.0, 0.38, mshape))
    elif style == "uniform":
        p = rng.uniform(0.0, 1.0, mshape)
    elif style == "binary":
        p = rng.integers(0, 2, mshape).astype(float)
    elif style == "const0":
        p = np.zeros(mshape)
    elif style == "const1":
        p = np.ones(mshape)
    else:
        p = rng.choice([0.0, 0.25, 0.75, 1.0], mshape)
    return p.astype(fdtype)


def _tanh_proj(x, beta, eta):
    if beta == 0:
        return np.clip(x, 0.0, 1.0)
    if math.isinf(beta):
        return (x > eta).astype(np.float64)
    return (np.tanh(beta * eta) + np.tanh(beta * (x - eta))) / (np.tanh(beta * eta) + np.tanh(beta * (1 - eta)))


def _gauss2d(x3, std):
    flat = x3.shape.index(1)
    x = np.squeeze(x3, axis=flat)
    k = 6 * std + 1
    pad = k // 2
    c = np.arange(-pad, pad + 1)
    X, Y = np.meshgrid(c, c, indexing="ij")
    K = np.exp(-(X**2 + Y**2) / (2.0 * std**2))
    K = K / K.sum()
    P = np.pad(x, pad, mode="edge")
    out = np.empty_like(x)
    for i in range(x.shape[0]):
        for j in range(x.shape[1]):
            out[i, j] = float((K * P[i:i + k, j:j + k]).sum())
    return out.reshape(x3.shape)


def _chain_output(dev, p, beta):
    """Model of the transform chain -> per-design-voxel output (float64)."""
    x = np.asarray(p, dtype=np.float64)
    c = dev["chain"]
    nmat = len(dev["materials"])
    if c == "range":
        x = x * (dev["range"][1] - dev["range"][0]) + dev["range"][0]
    ambiguous = np.zeros(x.shape, dtype=bool)
    if c in ("gauss", "gauss_tanh"):
        x = _gauss2d(x, dev["std"])
    if c in ("tanh", "gauss_tanh", "tanh_closest"):
        if math.isinf(beta):  # a step: a smoothed value within round-off of the threshold may fall on either side
            ambiguous = np.abs(x - dev["eta"]) < 1e-5
        x = _tanh_proj(x, beta, dev["eta"])
    if c == "range_closest":
        x = x * (nmat - 1)
    if c in ("closest", "range_closest", "tanh_closest"):
        guard = np.abs(x - np.round(x))
        assert not guard.size or guard.max() <= 0.4, "generator produced a parameter too close to a rounding boundary"
        x = np.clip(np.round(x), 0, nmat - 1)
    return x, ambiguous


def _expand(dev, v):
    """Design voxel value of every simulation cell of the device (index arithmetic, no repeat)."""
    ext = [dev["hi"][a] - dev["lo"][a] for a in range(3)]
    I, J, K = np.indices(ext)
    return v[I // dev["voxel"][0], J // dev["voxel"][1], K // dev["voxel"][2]]


def _as_tensor(comp):
    """(C, ...) component array -> (..., 3, 3)."""
    comp = np.asarray(comp, dtype=np.float64)
    C = comp.shape[0]
    out = np.zeros(comp.shape[1:] + (3, 3))
    if C == 9:
        out[...] = np.moveaxis(comp, 0, -1).reshape(comp.shape[1:] + (3, 3))
    else:
        for a in range(3):
            out[..., a, a] = comp[0] if C == 1 else comp[a]
    return out


def _from_tensor(T, C):
    if C == 9:
        return np.moveaxis(T.reshape(T.shape[:-2] + (9,)), -1, 0)
    if C == 3:
        return np.stack([T[..., a, a] for a in range(3)])
    return T[..., 0, 0][None]


def _mat_tensor(m):
    e = m["eps"]
    if isinstance(e, list) and len(e) == 9:
        return np.asarray(e, dtype=np.float64).reshape(3, 3)
    if isinstance(e, list):
        return np.diag(np.asarray(e, dtype=np.float64))
    return np.eye(3) * float(e)


def _inv_comp(comp):
    """Component-array inverse: element-wise for 1/3 components, 3x3 matrix inverse for 9."""
    comp = np.asarray(comp, dtype=np.float64)
    if comp.shape[0] == 9:
        return _from_tensor(np.linalg.inv(_as_tensor(comp)), 9)
    return 1.0 / comp


def _mat_comp(m, C):
    return _from_tensor(_mat_tensor(m), C).reshape(C)


def _tier_needed(m):
    e = m["eps"]
    if isinstance(e, list) and len(e) == 9:
        T = np.asarray(e).reshape(3, 3)
        if np.abs(T - np.diag(np.diag(T))).max() > 0:
            return 9
        e = list(np.diag(T))
    if isinstance(e, list) and not (e[0] == e[1] == e[2]):
        return 3
    return 1


def _coeff_stack(m, dt_w, P, Cc, C3):
    """(c1, c2, c3) of one material: shapes (P, Cc), (P, Cc), (P, C3); zero padded. dt_w: the w*dt products are
    stored in the case, the physical frequencies were built as (w dt)/dt_pre, so w*dt_actual = (w dt) * dt_w."""
    c1 = np.zeros((P, Cc))
    c2 = np.zeros((P, Cc))
    c3 = np.zeros((P, C3))

    def ax(x, a):
        return float(x[a]) if isinstance(x, list) else float(x)

    for i, p in enumerate(m.get("poles", [])):
        for a in range(3):
            g = ax(p["gdt"], a) * dt_w
            D = 1.0 + 0.5 * g
            if p["type"] == "lorentz":
                w0 = ax(p["w0dt"], a) * dt_w
                K = ax(p["de"], a) * w0**2
            else:
                w0 = 0.0
                K = (ax(p["wpdt"], a) * dt_w) ** 2
            if a < Cc:
                c1[i, a] = (2.0 - w0**2) / D
                c2[i, a] = -(1.0 - 0.5 * g) / D
            if C3 == 9:
                c3[i, 4 * a] = K / D
            elif a < C3:
                c3[i, a] = K / D
    return c1, c2, c3


MATERIAL_ARRAYS = ("inv_permittivities", "inv_permeabilities", "electric_conductivity", "magnetic_conductivity",
                   "dispersive_c1", "dispersive_c2", "dispersive_c3", "dispersive_c4")


def _snapshot(arrays):
    out = {}
    for k in MATERIAL_ARRAYS:
        v = getattr(arrays, k)
        if v is not None and hasattr(v, "shape") and getattr(v, "ndim", 0) >= 4:
            out[k] = np.asarray(v)
    out["E"] = np.asarray(arrays.fields.E)
    out["H"] = np.asarray(arrays.fields.H)
    return out


# ----------------------------------------------------------------------------------------------
# body
# ----------------------------------------------------------------------------------------------
def body(ctx, case):
    import fdtdx
    import jax.numpy as jnp

    lane = ctx.lane
    fdtype = np.float64 if ctx.f64 else np.float32
    objects0, arrays0, params0, config, key = _place(case, lane)
    shape = tuple(case["shape"])
    fresh = _snapshot(arrays0)
    C = fresh["inv_permittivities"].shape[0]
    has_disp = "dispersive_c1" in fresh
    devices = case["devices"]
    placed = {d.name: d for d in objects0.devices}

    # sanity of the set-up the oracle relies on (placement itself is C26's business) -----------------------------
    for dev in devices:
        got = placed[dev["name"]].grid_slice_tuple
        ctx.check(got == tuple((dev["lo"][a], dev["hi"][a]) for a in range(3)), "device not placed on the requested cells",
                  observed=got, expected=[dev["lo"], dev["hi"]])
        need = max(_tier_needed(m) for m in dev["materials"])
        ctx.check(C >= need, f"permittivity array has {C} component(s) but device {dev['name']} has a material that "
                  f"needs {need}: its cells cannot hold the material's permittivity", observed=C, expected=need)
        exp_shape = tuple((dev["hi"][a] - dev["lo"][a]) // dev["voxel"][a] for a in range(3))
        p0 = params0[dev["name"]]
        ctx.check(tuple(p0.shape) == exp_shape, "initial parameter shape is not the design-voxel grid",
                  observed=list(p0.shape), expected=list(exp_shape))

    inside = np.zeros(shape, dtype=bool)
    for dev in devices:
        inside[tuple(slice(dev["lo"][a], dev["hi"][a]) for a in range(3))] = True
    dt_w = config.time_step_duration / scenes.make_config(
        {"shape": case["shape"], "steps": 4, "grid": case["grid"]}, lane).time_step_duration
    eps_bg = _inv_comp(fresh["inv_permittivities"])  # pre-device permittivity (components)
    # float32 3x3 inverses carry ~1e-6 * condition number (<= ~10 here); scalar inverses one ulp
    tol_blend = ctx.tol(1e-10, 5e-6 if C < 9 else 5e-5)
    tol_pick = ctx.tol(1e-12, 2e-6 if C < 9 else 2e-5)

    kinds = sorted({d["kind"] for d in devices})
    ctx.classify(*("kind=" + k for k in kinds), *("chain=" + d["chain"] for d in devices), "components=%d" % C,
                 "grid=" + case["grid"]["kind"], "dispersive" if has_disp else "non-dispersive",
                 "history=%d" % len(case["history"]), "devices=%d" % len(devices),
                 *("voxel=" + "x".join(map(str, d["voxel"])) for d in devices),
                 *("voxel_spec=" + d["voxel_spec"] for d in devices), "boxes=%d" % len(case["boxes"]),
                 "box-overlaps-device" if any(
                     all(b["lo"][a] < d["hi"][a] and d["lo"][a] < b["hi"][a] for a in range(3))
                     for b in case["boxes"] for d in devices) else "no-overlap")

    # the class in which stale pole coefficients would survive: a dispersive static object under a discrete device
    # none of whose materials is dispersive (expected coefficients there: exactly zero)
    for d in devices:
        if d["kind"] == "disc" and has_disp and not any(m.get("poles") for m in d["materials"]):
            under = [b for b in case["boxes"] if b["material"].get("poles")
                     and all(b["lo"][a] < d["hi"][a] and d["lo"][a] < b["hi"][a] for a in range(3))]
            if under:
                ctx.classify("nondispersive-discrete-device-over-dispersive-box")
                break

    arrays, objects = arrays0, objects0
    plist = []
    for step, h in enumerate(case["history"]):
        beta = float("inf") if h["beta"] == "inf" else float(h["beta"])
        pnp = {dev["name"]: _gen_params(dev, h, i, fdtype) for i, dev in enumerate(devices)}
        params = {k: jnp.asarray(v) for k, v in pnp.items()}
        plist.append((params, beta))
        arrays, objects, _ = fdtdx.apply_params(arrays, objects, params, key, beta=beta)
        now = _snapshot(arrays)
        tag = f"after application {step + 1}/{len(case['history'])}: "

        # cells outside every device: bit-identical to the freshly placed arrays ---------------------------------------
        ctx.check(sorted(now) == sorted(fresh), tag + "set of material arrays changed", observed=sorted(now),
                  expected=sorted(fresh))
        for k, ref in fresh.items():
            cur = now[k]
            ctx.check(cur.shape == ref.shape and cur.dtype == ref.dtype, tag + f"{k} changed shape/dtype",
                      observed=[list(cur.shape), str(cur.dtype)], expected=[list(ref.shape), str(ref.dtype)])
            out_mask = np.broadcast_to(~inside, ref.shape)
            same = (cur == ref) | (np.isnan(cur) & np.isnan(ref))
            bad = out_mask & ~same
            if bad.any():
                i = tuple(int(x[0]) for x in np.nonzero(bad))
                ctx.check(False, tag + f"{k} changed at cell {i} outside every device ({int(bad.sum())} entries)",
                          observed=repr(cur[i]), expected=repr(ref[i]), tolerance=0)

        # device cells ---------------------------------------------------------------------------------------------------
        for dev in devices:
            sl = tuple(slice(dev["lo"][a], dev["hi"][a]) for a in range(3))
            v, ambiguous = _chain_output(dev, pnp[dev["name"]], beta)
            vexp = _expand(dev, v)
            amb = _expand(dev, ambiguous)
            got = now["inv_permittivities"][(slice(None), *sl)].astype(np.float64)
            # float32 lane: smoothing round-off is amplified by the slope of a following projection
            amp = max(1.0, beta) if (dev["chain"] == "gauss_tanh" and math.isfinite(beta) and not ctx.f64) else 1.0
            mats = sorted(dev["materials"], key=lambda m: _mat_tensor(m)[0, 0])
            name = dev["name"]
            if dev["kind"] in ("cont", "etch"):
                assert float(v.min()) >= -1e-9 and float(v.max()) <= 1 + 1e-9, "model chain output left [0,1]"
                if dev["kind"] == "cont":
                    Ta, Tb = _mat_tensor(mats[0]), _mat_tensor(mats[1])
                    T = Ta + vexp[..., None, None] * (Tb - Ta)
                    lo_t, hi_t = np.minimum(Ta, Tb), np.maximum(Ta, Tb)
                    ev_lo = min(np.linalg.eigvalsh(Ta).min(), np.linalg.eigvalsh(Tb).min())
                    ev_hi = max(np.linalg.eigvalsh(Ta).max(), np.linalg.eigvalsh(Tb).max())
                else:
                    Tb = _mat_tensor(mats[0])
                    Tbg = _as_tensor(eps_bg[(slice(None), *sl)])
                    T = Tbg + vexp[..., None, None] * (Tb - Tbg)
                    lo_t = hi_t = None
                if C == 9:
                    exp = _from_tensor(np.linalg.inv(T), 9)
                else:
                    exp = 1.0 / _from_tensor(T, C)
                if amb.any():
                    ctx.classify("ambiguous-threshold-cells-masked")
                    exp = np.where(amb[None], got, exp)
                ctx.close(got, exp, tol=tol_blend * amp, scale=float(np.abs(exp).max()),
                          msg=tag + f"{name} ({dev['kind']}, chain {dev['chain']}): inverse permittivity is not the "
                          "inverse of the linear permittivity blend", metric="blend_err")
                if dev["kind"] == "cont":  # 'hence within their range'
                    eps_got = _as_tensor(_inv_comp(got))
                    if C == 9:
                        ev = np.linalg.eigvalsh((eps_got + np.swapaxes(eps_got, -1, -2)) / 2)
                        ok = ev.min() >= ev_lo * (1 - 10 * tol_blend * amp) and ev.max() <= ev_hi * (1 + 10 * tol_blend * amp)
                        ctx.check(ok, tag + f"{name}: blended tensor leaves the eigenvalue range of its two materials",
                                  observed=[float(ev.min()), float(ev.max())], expected=[float(ev_lo), float(ev_hi)])
                    else:
                        comps = range(1) if C == 1 else range(3)
                        for a in comps:
                            e = eps_got[..., a, a]
                            ok = e.min() >= lo_t[a, a] * (1 - 10 * tol_blend) and e.max() <= hi_t[a, a] * (1 + 10 * tol_blend)
                            ctx.check(ok, tag + f"{name}: permittivity component {a} outside the range of the two "
                                      "device materials", observed=[float(e.min()), float(e.max())],
                                      expected=[float(lo_t[a, a]), float(hi_t[a, a])])
            else:
                idx = vexp.astype(int)
                inv_each = np.stack([_inv_comp(_mat_comp(m, C).reshape(C, 1, 1, 1)).reshape(C) for m in mats])  # (M, C)
                exp = np.moveaxis(inv_each[idx], -1, 0)
                # exactly ONE material per cell (the literal claim) ...
                dist = np.abs(got[None] - inv_each[:, :, None, None, None]).max(axis=1)  # (M, *cells)
                nearest = dist.argmin(axis=0)
                scale = float(np.abs(inv_each).max())
                ctx.check(float(dist.min(axis=0).max()) <= tol_pick * scale,
                          tag + f"{name} (discrete): a cell holds an inverse permittivity that belongs to none of the "
                          "device materials", observed=float(dist.min(axis=0).max()), tolerance=tol_pick * scale)
                # ... and the one selected by the documented nearest-index rule
                ctx.close(got, exp, tol=tol_pick, scale=scale, metric="pick_err",
                          msg=tag + f"{name} (discrete, chain {dev['chain']}): cell does not hold the material with the "
                          "index its parameter rounds to")
                if has_disp:
                    P, Cc = now["dispersive_c1"].shape[:2]
                    C3 = now["dispersive_c3"].shape[1]
                    stacks = [_coeff_stack(m, dt_w, P, Cc, C3) for m in mats]
                    for ci, cname in enumerate(("dispersive_c1", "dispersive_c2", "dispersive_c3")):
                        table = np.stack([s[ci] for s in stacks])  # (M, P, comps)
                        exp_c = np.moveaxis(table[nearest], (-2, -1), (0, 1))
                        got_c = now[cname][(slice(None), slice(None), *sl)].astype(np.float64)
                        ctx.close(got_c, exp_c, tol=tol_pick, scale=max(1.0, float(np.abs(table).max())),
                                  msg=tag + f"{name} (discrete): {cname} is not the coefficient stack of the material "
                                  "whose permittivity the cell received", metric="coeff_err")

    # ---- history: the sequence leaves what the last set alone would leave -------------------------------------------
    last_params, last_beta = plist[-1]
    a_once, _, _ = fdtdx.apply_params(arrays0, objects0, last_params, key, beta=last_beta)
    once = _snapshot(a_once)
    final = _snapshot(arrays)
    for k in sorted(once):
        x, y = final[k], once[k]
        same = (x == y) | (np.isnan(x) & np.isnan(y))
        if not same.all():
            i = tuple(int(t[0]) for t in np.nonzero(~same))
            ctx.check(False, f"history dependence: {k} after {len(plist)} applications differs from applying only the "
                      f"last parameter set to freshly placed arrays ({int((~same).sum())} entries, first at {i})",
                      observed=repr(x[i]), expected=repr(y[i]), tolerance=0)

    distinct_params = len({tuple(np.concatenate([np.asarray(v).ravel() for v in p.values()]).tolist()) + (b,)
                           for p, b in plist}) >= 2
    changed = bool((final["inv_permittivities"] != fresh["inv_permittivities"]).any())
    ctx.classify("last-application-changed-cells" if changed else "device-cells-equal-to-fresh")
    ctx.nontrivial(((len(plist) >= 2 and distinct_params) or "etch" in kinds) and changed)


SUBS = [
    Sub(name="device_histories", body=body, strategy=lambda ctx: case_strategy(ctx), quick=32, thorough=1200,
        lanes=("f64", "f32"), f32_fraction=0.25, quick_shards=2,
        rule="random devices + neighbours, cumulative apply_params history against a per-cell numpy model"),
]

KNOWN_CLASSES = {}
