#!/usr/bin/env python3
"""Rewrites DESIGN.md's section 14 (between the SEEDED markers) from seeded/*/meta.json."""
import json, glob, os, re
V = os.path.dirname(os.path.dirname(os.path.abspath(__file__)))
rows, stats = [], {}
for f in sorted(glob.glob(os.path.join(V, "seeded", "*", "meta.json"))):
    m = json.load(open(f)); d = m["detection"]
    stats[d["result"]] = stats.get(d["result"], 0) + 1
    rows.append(f"| `seeded/{os.path.basename(os.path.dirname(f))}` | {m['property']} | {m['needs_to_manifest']} | {d['result']} | {d['detail']} |")
body = f"""<!-- SEEDED-BEGIN -->
## 14. Seeded changes: which checks catch which realistic breakage

Every change below was written by a *fresh sub-agent that saw only the property text* and had its own scratch git
worktree of /repo (nothing from /verif). Each consists of `patch.diff`, a standalone `demo.py` (exits 0 on the clean
tree, non-zero with the patch) and the agent's `notes.md`; I re-confirmed each with `tools/eval_seeded.sh` (scratch
copy of /repo/src + patch, demo on clean and patched copy, then `./check <ID> --tier quick` with `VERIF_REPO_SRC`
pointing at the patched copy; /repo itself is never modified) and recorded the outcome in `meta.json`.
"Existing tests still pass" means: the relevant unit/integration test files run against the worktree's `src`
(`PYTHONPATH=<worktree>/src`) give the same result with and without the change - the pinned suite itself imports the
stale installed fdtdx and cannot see any change to /repo/src.

Totals: {len(rows)} seeded changes; {', '.join(f'{v} {k}' for k, v in sorted(stats.items()))}.
"quick-after-strengthening" = the first version of the check missed the change; the generator/oracle was then
strengthened *in the direction the property text already required* (never special-casing the seeded change), the
seeded change is caught in the quick tier now, and the strengthened check was re-run on the unchanged tree at seeds
1-3 without an alarm.

| directory | property | what the change needs in order to manifest | caught by the quick tier | detail |
|---|---|---|---|---|
""" + "\n".join(rows) + "\n<!-- SEEDED-END -->\n"
p = os.path.join(V, "DESIGN.md")
s = open(p).read()
if "<!-- SEEDED-BEGIN -->" in s:
    s = re.sub(r"<!-- SEEDED-BEGIN -->.*<!-- SEEDED-END -->\n", lambda _: body, s, flags=re.S)
else:
    s = s.rstrip("\n") + "\n\n" + body
open(p, "w").write(s)
print(len(rows), stats)
