#!/bin/bash
# Runs the repository's pinned suite (guard off - there are no hooks) and compares with BASELINE.json's stable_pass.
OUT=${1:-/tmp/fdtdx-baseline-$$}
mkdir -p "$OUT"
(cd /repo && /venv/bin/python -m pytest -ra -q -p no:cacheprovider --timeout=900 --continue-on-collection-errors --junitxml="$OUT/junit.xml" > "$OUT/pytest.log" 2>&1)
python3 - "$OUT/junit.xml" <<'PY'
import json, sys, xml.etree.ElementTree as ET
b = json.load(open('/root/.vp/BASELINE.json')); stable = set(b['stable_pass'])
res = {}
for tc in ET.parse(sys.argv[1]).iter('testcase'):
    res[tc.get('classname') + '::' + tc.get('name')] = not any(c.tag in ('failure', 'error', 'skipped') for c in tc)
missing = sorted(s for s in stable if not res.get(s, False))
print(f"{len(stable)} stable tests; {len(missing)} not passing now")
for m in missing[:20]: print("  ", m)
sys.exit(1 if missing else 0)
PY
rc=$?
rm -rf "$OUT"
exit $rc
