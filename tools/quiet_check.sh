#!/bin/bash
# tools/quiet_check.sh "1 2 3" C01 C02 ... : runs the quick tier at the given seeds on the unchanged tree, prints rc + summary line
SEEDS=$1; shift
for p in "$@"; do for s in $SEEDS; do
  out=$(cd /verif && ./check $p --no-evidence --seed $s 2>&1); rc=$?
  echo "$p seed=$s rc=$rc $(echo "$out" | grep -c '^VIOLATION') viol :: $(echo "$out" | grep '^\[' | tail -1 | cut -c1-200)"
  [ $rc -ne 0 ] && echo "$out" | grep -A1 "^VIOLATION\|HARNESS" | head -6
done; done
