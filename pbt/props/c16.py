"""C16 — detector reductions are consistent with their spatial records.

All checks are *relations between detectors* that sit on the same region of the same scene and differ in one option;
the weights (cell volumes, face areas) are rebuilt from the stored grid edges with numpy.

volume      reduce_volume=True Field / Phasor records == volume-weighted mean of the reduce_volume=False records;
            reduced Energy == sum(density * cell volume); an inverse-time phasor detector fed the same samples ends at
            minus the forward one and, when started from the forward result, returns to zero.
plane_flux  reduced flux == sum(spatial flux * face area); "-" == -"+" ; scalar == propagation component of
            keep_all_components (spatial and reduced); all of that for the phasor-domain plane detector too.
closed_flux ClosedSurfacePoyntingFluxDetector == sum of "+" face detectors on the three max faces and "-" face detectors
            on the three min faces of its box (`axes` subsets and orientation="inward" included).
"""

from __future__ import annotations

import numpy as np
from hypothesis import strategies as st

from pbt import scenes
from pbt.engine import Sub
from pbt.oracles import detectors as od

ID = "C16"
RULE = (
    "Hypothesis draws a 4..8 cells per axis domain (uniform or rectilinear with widths {0.6..1.6}*d, faces from "
    "{zero halo, PEC, PMC, periodic pair}), dense gaussian E, H, H_prev per probed step (2 steps), per-cell random "
    "eps/mu (isotropic or diagonal) for the energy density, a random box (any face contact; for plane detectors a "
    "slab of thickness 1, or thicker with fixed_propagation_axis), exact_interpolation True/False, component subsets, "
    "1..2 frequencies, both phasor scaling modes. Each case places the whole tuple of detectors that differ in one "
    "option on that box and calls update_detector_states (jit) per step. Non-trivial = the region has more than one "
    "cell (for the closed surface: extent > 1 on at least two axes), so that the reduction and its weights matter, "
    "and the records are non-zero; the class histogram separates uniform from stretched grids. Distinct = sha1 of the case JSON."
)
ASSUMPTIONS = [
    "weights: cell volume = wx*wy*wz and face area normal to a = product of the two transverse widths, widths = "
    "np.diff of the stored edge coordinates",
    "the reduced all-component flux weights component c with the face area normal to axis c (the reading the "
    "coordinator's fix 0ec6ef4 implements)",
    "a closed surface's six faces are the first and last cell layer of its box along each axis; on an axis of extent "
    "one the two faces coincide and cancel, which is why the default `axes` may skip it",
    "tolerances: f64 lane 1e-12, f32 lane 2e-5, relative to sum|weight*value| (sums) or max|value| (means)",
    "PhasorPoyntingFluxDetector(keep_all_components=True) is treated as in-domain (its time-domain sibling is)",
]

FACE_KINDS = ["none", "none", "pec", "pmc"]


@st.composite
def _scene(draw, lo_n=4, hi_n=8, steps=4):
    n = [draw(st.integers(lo_n, hi_n)) for _ in range(3)]
    faces = {}
    for ax in "xyz":
        if draw(st.integers(0, 3)) == 0:
            faces[f"min_{ax}"] = {"kind": "periodic"}
            faces[f"max_{ax}"] = {"kind": "periodic"}
        else:
            for side in ("min", "max"):
                faces[f"{side}_{ax}"] = {"kind": draw(st.sampled_from(FACE_KINDS))}
    if draw(st.integers(0, 2)) > 0:
        widths = []
        for a, ax in enumerate("xyz"):
            w = [draw(st.sampled_from([0.6, 0.75, 1.0, 1.25, 1.6])) for _ in range(n[a])]
            if faces[f"min_{ax}"]["kind"] == "periodic":
                w[-1] = w[0]
            widths.append(w)
        grid = {"kind": "rect", "widths": widths}
    else:
        grid = {"kind": "uniform"}
    bg = {"eps": draw(st.sampled_from([2.0, [2.0, 3.0, 4.0]]))}
    mu = draw(st.sampled_from([None, 1.5, [1.5, 2.0, 1.2]]))
    if mu is not None:
        bg["mu"] = mu
    return {"shape": n, "steps": steps, "courant": 0.99, "grid": grid, "faces": faces, "background": bg}


@st.composite
def _box(draw, n, min_big=2):
    """Random box with any face contact; at least `min_big` axes are longer than one cell (so that reductions and
    their weights matter in the bulk of the cases)."""
    big = set(draw(st.permutations([0, 1, 2]))[:draw(st.integers(min_big, 3))])
    lo, hi = [], []
    for a in range(3):
        size = draw(st.integers(2, n[a])) if a in big else draw(st.integers(1, n[a]))
        start = draw(st.sampled_from([0, n[a] - size, draw(st.integers(0, n[a] - size))]))
        lo.append(start)
        hi.append(start + size)
    return lo, hi


def _fields(seed, shape, lane, k):
    dt = np.float64 if lane == "f64" else np.float32
    return [scenes.random_field(seed + 7 * k + j, shape, False, (), 1.0).astype(dt) for j in range(3)]


def _randomise_materials(b, seed):
    import jax.numpy as jnp

    rng = np.random.default_rng(seed)
    arrays = b.arrays
    ie = arrays.inv_permittivities
    arrays = arrays.aset("inv_permittivities", jnp.asarray(1.0 / rng.uniform(1, 12, ie.shape), dtype=ie.dtype))
    im = arrays.inv_permeabilities
    if hasattr(im, "shape") and getattr(im, "ndim", 0) == 4:
        arrays = arrays.aset("inv_permeabilities", jnp.asarray(1.0 / rng.uniform(1, 6, im.shape), dtype=im.dtype))
    return arrays


def _wcs(periods, dt):
    import fdtdx

    return tuple(fdtdx.WaveCharacter(period=float(p) * dt) for p in periods)


def _sum_close(ctx, got, terms, msg, metric):
    """got == sum(terms) over the three trailing axes, relative to sum|terms|."""
    want = terms.sum(axis=(-3, -2, -1))
    scale = float(np.abs(terms).sum(axis=(-3, -2, -1)).max())
    ctx.close(np.asarray(got).reshape(want.shape), want, scale=max(scale, 1e-300), tol=ctx.tol(1e-12, 2e-5), msg=msg,
              metric=metric)


def _classify_scene(ctx, spec, lo, hi, exact):
    kinds = sorted({f["kind"] for f in spec["faces"].values()})
    n = spec["shape"]
    touch = any(lo[a] == 0 or hi[a] == n[a] for a in range(3))
    ctx.classify("grid=" + spec["grid"]["kind"], "exact" if exact else "raw", "touches_face" if touch else "interior",
                 *("face=" + k for k in kinds))


# =====================================================================================================================
# volume reductions + inverse-time phasors
# =====================================================================================================================
@st.composite
def volume_cases(draw, ctx):
    spec = draw(_scene())
    lo, hi = draw(_box(spec["shape"]))
    comps = draw(st.sampled_from([list(od.COMPS), ["Ex", "Hz"], ["Ey", "Hx", "Hy"], ["Ez"], ["Ex", "Ey", "Ez", "Hy"]]))
    return {
        "scene": spec, "lo": lo, "hi": hi, "exact": draw(st.booleans()), "components": comps,
        "periods": [draw(st.sampled_from([5.3, 8.0, 11.7, 20.5, 37.1])) for _ in range(draw(st.integers(1, 2)))],
        "scaling": draw(st.sampled_from(["continuous", "pulse"])),
        "steps_probed": sorted(draw(st.sets(st.integers(0, spec["steps"] - 1), min_size=2, max_size=2))),
        "closed_inverse": draw(st.booleans()),
        "seed": draw(st.integers(0, 2**31 - 1)), "mat_seed": draw(st.integers(0, 2**31 - 1)),
    }


def volume_body(ctx, case):
    import fdtdx
    import jax.numpy as jnp

    spec, lo, hi = case["scene"], case["lo"], case["hi"]
    fdt, cdt = od.lane_dtypes(ctx.lane)
    put = od.placer(spec)
    comps = tuple(case["components"])

    def extra(cfg, vol):
        dt = cfg.time_step_duration
        kw = dict(exact_interpolation=case["exact"], plot=False)
        pk = dict(wave_characters=_wcs(case["periods"], dt), dtype=cdt, scaling_mode=case["scaling"], components=comps, **kw)
        objs = [
            fdtdx.FieldDetector(name="f_full", dtype=fdt, components=comps, reduce_volume=False, **kw),
            fdtdx.FieldDetector(name="f_red", dtype=fdt, components=comps, reduce_volume=True, **kw),
            fdtdx.EnergyDetector(name="e_full", dtype=fdt, reduce_volume=False, **kw),
            fdtdx.EnergyDetector(name="e_red", dtype=fdt, reduce_volume=True, **kw),
            fdtdx.PhasorDetector(name="p_full", reduce_volume=False, **pk),
            fdtdx.PhasorDetector(name="p_red", reduce_volume=True, **pk),
            fdtdx.PhasorDetector(name="pi_zero", reduce_volume=False, inverse=True, **pk),
            fdtdx.PhasorDetector(name="pi_seed", reduce_volume=False, inverse=True, **pk),
            fdtdx.PhasorDetector(name="pi_red", reduce_volume=True, inverse=True, **pk),
        ]
        if case["closed_inverse"]:
            ck = dict(wave_characters=_wcs(case["periods"], dt), dtype=cdt, scaling_mode=case["scaling"],
                      exact_interpolation=case["exact"])  # (plot is not an init argument of this class)
            objs += [fdtdx.ClosedSurfacePhasorPoyntingFluxDetector(name="c_fwd", **ck),
                     fdtdx.ClosedSurfacePhasorPoyntingFluxDetector(name="c_inv", inverse=True, **ck)]
        return objs, [put(o, lo, hi) for o in objs]

    b = scenes.build(spec, ctx.lane, extra_objects=extra)
    od.check_slices(b, {d.name: (lo, hi) for d in b.objects.detectors})
    n = tuple(spec["shape"])
    arrays = _randomise_materials(b, case["mat_seed"])
    fwd, inv = od.jit_update(b, False), od.jit_update(b, True)
    hist = {}
    for k in case["steps_probed"]:
        E, H, Hp = _fields(case["seed"], n, ctx.lane, k)
        hist[k] = (E, H, Hp)
        arrays = fwd(k, scenes.set_fields(arrays, E, H), Hp)
    S = od.states(arrays)

    w = od.stored_widths(b)
    V = od.cell_volumes(w, lo, hi)
    ext = [hi[a] - lo[a] for a in range(3)]
    _classify_scene(ctx, spec, lo, hi, case["exact"])
    ctx.classify("scaling=" + case["scaling"], "cells=%s" % ("1" if np.prod(ext) == 1 else ">1"))
    tol = ctx.tol(1e-12, 2e-5)

    # Field: reduced == volume-weighted mean, at every probed step; untouched rows stay zero in both
    ff, fr = S["f_full"]["fields"], S["f_red"]["fields"]
    ctx.check(fr.shape == ff.shape[:2], f"reduced field record shape {fr.shape}", observed=list(fr.shape))
    want = (ff * V).sum(axis=(2, 3, 4)) / V.sum()
    ctx.close(fr, want, scale=float(np.abs(ff).max()), tol=tol, metric="field_mean_err",
              msg="reduced FieldDetector != volume-weighted mean of the spatial FieldDetector")
    # Energy: reduced == sum(density * V)
    ef, er = S["e_full"]["energy"], S["e_red"]["energy"]
    ctx.check(er.shape == (ef.shape[0], 1), f"reduced energy record shape {er.shape}", observed=list(er.shape))
    _sum_close(ctx, er[:, 0], ef * V, "reduced EnergyDetector != sum(energy density * cell volume)", "energy_sum_err")
    # Phasor: reduced == volume-weighted mean
    pf, pr = S["p_full"]["phasor"], S["p_red"]["phasor"]
    ctx.check(pr.shape == pf.shape[:3], f"reduced phasor shape {pr.shape}", observed=list(pr.shape))
    want = (pf * V).sum(axis=(3, 4, 5)) / V.sum()
    pscale = float(np.abs(pf).max())
    ctx.close(pr, want, scale=pscale, tol=tol, metric="phasor_mean_err",
              msg="reduced PhasorDetector != volume-weighted mean of the spatial PhasorDetector")
    nonzero = float(np.abs(ff).max()) > 0 and pscale > 0 and float(np.abs(ef).max()) > 0

    # inverse-time phasors: the forward call must not have touched them
    for name in ("pi_zero", "pi_seed", "pi_red"):
        ctx.check(not np.any(S[name]["phasor"]), f"forward update wrote into the inverse detector {name}")
    st_ = dict(arrays.detector_states)
    st_["pi_seed"] = {"phasor": jnp.asarray(pf, dtype=arrays.detector_states["pi_seed"]["phasor"].dtype)}
    if case["closed_inverse"]:
        st_["c_inv"] = {k: jnp.asarray(v) for k, v in S["c_fwd"].items()}
    arrays = arrays.aset("detector_states", st_)
    for k in case["steps_probed"]:
        E, H, Hp = hist[k]
        arrays = inv(k, scenes.set_fields(arrays, E, H), Hp)
    S2 = od.states(arrays)
    ctx.close(S2["pi_zero"]["phasor"], -pf, scale=pscale, tol=tol, metric="inverse_err",
              msg="inverse-time PhasorDetector fed the same samples != -(forward PhasorDetector)")
    ctx.close(S2["pi_seed"]["phasor"], np.zeros_like(pf), scale=pscale, tol=tol, metric="inverse_err",
              msg="inverse-time update after the forward one does not return the phasor to zero")
    ctx.close(S2["pi_red"]["phasor"], -pr, scale=pscale, tol=tol, metric="inverse_err",
              msg="reduced inverse-time PhasorDetector != -(reduced forward PhasorDetector)")
    for name in ("f_full", "f_red", "e_full", "e_red", "p_full", "p_red"):
        for key in S[name]:
            ctx.check(np.array_equal(S2[name][key], S[name][key]), f"inverse update changed the forward detector {name}")
    if case["closed_inverse"]:
        ctx.classify("closed_inverse")
        for key, v in S["c_fwd"].items():
            ctx.close(S2["c_inv"][key], np.zeros_like(v), scale=max(float(np.abs(v).max()), 1e-300), tol=tol,
                      metric="inverse_err",
                      msg=f"closed-surface phasor detector: inverse update after forward does not cancel ({key})")
    ctx.nontrivial(nonzero and np.prod(ext) > 1)


# =====================================================================================================================
# plane flux
# =====================================================================================================================
@st.composite
def plane_cases(draw, ctx):
    spec = draw(_scene())
    n = spec["shape"]
    lo, hi = draw(_box(n, 3))
    axis = draw(st.integers(0, 2))
    thick = draw(st.integers(0, 3)) == 0
    if not thick:
        p = draw(st.integers(0, n[axis] - 1))
        lo[axis], hi[axis] = p, p + 1
        # a second axis of extent one would make the automatic axis ambiguous -> give the axis explicitly then
    ext = [hi[a] - lo[a] for a in range(3)]
    fixed = thick or sum(e == 1 for e in ext) != 1 or draw(st.booleans())
    return {
        "scene": spec, "lo": lo, "hi": hi, "axis": axis, "fixed": bool(fixed), "exact": draw(st.booleans()),
        "periods": [draw(st.sampled_from([5.3, 8.0, 11.7, 20.5])) for _ in range(draw(st.integers(1, 2)))],
        "scaling": draw(st.sampled_from(["continuous", "pulse"])),
        "steps_probed": sorted(draw(st.sets(st.integers(0, spec["steps"] - 1), min_size=2, max_size=2))),
        "phasor_keep_all": draw(st.integers(0, 2)) > 0,
        "seed": draw(st.integers(0, 2**31 - 1)),
    }


def plane_body(ctx, case):
    import fdtdx

    spec, lo, hi, axis = case["scene"], case["lo"], case["hi"], case["axis"]
    fdt, cdt = od.lane_dtypes(ctx.lane)
    put = od.placer(spec)
    fx = axis if case["fixed"] else None

    def extra(cfg, vol):
        dt = cfg.time_step_duration
        kw = dict(exact_interpolation=case["exact"], plot=False, fixed_propagation_axis=fx)
        objs = []
        for direction, tag in (("+", "p"), ("-", "m")):
            for keep in (False, True):
                for red in (False, True):
                    objs.append(fdtdx.PoyntingFluxDetector(
                        name=f"s_{tag}_{'all' if keep else 'sc'}_{'red' if red else 'full'}", dtype=fdt,
                        direction=direction, keep_all_components=keep, reduce_volume=red, **kw))
        pk = dict(wave_characters=_wcs(case["periods"], dt), dtype=cdt, scaling_mode=case["scaling"],
                  exact_interpolation=case["exact"], fixed_propagation_axis=fx)
        for direction, tag in (("+", "p"), ("-", "m")):
            for keep in ((False, True) if case["phasor_keep_all"] else (False,)):
                objs.append(fdtdx.PhasorPoyntingFluxDetector(name=f"ph_{tag}_{'all' if keep else 'sc'}",
                                                             direction=direction, keep_all_components=keep, **pk))
        return objs, [put(o, lo, hi) for o in objs]

    b = scenes.build(spec, ctx.lane, extra_objects=extra)
    od.check_slices(b, {d.name: (lo, hi) for d in b.objects.detectors})
    n = tuple(spec["shape"])
    arrays = b.arrays
    fwd = od.jit_update(b, False)
    for k in case["steps_probed"]:
        E, H, Hp = _fields(case["seed"], n, ctx.lane, k)
        arrays = fwd(k, scenes.set_fields(arrays, E, H), Hp)
    S = {k: v["poynting_flux"] for k, v in od.states(arrays).items() if "poynting_flux" in v}
    w = od.stored_widths(b)
    A = [od.face_areas(w, lo, hi, a) for a in range(3)]
    ext = [hi[a] - lo[a] for a in range(3)]
    _classify_scene(ctx, spec, lo, hi, case["exact"])
    ctx.classify("axis=%d" % axis, "thick" if ext[axis] > 1 else "plane", "fixed_axis" if case["fixed"] else "auto_axis")
    tol = ctx.tol(1e-12, 2e-5)

    allf = S["s_p_all_full"]  # (T, 3, *ext)
    T = allf.shape[0]
    ctx.check(allf.shape == (T, 3, *ext), f"all-component spatial flux shape {allf.shape}")
    fscale = max(float(np.abs(allf).max()), 1e-300)
    # scalar == propagation component (spatial)
    ctx.close(S["s_p_sc_full"], allf[:, axis], scale=fscale, tol=tol, metric="component_err",
              msg="single-component spatial flux != propagation component of keep_all_components")
    # reduced == area weighted sum
    _sum_close(ctx, S["s_p_sc_red"][:, 0], S["s_p_sc_full"] * A[axis],
               "reduced flux != sum(spatial flux * face area)", "flux_sum_err")
    want_all = np.stack([allf[:, c] * A[c] for c in range(3)], axis=1)
    _sum_close(ctx, S["s_p_all_red"], want_all,
               "reduced all-component flux != sum(spatial component * face area normal to that component)", "flux_sum_err")
    # scalar == propagation component (reduced)
    rscale = max(float(np.abs(want_all).sum(axis=(-3, -2, -1)).max()), 1e-300)
    ctx.close(S["s_p_sc_red"][:, 0], S["s_p_all_red"][:, axis], scale=rscale, tol=tol, metric="component_err",
              msg="reduced scalar flux != propagation component of the reduced all-component flux")
    # minus negates, for every variant
    for v in ("sc_full", "sc_red", "all_full", "all_red"):
        ctx.close(S[f"s_m_{v}"], -S[f"s_p_{v}"], scale=fscale if v.endswith("full") else rscale, tol=tol,
                  metric="negation_err", msg=f"direction '-' != -(direction '+') for the {v} flux detector")
    # phasor-domain plane detector: same relations on compute_poynting_flux()
    dets = {d.name: d for d in b.objects.detectors}
    flux = {name: np.asarray(dets[name].compute_poynting_flux(arrays.detector_states[name]))
            for name in dets if name.startswith("ph_")}
    nf = len(case["periods"])
    ptol = ctx.tol(1e-12, 5e-5)
    ctx.check(flux["ph_p_sc"].shape == (nf,), "phasor flux shape", observed=list(flux["ph_p_sc"].shape))
    pscale = max(float(np.abs(flux["ph_p_sc"]).max()), 1e-300)
    ctx.close(flux["ph_m_sc"], -flux["ph_p_sc"], scale=pscale, tol=ptol, metric="negation_err",
              msg="phasor flux: direction '-' != -(direction '+')")
    if case["phasor_keep_all"]:
        ctx.classify("phasor_keep_all")
        ctx.check(flux["ph_p_all"].shape == (nf, 3), "phasor all-component flux shape", observed=list(flux["ph_p_all"].shape))
        pscale = max(float(np.abs(flux["ph_p_all"]).max()), 1e-300)
        ctx.close(flux["ph_p_sc"], flux["ph_p_all"][:, axis], scale=pscale, tol=ptol, metric="component_err",
                  msg="phasor flux: scalar != propagation component of keep_all_components")
        ctx.close(flux["ph_m_all"], -flux["ph_p_all"], scale=pscale, tol=ptol, metric="negation_err",
                  msg="phasor flux (all components): direction '-' != -(direction '+')")
    ctx.nontrivial(fscale > 1e-200 and np.prod(ext) > 1)


# =====================================================================================================================
# closed surface
# =====================================================================================================================
@st.composite
def closed_cases(draw, ctx):
    spec = draw(_scene())
    n = spec["shape"]
    lo, hi = draw(_box(n, 3))
    if draw(st.integers(0, 3)) == 0:  # quasi-2D box
        a = draw(st.integers(0, 2))
        hi[a] = lo[a] + 1
    axes = draw(st.sampled_from([None, None, [0, 1, 2], [0], [1, 2], [2, 0], [1]]))
    return {
        "scene": spec, "lo": lo, "hi": hi, "axes": axes, "exact": draw(st.booleans()),
        "steps_probed": sorted(draw(st.sets(st.integers(0, spec["steps"] - 1), min_size=2, max_size=2))),
        "seed": draw(st.integers(0, 2**31 - 1)),
    }


def closed_body(ctx, case):
    import fdtdx

    spec, lo, hi = case["scene"], case["lo"], case["hi"]
    fdt, _ = od.lane_dtypes(ctx.lane)
    put = od.placer(spec)
    axes = None if case["axes"] is None else tuple(case["axes"])
    boxes = {}

    def extra(cfg, vol):
        kw = dict(exact_interpolation=case["exact"], plot=False, dtype=fdt)
        objs = [fdtdx.ClosedSurfacePoyntingFluxDetector(name="c_out", axes=axes, **kw),
                fdtdx.ClosedSurfacePoyntingFluxDetector(name="c_in", axes=axes, orientation="inward", **kw)]
        cons = [put(o, lo, hi) for o in objs]
        for o in objs:
            boxes[o.name] = (lo, hi)
        for a in range(3):
            for side in ("min", "max"):
                flo, fhi = list(lo), list(hi)
                if side == "min":
                    fhi[a] = lo[a] + 1
                else:
                    flo[a] = hi[a] - 1
                o = fdtdx.PoyntingFluxDetector(name=f"face_{a}_{side}", direction="+" if side == "max" else "-",
                                               reduce_volume=True, fixed_propagation_axis=a, **kw)
                objs.append(o)
                cons.append(put(o, flo, fhi))
                boxes[o.name] = (flo, fhi)
        return objs, cons

    b = scenes.build(spec, ctx.lane, extra_objects=extra)
    od.check_slices(b, boxes)
    n = tuple(spec["shape"])
    arrays = b.arrays
    fwd = od.jit_update(b, False)
    for k in case["steps_probed"]:
        E, H, Hp = _fields(case["seed"], n, ctx.lane, k)
        arrays = fwd(k, scenes.set_fields(arrays, E, H), Hp)
    S = {k: v["poynting_flux"] for k, v in od.states(arrays).items()}
    ext = [hi[a] - lo[a] for a in range(3)]
    used = [0, 1, 2] if axes is None else sorted(set(axes))
    want = sum(S[f"face_{a}_{side}"][:, 0] for a in used for side in ("min", "max"))
    scale = max(sum(float(np.abs(S[f"face_{a}_{side}"]).max()) for a in range(3) for side in ("min", "max")), 1e-300)
    _classify_scene(ctx, spec, lo, hi, case["exact"])
    ctx.classify("axes=" + ("default" if axes is None else "".join(map(str, axes))),
                 "thin_axes=%d" % sum(e == 1 for e in ext))
    tol = ctx.tol(1e-12, 2e-5)
    ctx.check(S["c_out"].shape == (spec["steps"], 1), f"closed-surface record shape {S['c_out'].shape}")
    ctx.close(S["c_out"][:, 0], want, scale=scale, tol=tol, metric="closed_err",
              msg="ClosedSurfacePoyntingFluxDetector != signed sum of its face detectors ('+' on max faces, '-' on min faces)")
    ctx.close(S["c_in"][:, 0], -want, scale=scale, tol=tol, metric="closed_err",
              msg="ClosedSurfacePoyntingFluxDetector(orientation='inward') != -(signed sum of its face detectors)")
    ctx.nontrivial(float(np.abs(want).max()) > 0 and sum(e > 1 for e in ext) >= 2)


SUBS = [
    Sub(name="volume", body=volume_body, strategy=lambda ctx: volume_cases(ctx), quick=10, thorough=700,
        lanes=("f64", "f32"), f32_fraction=0.3, quick_shards=2,
        rule="Field/Phasor reduce == volume-weighted mean, Energy reduce == volume-weighted sum, inverse-time phasors "
             "subtract what forward ones add (9..11 detectors on one random box, 2 probed steps)"),
    Sub(name="plane_flux", body=plane_body, strategy=lambda ctx: plane_cases(ctx), quick=10, thorough=700,
        lanes=("f64", "f32"), f32_fraction=0.3, quick_shards=2,
        rule="8 PoyntingFluxDetectors + 2..4 PhasorPoyntingFluxDetectors on one slab differing in direction / "
             "keep_all_components / reduce_volume: area-weighted sum, negation, propagation component"),
    Sub(name="closed_flux", body=closed_body, strategy=lambda ctx: closed_cases(ctx), quick=10, thorough=700,
        lanes=("f64", "f32"), f32_fraction=0.3, quick_shards=2,
        rule="closed-surface detector (outward / inward / axes subsets) == signed sum of six face detectors"),
]

# Both keep_all_components=True placement crashes (time domain: fixed in /repo 0ec6ef4, phasor domain: 932ede1) are
# covered by plane_flux: every case places the time-domain variant, two thirds place the phasor variant.
KNOWN_CLASSES = {}
