"""C19 — ClosestIndex returns the index of the nearest allowed value, keeps the shape, passes gradients through.

Oracle (numpy float64, written from the property text and the class docstring):
  integer mode (mapping_from_inverse_permittivities=False):  idx = clip(nearest integer(x), 0, M-1)
  inverse mode (True, isotropic materials):  idx = argmin_m |x - 1/eps_m| with the materials numbered in ascending
      permittivity order (the order `compute_allowed_permittivities` documents: "sorted order")
  out.shape == x.shape;  d/dx sum(w * out(x)) == w  (straight-through estimator).
Exact ties are not generated (guard band), so the oracle index is unique.
"""

from __future__ import annotations

import numpy as np
from hypothesis import strategies as st

from pbt.engine import Sub

ID = "C19"
RULE = (
    "Hypothesis draws 2..5 materials (isotropic; in the integer mode also diagonally anisotropic) with well separated "
    "permittivities, inserted into the material dict in a drawn (non-sorted) order, a 3-D parameter shape with every "
    "axis in 1..6 (singleton axes anywhere), an rng seed for the bulk values (spread from below to above the allowed "
    "range) and a list of drawn special values (exact allowed values, integers, 0, far out of range, points just "
    "off the decision boundaries) written into drawn cells. Values closer than the guard band to a tie are moved "
    "onto the nearest allowed value. Non-trivial = at least two different expected indices occur and the last axis "
    "length is neither 1 nor the number of materials (so broadcasting accidents cannot hide). Distinct = sha1 of the "
    "case JSON."
)
ASSUMPTIONS = [
    "'index' means the position in ascending-permittivity order (compute_ordered_material_name_tuples); the "
    "material dict is deliberately built in another order",
    "inputs are the 3-D (Nx,Ny,Nz) arrays a Device hands to its transforms (matrix_voxel_grid_shape); other ranks "
    "are not generated",
    "exact ties (x.5 in the integer mode, midpoints between inverse permittivities) are excluded with a guard band "
    "of 1e-3 (integer mode) / 1e-4 (inverse mode); NaN/inf inputs are not generated; out-of-range values reach "
    "+-1e6 in the integer mode and +-50 in the inverse mode (float32 cannot resolve 1e-4 at 1e6)",
    "the inverse-permittivity mode is only claimed (and generated) for isotropic materials",
    "gradient pass-through is checked as jax.grad(sum(w*f(x))) == w with |err| <= 1e-12 (f64) / 1e-6 (f32)",
]

GUARD_INT = 1e-3
GUARD_INV = 1e-4


# ----------------------------------------------------------------------------------------------
# generators
# ----------------------------------------------------------------------------------------------
@st.composite
def _materials(draw, allow_diag):
    m = draw(st.integers(2, 5))
    eps0 = draw(st.sampled_from([1.0, 1.0, 1.44, 2.0, 2.25, 3.0]))
    eps = [eps0]
    for _ in range(m - 1):
        r = draw(st.sampled_from([1.1, 1.25, 1.5, 2.0, 2.5]))
        eps.append(round(eps[-1] * r, 4))
    diag = allow_diag and draw(st.booleans())
    mats = []
    for e in eps:
        if diag:
            f1 = draw(st.sampled_from([0.8, 1.0, 1.3]))
            f2 = draw(st.sampled_from([0.7, 1.0, 1.6]))
            mats.append([e, round(max(1.0, e * f1), 4), round(max(1.0, e * f2), 4)])
        else:
            mats.append(e)
    order = draw(st.permutations(list(range(m))))
    return {"eps": mats, "order": list(order), "diag": diag}


@st.composite
def _case(draw, mode):
    mats = draw(_materials(allow_diag=(mode == "int")))
    m = len(mats["eps"])
    shape = [draw(st.integers(1, 6)) for _ in range(3)]
    n = shape[0] * shape[1] * shape[2]
    kinds = ["allowed", "boundary+", "boundary-", "far+", "far-", "zero", "one"]
    specials = [
        [draw(st.integers(0, n - 1)), draw(st.sampled_from(kinds)), draw(st.integers(0, m - 1))]
        for _ in range(draw(st.integers(0, 6)))
    ]
    return {
        "mode": mode,
        "materials": mats,
        "shape": shape,
        "seed": draw(st.integers(0, 2**31 - 1)),
        "spread": draw(st.sampled_from(["in-range", "wide", "clustered"])),
        "specials": specials,
    }


def int_strategy(ctx):
    return _case("int")


def inv_strategy(ctx):
    return _case("inv")


# ----------------------------------------------------------------------------------------------
# helpers
# ----------------------------------------------------------------------------------------------
def _build(ctx, case):
    import fdtdx
    import jax.numpy as jnp
    from fdtdx.materials import Material
    from fdtdx.objects.device.parameters.discretization import ClosestIndex
    from fdtdx.typing import ParameterType

    dtype = jnp.float64 if ctx.f64 else jnp.float32
    cfg = fdtdx.SimulationConfig(time=100e-15, grid=fdtdx.UniformGrid(spacing=50e-9), backend="cpu", dtype=dtype)
    eps = case["materials"]["eps"]
    mats = {}
    for i in case["materials"]["order"]:
        e = eps[i]
        mats[f"mat{i}"] = Material(permittivity=tuple(e) if isinstance(e, list) else float(e))
    shape = tuple(case["shape"])
    t = ClosestIndex(mapping_from_inverse_permittivities=(case["mode"] == "inv"))
    t = t.init_module(
        config=cfg,
        materials=mats,
        matrix_voxel_grid_shape=shape,
        single_voxel_size=(50e-9, 50e-9, 50e-9),
        output_shape={"params": shape},
    )
    t = t.init_type({"params": ParameterType.CONTINUOUS})
    return t, dtype


def _allowed(case):
    """Allowed values in index order (float64)."""
    eps = case["materials"]["eps"]
    m = len(eps)
    if case["mode"] == "int":
        return np.arange(m, dtype=np.float64)
    first = np.array([e[0] if isinstance(e, list) else e for e in eps], dtype=np.float64)
    return 1.0 / np.sort(first)  # index = rank in ascending permittivity


def _values(case, np_dtype):
    """Input array (in the lane dtype) with no value inside the tie guard band."""
    allowed = _allowed(case)
    guard = GUARD_INT if case["mode"] == "int" else GUARD_INV
    rng = np.random.default_rng(case["seed"])
    shape = tuple(case["shape"])
    n = int(np.prod(shape))
    lo, hi = allowed.min(), allowed.max()
    span = hi - lo
    if case["spread"] == "in-range":
        x = rng.uniform(lo, hi, n)
    elif case["spread"] == "wide":
        x = rng.uniform(lo - 0.75 * span - 0.2, hi + 0.75 * span + 0.2, n)
    else:  # clustered around the allowed values
        x = allowed[rng.integers(0, len(allowed), n)] + rng.normal(0, 0.2 * span / len(allowed), n)
    # far out of range: the integer mode is exact for any magnitude; in the inverse mode |x - 1/eps| is formed in
    # the lane dtype, so the magnitude is kept where float32 still resolves the guard band (ulp(50) = 4e-6 << 1e-4)
    far = 1e6 if case["mode"] == "int" else 50.0
    srt = np.sort(allowed)
    mids = (srt[1:] + srt[:-1]) / 2
    for pos, kind, k in case["specials"]:
        if kind == "allowed":
            x[pos] = allowed[k]
        elif kind in ("boundary+", "boundary-"):
            mid = mids[k % len(mids)]
            x[pos] = mid + (3 * guard if kind == "boundary+" else -3 * guard)
        elif kind == "far+":
            x[pos] = hi + far
        elif kind == "far-":
            x[pos] = lo - far
        elif kind == "zero":
            x[pos] = 0.0
        else:
            x[pos] = 1.0
    x = x.astype(np_dtype).astype(np.float64)
    # construction instead of rejection: anything within the guard band of a tie goes onto the nearest allowed value
    d = np.abs(x[:, None] - allowed[None, :])
    ds = np.sort(d, axis=1)
    tie = (ds[:, 1] - ds[:, 0]) < 2 * guard
    x[tie] = allowed[np.argmin(d[tie], axis=1)]
    x = x.astype(np_dtype)
    return x.reshape(shape)


def _check(ctx, case):
    import jax
    import jax.numpy as jnp

    t, dtype = _build(ctx, case)
    np_dtype = np.float64 if ctx.f64 else np.float32
    x = _values(case, np_dtype)
    allowed = _allowed(case)
    m = len(allowed)
    x64 = x.astype(np.float64)
    # independent oracle: brute-force nearest allowed value
    dist = np.abs(x64[..., None] - allowed.reshape((1,) * x64.ndim + (m,)))
    expected = np.argmin(dist, axis=-1)
    ds = np.sort(dist, axis=-1)
    assert ((ds[..., 1] - ds[..., 0]) >= (GUARD_INT if case["mode"] == "int" else GUARD_INV)).all()

    depth = x.shape[-1]
    n_idx = len(np.unique(expected))
    ctx.classify(
        "mode=" + case["mode"],
        f"M={m}",
        "tier=" + ("diag" if case["materials"]["diag"] else "iso"),
        "depth=1" if depth == 1 else ("depth=M" if depth == m else "depth-other"),
        "singleton-axis" if 1 in x.shape else "no-singleton",
        "dict-sorted" if case["materials"]["order"] == sorted(case["materials"]["order"]) else "dict-unsorted",
        "out-of-range" if (x64.min() < allowed.min() or x64.max() > allowed.max()) else "in-range",
        f"specials={min(len(case['specials']), 3)}" + ("+" if len(case["specials"]) >= 3 else ""),
    )
    ctx.nontrivial(n_idx >= 2 and depth not in (1, m))

    # one jitted evaluation gives the value and the straight-through gradient (eager mode would compile ~13 tiny
    # kernels per new shape)
    w = np.random.default_rng(case["seed"] + 1).uniform(0.5, 2.0, x.shape) * np.where(
        np.random.default_rng(case["seed"] + 2).uniform(size=x.shape) < 0.5, -1.0, 1.0
    )
    xj = jnp.asarray(x, dtype=dtype)
    wj = jnp.asarray(w, dtype=dtype)

    def loss(a, ww):
        res = t({"params": a})
        return jnp.sum(ww * res["params"]), res

    (_, out), g = jax.jit(jax.value_and_grad(loss, has_aux=True))(xj, wj)
    ctx.check(set(out.keys()) == {"params"}, "output keys differ from input keys", observed=sorted(out.keys()))
    o = np.asarray(out["params"])
    ctx.check(
        o.shape == x.shape,
        f"output shape {o.shape} differs from input shape {x.shape}",
        observed=list(o.shape),
        expected=list(x.shape),
    )
    bad = np.abs(o.astype(np.float64) - expected) > 1e-6
    if bad.any():
        idx = tuple(int(i) for i in np.argwhere(bad)[0])
        ctx.check(
            False,
            f"{int(bad.sum())} of {bad.size} voxels do not get the nearest allowed index; first at {idx}: "
            f"x={x64[idx]!r}, allowed={allowed.tolist()}",
            observed=float(o[idx]),
            expected=int(expected[idx]),
            tolerance=1e-6,
        )

    # straight-through gradient
    ctx.close(np.asarray(g), np.asarray(wj), tol=ctx.tol(1e-12, 1e-6), scale=1.0,
              msg="gradient is not passed through unchanged", metric="grad_err")


SUBS = [
    Sub(name="integer", body=_check, strategy=int_strategy, quick=100, thorough=10000, lanes=("f64", "f32"),
        f32_fraction=0.25, rule="nearest integer clipped to [0, M-1]; isotropic and diagonal material sets"),
    Sub(name="inverse", body=_check, strategy=inv_strategy, quick=100, thorough=10000, lanes=("f64", "f32"),
        f32_fraction=0.25, rule="nearest inverse permittivity, isotropic material sets in non-sorted dict order"),
]


def _f2(case):
    # ClosestIndex(mapping_from_inverse_permittivities=True) with isotropic materials: (M,1) table not squeezed
    return case.get("mode") == "inv" and not case["materials"]["diag"]


KNOWN_CLASSES = {"F2": _f2}
