"""C38 — equivalent grid descriptions give identical simulations.

One scene is simulated with `fdtdx.run_fdtd` under several descriptions of the *same* equally spaced grid:

  uniform   UniformGrid(spacing=d)                                     (reference)
  quasi     QuasiUniformGrid(dx=d, dy=d, dz=d)
  rect0     explicit RectilinearGrid, edges = cumsum of n widths d starting at 0, objects positioned with
            RealCoordinateConstraints on the exact edge coordinates (scenes.build's "rect" kind)
  rectc     explicit RectilinearGrid, edges = -n d/2 + d*arange(n+1) (the centred convention of the policies),
            objects positioned with GridCoordinateConstraints
  realvol   UniformGrid(spacing=d) with the volume given by partial_real_shape = n*d instead of cell counts

Oracle (differential): final E, H, every detector record, the material arrays, dt and the number of steps agree
with the reference to 1e-12 (f64 lane) / 1e-4 (f32 lane) relative to the reference's magnitude.
"""

from __future__ import annotations

import numpy as np
from hypothesis import strategies as st

from pbt import scenes
from pbt.engine import Skip, Sub

ID = "C38"
RULE = (
    "Hypothesis draws a scene: base spacing d from a list that includes values without a short decimal expansion "
    "(1e-7/3, 4.7123456789e-8), even shape (interior 4..8 cells per axis plus PML thickness, rounded up to even), "
    "per-face boundaries from {none, PEC, PMC, PML(2..3), periodic pair, Bloch pair}, 0..2 material boxes "
    "(isotropic / diagonal, optionally lossy / magnetic; isotropic where a plane source cuts them), 1..2 sources "
    "(uniform plane, Gaussian plane, electric / magnetic dipole; CW / pulse / sampled profile; on/off switch), 1..2 "
    "detectors (field, energy, Poynting, phasor; switches), 10..30 steps, courant 0.5..0.99. Each case runs the "
    "UniformGrid reference, one of {QuasiUniformGrid (2/3), UniformGrid with a partial_real_shape volume (1/3)} and "
    "one of {explicit RectilinearGrid from 0, explicit centred RectilinearGrid}. Non-trivial = the reference run ends with "
    "non-zero fields (a source actually fired) so that the comparison is not 0 == 0; distinct = sha1 of the case."
)
ASSUMPTIONS = [
    "'up to round-off' is read as 1e-12 relative to max|reference| in float64 (probe: bit-identical or 1e-18) and "
    "1e-4 in float32 (explicit float64 edge lists are stored as float32 there; observed <= 2e-6)",
    "an explicit RectilinearGrid may start at 0 or be centred: the property speaks of equal spacings only, so a "
    "translation of the edge coordinates is part of 'equivalent'",
    "shapes are even on every axis because QuasiUniformGrid.resolve documents that it rejects odd cell counts",
    "objects are named explicitly and placed by cell indices / exact edge coordinates, never by centre snapping",
]

SPACINGS = [5e-8, 2.5e-8, 1e-7 / 3, 4.7123456789e-8, 1.3e-7, 2e-8]
VARIANTS = ("quasi", "rect0", "rectc", "realvol")


@st.composite
def case_strategy(draw, ctx):
    allow_bloch = draw(st.integers(0, 3)) == 0
    faces = draw(scenes.faces_strategy(kinds=("none", "pec", "pmc", "periodic", "pml"), pml_thickness=(2, 3),
                                       allow_bloch=allow_bloch))
    variants = [draw(st.sampled_from(["quasi", "realvol", "realvol"])), draw(st.sampled_from(["rect0", "rectc"]))]
    shape = []
    for ax in range(3):
        n = draw(st.integers(4, 8))
        for side in ("min", "max"):
            f = faces[f"{side}_{scenes.AXNAME[ax]}"]
            if f["kind"] == "pml":
                n += f["thickness"]
        # QuasiUniformGrid rejects odd cell counts; the other descriptions are compared on odd counts too
        shape.append(n + (n % 2) if variants[0] == "quasi" else n)
    d_spacing = draw(st.sampled_from(SPACINGS))
    if variants[0] == "realvol" and draw(st.booleans()):
        # a volume given by its physical length n*d: pick a (d, n) whose float quotient n*d/d lands one ulp BELOW n
        # (2.2e-8 with n = 7 or 14), where truncation and rounding of the cell count differ
        d_spacing = 2.2e-8
        free = [a for a in range(3) if all(faces[f"{sd}_{scenes.AXNAME[a]}"]["kind"] != "pml" for sd in ("min", "max"))]
        if free:
            shape[free[draw(st.integers(0, len(free) - 1))]] = 7
    steps = draw(st.integers(10, 30))
    has_bloch = any(f["kind"] == "bloch" for f in faces.values())
    interior = scenes.interior_range(shape, faces)
    nsrc = draw(st.integers(1, 2))
    sources = []
    for i in range(nsrc):
        s = draw(scenes.source_strategy(shape, steps, faces, name=f"src{i}", interior=interior))
        if i == 0:
            s["switch"] = {}  # the first source always fires, so the comparison is not 0 == 0
        sources.append(s)
    planes = [(s["axis"], s["pos"]) for s in sources if s["type"] in ("uniform_plane", "gaussian_plane")]
    objects = []
    for i in range(draw(st.integers(0, 2))):
        lo, hi = draw(scenes.box_strategy(shape))
        cut = any(lo[a] - 1 <= p <= hi[a] for a, p in planes)
        mat = draw(scenes.material_strategy(tiers=("iso",) if (cut or planes) else ("iso", "diag"), lossy=True))
        objects.append({"name": f"box{i}", "lo": lo, "hi": hi, "material": mat, "order": draw(st.integers(0, 2))})
    detectors = [draw(scenes.detector_strategy(shape, steps, name=f"det{i}")) for i in range(draw(st.integers(1, 2)))]
    for dd in detectors:  # a phasor detector that never records is rejected by fdtdx (documented ValueError)
        if dd["type"] == "phasor" and not scenes.switch_on_steps(dd["switch"], steps):
            dd["switch"] = {}
    spec = {
        "d": d_spacing,
        "shape": shape,
        "steps": steps,
        "courant": draw(st.sampled_from([0.5, 0.8, 0.99])),
        "faces": faces,
        "background": {"eps": draw(st.sampled_from([1.0, 1.5, 2.25]))},
        "objects": objects,
        "sources": sources,
        "detectors": detectors,
    }
    if has_bloch:
        spec["bloch_phase"] = [draw(st.sampled_from([0.0, 0.7, 1.9, -2.4])) for _ in range(3)]
    # half of the scenes also contain a box positioned the *other* documented way: centre-relative
    # partial_real_position + partial_real_shape (no constraint) - its placement depends on where each grid
    # description puts the domain centre
    if draw(st.booleans()):
        # the box's cell-count parity matches the axis' parity, so its edges fall on grid edges (an even box centred in
        # an odd axis would sit on a half-cell tie that round-off resolves differently per description - undefined)
        size = [2 * draw(st.integers(1, max(1, shape[a] // 2 - 1))) + (shape[a] % 2) for a in range(3)]
        off = [draw(st.integers(-(shape[a] - size[a]) // 2, (shape[a] - size[a]) // 2)) for a in range(3)]
        spec["rp_box"] = {"size": size, "offset": off, "eps": draw(st.sampled_from([1.7, 3.0]))}
    # and, in half of the scenes, a box placed by ABSOLUTE real coordinates (RealCoordinateConstraint): in a policy grid
    # these refer to the documented origin (domain centred on 0), in the explicit grids to their own edge arrays
    # the policy grids' documented `center` (default 0): a third of the scenes shift the whole domain; every description
    # is shifted alike (explicit grids by construction of their edge arrays)
    if draw(st.integers(0, 2)) > 0:
        spec["center"] = [draw(st.sampled_from([3.0, -7.5, 40.0, -1.0])) * spec["d"] for _ in range(3)]
    if draw(st.integers(0, 3)) > 0:
        lo, hi = draw(scenes.box_strategy(shape))
        spec["abs_box"] = {"lo": lo, "hi": hi, "eps": draw(st.sampled_from([2.2, 4.0]))}
    return {"scene": spec, "variants": variants}


def _build(spec, lane, variant):
    """place_objects + apply_params for one grid description of the scene."""
    import fdtdx
    import jax

    shape = spec["shape"]
    d = spec["d"]
    s = dict(spec)
    extra = None
    if variant in ("uniform", "realvol"):
        s["grid"] = {"kind": "uniform"}
    elif variant == "quasi":
        s["grid"] = {"kind": "quasi"}
    elif variant == "rect0":
        s["grid"] = {"kind": "rect", "widths": [[1.0] * n for n in shape]}
    elif variant == "rectc":
        s["grid"] = {"kind": "uniform"}  # index-space constraints; the grid itself is overridden below
        cen = spec.get("center", [0.0, 0.0, 0.0])
        ed = [cen[a] + (-n / 2.0) * d + d * np.arange(n + 1, dtype=np.float64) for a, n in enumerate(shape)]
        extra = {"grid": fdtdx.RectilinearGrid(x_edges=ed[0], y_edges=ed[1], z_edges=ed[2])}
    else:
        raise ValueError(variant)
    cfg = scenes.make_config(s, lane, extra=extra)
    # Absolute times (switch windows, sampled-profile spacing) are derived from ONE config for every description:
    # SimulationConfig.time_step_duration of an unresolved UniformGrid differs by ~1e-7 from the resolved value when
    # the spacing has more than 14 decimals, and a scene whose times differ is not the same scene.
    ref = dict(spec)
    ref["grid"] = {"kind": "uniform"}
    objs, cons, vol = scenes.build_objects(s, lane, scenes.make_config(ref, lane))
    if spec.get("abs_box"):
        ab = spec["abs_box"]
        # edge i of axis a: policy grids and the centred explicit grid are centred on 0, the rect0 grid starts at 0
        cen = spec.get("center", [0.0, 0.0, 0.0])
        org = [0.0 if variant == "rect0" else cen[a] - shape[a] * d / 2.0 for a in range(3)]
        box = fdtdx.UniformMaterialObject(name="absbox", material=fdtdx.Material(permittivity=ab["eps"]), placement_order=6)
        objs.append(box)
        cons.append(fdtdx.RealCoordinateConstraint(
            object="absbox", axes=(0, 1, 2, 0, 1, 2), sides=("-", "-", "-", "+", "+", "+"),
            coordinates=tuple(org[a] + ab["lo"][a] * d for a in range(3)) + tuple(org[a] + ab["hi"][a] * d for a in range(3))))
    if spec.get("rp_box"):
        rb = spec["rp_box"]
        objs.append(fdtdx.UniformMaterialObject(
            name="rpbox", material=fdtdx.Material(permittivity=rb["eps"]), placement_order=5,
            partial_real_shape=tuple(float(n * d) for n in rb["size"]),
            partial_real_position=tuple(float(o * d) for o in rb["offset"])))
    if variant == "realvol":
        vol2 = fdtdx.SimulationVolume(partial_real_shape=tuple(n * d for n in shape),
                                      material=scenes._mat(spec.get("background", {})), name="volume")
        objs[0] = vol2
    key = jax.random.PRNGKey(0)
    objects, arrays, params, config, _ = fdtdx.place_objects(object_list=objs, config=cfg, constraints=cons, key=key)
    arrays, objects, _ = fdtdx.apply_params(arrays, objects, params, key)
    return objects, arrays, config, key


def _run(spec, lane, variant):
    import fdtdx

    objects, arrays, config, key = _build(spec, lane, variant)
    _, out = fdtdx.run_fdtd(arrays=arrays, objects=objects, config=config, key=key, show_progress=False)
    return objects, out, config


def _records(arrays):
    rec = {}
    for name in sorted(arrays.detector_states):
        for k in sorted(arrays.detector_states[name]):
            rec[f"{name}.{k}"] = np.asarray(arrays.detector_states[name][k])
    return rec


def _materials(arrays):
    out = {}
    for k in ("inv_permittivities", "inv_permeabilities", "electric_conductivity", "magnetic_conductivity"):
        v = getattr(arrays, k)
        if v is not None:
            out[k] = np.asarray(v)
    return out


def body(ctx, case):
    spec = case["scene"]
    lane = ctx.lane
    tol = ctx.tol(1e-12, 1e-4)
    ref_objs, ref, ref_cfg = _run(spec, lane, "uniform")
    E0, H0 = np.asarray(ref.fields.E), np.asarray(ref.fields.H)
    rec0 = _records(ref)
    mat0 = _materials(ref)
    slices0 = {o.name: o.grid_slice_tuple for o in ref_objs.objects}
    if not (np.isfinite(E0).all() and np.isfinite(H0).all()):
        raise Skip()  # an unstable reference scene says nothing about grid descriptions
    kinds = sorted({f["kind"] for f in spec["faces"].values()})
    ctx.classify(*("face=" + k for k in kinds), *("src=" + s["type"] for s in spec["sources"]),
                 *("det=" + d["type"] for d in spec["detectors"]), *("variant=" + v for v in case["variants"]),
                 "d=%.4g" % spec["d"], "complex" if np.iscomplexobj(E0) else "real")
    live = float(np.abs(E0).max()) > 0 and float(np.abs(H0).max()) > 0
    rec_live = any(float(np.abs(v).max()) > 0 for v in rec0.values() if v.size)
    ctx.classify("fields-nonzero" if live else "fields-zero", "records-nonzero" if rec_live else "records-zero")
    ctx.nontrivial(live)
    for variant in case["variants"]:
        objs, out, cfg = _run(spec, lane, variant)
        tag = f"{variant} vs uniform: "
        ctx.check(cfg.time_steps_total == ref_cfg.time_steps_total, tag + "number of time steps differs",
                  observed=cfg.time_steps_total, expected=ref_cfg.time_steps_total)
        ctx.close(cfg.time_step_duration, ref_cfg.time_step_duration, tol=tol, msg=tag + "time step duration differs",
                  metric="dt_err")
        sl = {o.name: o.grid_slice_tuple for o in objs.objects}
        ctx.check(sl == slices0, tag + "objects placed on different cells",
                  observed={k: v for k, v in sl.items() if slices0.get(k) != v},
                  expected={k: v for k, v in slices0.items() if sl.get(k) != v})
        mats = _materials(out)
        ctx.check(sorted(mats) == sorted(mat0), tag + "different set of material arrays", observed=sorted(mats),
                  expected=sorted(mat0))
        for k in mat0:
            ctx.close(mats[k], mat0[k], tol=tol, msg=tag + f"{k} differs", metric="material_err")
        ctx.close(np.asarray(out.fields.E), E0, tol=tol, msg=tag + "final E differs", metric="E_err")
        ctx.close(np.asarray(out.fields.H), H0, tol=tol, msg=tag + "final H differs", metric="H_err")
        rec = _records(out)
        ctx.check(sorted(rec) == sorted(rec0), tag + "different detector records", observed=sorted(rec),
                  expected=sorted(rec0))
        for k in rec0:
            ctx.close(rec[k], rec0[k], tol=tol, msg=tag + f"detector record {k} differs", metric="record_err")


SUBS = [
    Sub(name="grid_descriptions", body=body, strategy=lambda ctx: case_strategy(ctx), quick=12, thorough=360,
        lanes=("f64", "f32"), f32_fraction=0.25, quick_shards=2,
        rule="one random scene under UniformGrid / QuasiUniformGrid / explicit RectilinearGrid descriptions"),
]

KNOWN_CLASSES = {}
