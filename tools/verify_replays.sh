#!/bin/bash
# For every fixed finding: revert its fix commit in a scratch copy and check that its replay(s) fail there (and pass on /repo).
cd /verif
python3 - <<'PY' > /tmp/scratch/replay_plan.txt
import json, glob, os
k = json.load(open('/verif/known_findings.json'))
for e in k['findings']:
    if e['status'] != 'fixed': continue
    fid = e['id']
    files = sorted(glob.glob(f"/verif/replays/*/{fid}-*.json"))
    for f in files:
        prop = f.split('/')[-2]
        print(fid, e['commit'], prop, f)
PY
while read fid commit prop f; do
  git -C /repo diff $commit $commit~1 -- src > /tmp/scratch/rev_$fid.diff
  clean=$(./check $prop --replay $f 2>&1 | head -1 | cut -c1-60)
  rev=$(tools/with_patch.sh /tmp/scratch/rev_$fid.diff -- ./check $prop --replay $f 2>&1 | head -1 | cut -c1-60)
  echo "$fid $commit $prop $(basename $f) :: clean: $clean :: reverted: $rev"
done < /tmp/scratch/replay_plan.txt
