#!/bin/bash
# tools/with_patch.sh <patch.diff|-e 'sed-expr' file> -- <command...>
# Runs <command> against a scratch copy of /repo/src with the patch applied (VERIF_REPO_SRC), then removes it.
# /repo itself is never touched. Evidence files are not written (checks should be passed --no-evidence).
set -u
D=$(mktemp -d /tmp/fdtdx-mut-XXXXXX)
trap 'rm -rf "$D"' EXIT
mkdir -p "$D/repo"
cp -r /repo/src "$D/repo/src"
if [ "$1" = "-e" ]; then
  sed -i -E "$2" "$D/repo/src/fdtdx/$3" || exit 3
  if diff -q "$D/repo/src/fdtdx/$3" "/repo/src/fdtdx/$3" >/dev/null; then echo "sed changed nothing"; exit 3; fi
  shift 3
else
  (cd "$D/repo" && patch -p1 --quiet < "$1") || { echo "patch failed"; exit 3; }
  shift 1
fi
[ "$1" = "--" ] && shift
VERIF_REPO_SRC="$D/repo/src" "$@"
