"""C01 — discrete Yee energy is conserved in closed source-free domains; electric loss only dissipates.

Oracle (DESIGN §9): W_k = sum V_E eps |E_k|^2 + sum V_H mu Re(H_k conj(H_{k-1})) with Yee primal/dual
volumes derived from the grid edges alone.  Lossless: |W_k / W_1 - 1| <= tol for every k; with sigma_E >= 0:
W_{k+1} <= W_k + tol*W_1.
"""

from __future__ import annotations

import numpy as np
from hypothesis import strategies as st

from pbt import scenes
from pbt.engine import Skip, Sub

ID = "C01"
RULE = (
    "Hypothesis draws a closed source-free scene: shape 3..9 per axis, each axis either a periodic/Bloch pair "
    "or two independent faces from {zero halo, PEC, PMC}; uniform or rectilinear grid (cell widths from "
    "{0.6..1.6}*d); per-cell random positive eps and mu (isotropic or diagonal, values in [1,12]) written into the "
    "material arrays (one case in three draws eps from [0.3,12], i.e. also below 1, at courant factor 0.5); optional per-cell sigma_E >= 0; wall-consistent random E,H (dense gaussian from a drawn seed "
    "and/or drawn impulses); 4..30 forward steps. Non-trivial = initial energy > 0 and (>= 2 distinct boundary "
    "kinds, or a non-uniform grid, or diagonal anisotropy, or loss). Distinct = sha1 of the case JSON."
)
ASSUMPTIONS = [
    "cell-volume weighting is read as Yee primal/dual volumes (dual width = mean of adjacent widths, halo cell = "
    "first cell's width); plain cell volumes are not conserved on stretched grids",
    "float64 lane tolerance 1e-9 relative, float32 lane 2e-4 relative (per-step 5e-5 for the dissipation claim)",
    "the state pairs E_k with H half-steps k and k-1",
]


@st.composite
def case_strategy(draw, ctx):
    shape = [draw(st.integers(3, 9)) for _ in range(3)]
    allow_bloch = draw(st.integers(0, 3)) == 0
    faces = draw(scenes.faces_strategy(kinds=("none", "pec", "pmc", "periodic"), allow_bloch=allow_bloch,
                                       mixed_periodic=True))
    has_bloch = any(f["kind"] == "bloch" for f in faces.values())
    grid = draw(scenes.grid_strategy(shape, faces))
    tier = draw(st.sampled_from(["iso", "diag"]))
    mu_tier = draw(st.sampled_from(["none", "iso", "diag"]))
    spec = {
        "shape": shape,
        "steps": draw(st.integers(4, 30)),
        "courant": draw(st.sampled_from([0.5, 0.8, 0.99])),
        "grid": grid,
        "faces": faces,
        "background": {"eps": 2.0 if tier == "iso" else [2.0, 3.0, 4.0]},
    }
    if mu_tier == "iso":
        spec["background"]["mu"] = 1.5
    elif mu_tier == "diag":
        spec["background"]["mu"] = [1.5, 2.0, 1.2]
    if has_bloch:
        spec["bloch_phase"] = [draw(st.sampled_from([0.0, 0.7, 1.9, -2.4, 3.14159])) for _ in range(3)]
    lossy = draw(st.integers(0, 2)) == 0
    sig_tier = None
    if lossy:
        sig_tier = draw(st.sampled_from(["iso", "diag"]))
        spec["background"]["sigE"] = 1.0 if sig_tier == "iso" else [1.0, 2.0, 3.0]
    n_imp = draw(st.integers(0, 3))
    imp = [
        [draw(st.integers(0, 5)), draw(st.integers(0, 8)), draw(st.integers(0, 8)), draw(st.integers(0, 8)),
         draw(st.sampled_from([1.0, -2.0, 0.5]))]
        for _ in range(n_imp)
    ]
    dense = draw(st.sampled_from([1, 1, 0])) if n_imp else 1
    eps_lo = draw(st.sampled_from([1.0, 1.0, 0.3]))
    if eps_lo < 1.0:
        spec["courant"] = 0.5  # keeps eps*mu >= 0.3 inside the CFL limit (an unstable run is not a conservation test)
    return {
        "scene": spec,
        "field_seed": draw(st.integers(0, 2**31 - 1)),
        "mat_seed": draw(st.integers(0, 2**31 - 1)),
        "percell": draw(st.booleans()),
        "impulses": imp,
        "dense": dense,
        "loss_level": draw(st.sampled_from([0.02, 0.2, 0.45])) if lossy else 0.0,
        # "random positive material tensors": relative permittivities / permeabilities below 1 are positive too
        "eps_lo": eps_lo,
    }


def yee_volumes(w):
    def dual(x):
        d = np.empty_like(x)
        d[0] = x[0]
        d[1:] = (x[1:] + x[:-1]) / 2
        return d

    wd = [dual(x) for x in w]

    def vol(a, b, c):
        return a[:, None, None] * b[None, :, None] * c[None, None, :]

    VE = np.stack([vol(w[0], wd[1], wd[2]), vol(wd[0], w[1], wd[2]), vol(wd[0], wd[1], w[2])])
    VH = np.stack([vol(wd[0], w[1], w[2]), vol(w[0], wd[1], w[2]), vol(w[0], w[1], wd[2])])
    return VE, VH


def body(ctx, case):
    import jax.numpy as jnp
    from fdtdx.constants import eta0

    spec = case["scene"]
    shape = tuple(spec["shape"])
    b = scenes.build(spec, ctx.lane)
    arrays = b.arrays
    rng = np.random.default_rng(case["mat_seed"])
    if case["percell"]:
        ie = arrays.inv_permittivities
        lo = case.get("eps_lo", 1.0)
        arrays = arrays.aset("inv_permittivities", jnp.asarray(1.0 / rng.uniform(lo, 12, ie.shape), dtype=ie.dtype))
        im = arrays.inv_permeabilities
        if hasattr(im, "shape") and getattr(im, "ndim", 0) == 4:
            arrays = arrays.aset("inv_permeabilities", jnp.asarray(1.0 / rng.uniform(1, 12, im.shape), dtype=im.dtype))
    lossy = arrays.electric_conductivity is not None
    if lossy:
        sg = arrays.electric_conductivity
        inv_eps = np.asarray(arrays.inv_permittivities, dtype=np.float64)
        a = rng.uniform(0, case["loss_level"], sg.shape)
        if case["percell"]:
            a = a * (rng.uniform(0, 1, sg.shape) > 0.3)  # some lossless cells too
        c = b.config.courant_number
        ie_b = np.broadcast_to(inv_eps, np.broadcast_shapes(inv_eps.shape, sg.shape)) if inv_eps.shape[0] != sg.shape[0] else inv_eps
        if ie_b.shape[0] != sg.shape[0]:
            ie_b = np.broadcast_to(inv_eps.mean(axis=0, keepdims=True), sg.shape)
        sig = a * 2.0 / (c * eta0 * ie_b)
        arrays = arrays.aset("electric_conductivity", jnp.asarray(sig, dtype=sg.dtype))

    cplx = np.iscomplexobj(np.asarray(arrays.fields.E))
    E0 = scenes.random_field(case["field_seed"], shape, cplx, [i for i in case["impulses"] if i[0] < 3], case["dense"])
    H0 = scenes.random_field(case["field_seed"] + 1, shape, cplx,
                             [[i[0] - 3, *i[1:]] for i in case["impulses"] if i[0] >= 3], case["dense"])
    arrays = scenes.set_fields(arrays, E0, H0)
    arrays = scenes.project_walls(arrays, b.objects)

    w = scenes.cell_widths(b)
    w = [x / x.mean() for x in w]
    VE, VH = yee_volumes(w)
    eps = 1.0 / np.asarray(arrays.inv_permittivities, dtype=np.float64)
    im = arrays.inv_permeabilities
    mu = 1.0 / np.asarray(im, dtype=np.float64) if hasattr(im, "shape") else np.asarray(1.0 / float(im))

    state = (jnp.asarray(0, dtype=jnp.int32), arrays)
    Es, Hs = [], []
    for _ in range(spec["steps"]):
        Es.append(np.asarray(state[1].fields.E))
        Hs.append(np.asarray(state[1].fields.H))
        state = scenes.step(b, state)
    W = np.array([
        float((VE * eps * np.abs(Es[k]) ** 2).sum() + (VH * mu * (Hs[k] * np.conj(Hs[k - 1])).real).sum())
        for k in range(1, len(Es))
    ])
    kinds = sorted({f["kind"] for f in spec["faces"].values()})
    nonuni = spec["grid"]["kind"] == "rect"
    diag = eps.shape[0] == 3 or (mu.ndim == 4 and mu.shape[0] == 3)
    ctx.classify("grid=" + spec["grid"]["kind"], "lossy" if lossy else "lossless", "complex" if cplx else "real",
                 "percell" if case["percell"] else "uniform-material", "tier=" + ("diag" if diag else "iso"),
                 *("face=" + k for k in kinds))
    if not np.isfinite(W).all():
        ctx.check(False, "non-finite energy", observed=W.tolist())
    if not (abs(W[0]) > 1e-12):
        raise Skip()
    ctx.nontrivial(len(kinds) >= 2 or nonuni or diag or lossy)
    if not lossy:
        drift = np.abs(W / W[0] - 1.0)
        ctx.metric("energy_drift", drift.max())
        tol = ctx.tol(1e-9, 2e-4)
        k = int(np.argmax(drift))
        ctx.check(drift.max() <= tol, f"lossless energy drifts: |W_{k + 1}/W_1 - 1| = {drift.max():.3e} > {tol:.0e}",
                  observed=W.tolist(), expected="constant", tolerance=tol)
    else:
        inc = np.diff(W) / abs(W[0])
        ctx.metric("energy_increase", inc.max() if inc.size else 0.0)
        tol = ctx.tol(1e-9, 5e-5)
        k = int(np.argmax(inc)) if inc.size else 0
        ctx.check((inc <= tol).all(), f"energy increases with sigma_E >= 0: W_{k + 2}-W_{k + 1} = {inc.max():.3e}*W_1",
                  observed=W.tolist(), expected="non-increasing", tolerance=tol)
        # and it must actually dissipate when loss is present on energised cells (guards a dead loss term)
        ctx.classify("dissipated" if W[-1] < W[0] * (1 - 1e-6) else "loss-without-dissipation")


SUBS = [
    Sub(name="energy", body=body, strategy=lambda ctx: case_strategy(ctx), quick=48, thorough=2400,
        lanes=("f64", "f32"), f32_fraction=0.25, quick_shards=2,
        rule="closed random scene, energy invariant over the step history"),
]
