"""C20 — TanhProjection / SubpixelSmoothedProjection: range, monotonicity, fixed points, limits, finite gradients.

All oracles are invariants stated in the property text, evaluated in numpy float64 on the transform's output:
  tanh:      x in [0,1] -> y in [0,1];  y non-decreasing in x;  f(0)=0, f(1)=1 for 0<eta<1;
             beta=0: y == clip(x,0,1);  beta=inf: y == [x>eta] for |x-eta| > 1e-6;
             d(sum w*y)/dx finite for every beta in [0,inf], eta in [0,1].
  smoothed:  finite output and finite d/dx for every beta, eta;  equals the plain projection of the same input in
             cells without an interface, i.e. (docstring / Hammond 2025) where the first-order distance of the level
             set rho=eta from the cell centre, |eta-rho|/|grad rho|, is >= R = 0.55 voxel (or grad rho == 0).
d/dbeta is not claimed by the property and not checked.
"""

from __future__ import annotations

import numpy as np
from hypothesis import strategies as st

from pbt.engine import Sub

ID = "C20"
RULE = (
    "Hypothesis draws beta from {0, inf} (half of the cases), log-uniform [1e-3,1e6] or the extremes "
    "{1e-30,1e-12,1e12,1e30}; the threshold eta from {0, 1, 1e-6, 1-1e-6} or uniform (0,1); beta is passed either as "
    "a Python float or as a 0-d array. tanh: a 3-D array (shape from a menu of six) of seeded uniform values on [0,1] (or "
    "[-0.25,1.25]) with exact 0 and 1 planted plus drawn special cells (eta, the floats next to eta, eta+-1e-3, "
    "out-of-range). smoothed: a 2-D design (2..8 per axis from a menu of four shapes, singleton axis at a drawn position, drawn voxel size) of "
    "kind smooth-wave-through-eta / random / constant / binary / dust (uniform*1e-12..1e-160, alone or beside a wave) / ramp / tail (Gaussian bump decaying through every decade to the denormal range). "
    "Non-trivial = beta in {0,inf} or eta in {0,1} or (smoothed) at least one interface cell and one interface-free "
    "cell are present. Distinct = sha1 of the case JSON."
)
ASSUMPTIONS = [
    "range / fixed-point-1 tolerance is base + 4*eps_lane*beta (base 1e-9 f64, 1e-5 f32): the projection has slope "
    "up to beta, so representation error of x and eta in the lane dtype is amplified by beta (observed: float32, "
    "beta=1e6, eta=0.999999 gives f(1)=1.003); for beta*eps > 1e-2 the range claim is therefore only checked loosely",
    "monotonicity slack 1e-12 (f64) / 5e-6 (f32: XLA's float32 tanh is accurate to a few ulp, the quotient of two "
    "such sums can dip by ~1e-6) on outputs sorted by input",
    "'away from the threshold' at beta=inf means |x-eta| > 1e-6",
    "'finite gradients' is read as d/d(design array) (the gradient the double-where guards protect); d/dbeta is not "
    "claimed; finite beta is limited to [1e-30, 1e30]",
    "'cell without an interface' follows the transform's own documentation: |eta-rho| >= 0.55*|grad rho| with "
    "numpy's second-order central / one-sided edge differences, or grad rho == 0; cells within a relative guard "
    "band (1e-9 f64, 1e-3 f32) of that boundary are not compared",
    "the plain projection the smoothed one is compared with is fdtdx.TanhProjection on the same input (itself "
    "checked by the tanh sub-check)",
]

ETA_EDGE = [0.0, 1.0, 1e-6, 1.0 - 1e-6]
# The transforms are evaluated eagerly (op by op, like an un-jitted apply_params); jax caches the compiled
# primitives per shape, so shapes come from a small menu (the projections are element-wise / 3x3-stencil maps;
# shape generality is not what this property is about). Random shapes would cost a 1-3 s XLA compile per case.
TANH_SHAPES = [(1, 1, 8), (6, 1, 1), (2, 3, 1), (1, 4, 4), (3, 2, 4), (5, 1, 5)]
SMOOTHED_SHAPES = [(2, 2), (2, 7), (5, 3), (6, 8)]


# ----------------------------------------------------------------------------------------------
# generators
# ----------------------------------------------------------------------------------------------
@st.composite
def _beta(draw):
    k = draw(st.sampled_from(["zero", "inf", "zero", "inf", "log", "log", "log", "extreme"]))
    if k == "zero":
        return "0.0"
    if k == "inf":
        return "inf"
    if k == "log":
        return repr(float(10.0 ** (draw(st.integers(-300, 600)) / 100.0)))
    return draw(st.sampled_from(["1e-30", "1e-12", "1e12", "1e30"]))


@st.composite
def _eta(draw):
    if draw(st.integers(0, 4)) < 2:
        return draw(st.sampled_from(ETA_EDGE))
    return draw(st.floats(0.01, 0.99, allow_nan=False))


@st.composite
def tanh_case(draw):
    shape = list(draw(st.sampled_from(TANH_SHAPES)))
    n = shape[0] * shape[1] * shape[2]
    kinds = ["eta", "eta_next", "eta_prev", "eta+1e-3", "eta-1e-3", "zero", "one", "below", "above"]
    specials = [[draw(st.integers(0, n - 1)), draw(st.sampled_from(kinds))] for _ in range(draw(st.integers(0, 6)))]
    return {
        "shape": shape,
        "seed": draw(st.integers(0, 2**31 - 1)),
        "beta": draw(_beta()),
        "eta": draw(_eta()),
        "outside": draw(st.booleans()),
        "specials": specials,
        "beta_as_array": draw(st.booleans()),
    }


@st.composite
def smoothed_case(draw):
    n, m = draw(st.sampled_from(SMOOTHED_SHAPES))
    return {
        "n": n,
        "m": m,
        "vaxis": draw(st.integers(0, 2)),
        "voxel_nm": draw(st.sampled_from([1.0, 20.0, 50.0, 330.0, 1000.0, 2500.0, 8000.0])),
        "voxel_other_nm": draw(st.sampled_from([20.0, 50.0, 75.0])),
        "kind": draw(st.sampled_from(["wave", "wave", "wave", "random", "constant", "binary", "dust", "dust",
                                 "wave+dust", "ramp", "tail", "tail"])),
        "tail_rate": draw(st.sampled_from([0.3, 0.5, 1.0, 3.0, 8.0])),
        "amp": draw(st.sampled_from([0.05, 0.2, 0.45])),
        "noise_exp": draw(st.sampled_from([12, 15, 20, 23, 26, 80, 100, 120, 150, 160])),
        "seed": draw(st.integers(0, 2**31 - 1)),
        "beta": draw(_beta()),
        "eta": draw(_eta()),
        "beta_as_array": draw(st.booleans()),
    }


# ----------------------------------------------------------------------------------------------
# helpers
# ----------------------------------------------------------------------------------------------
def _init(ctx, cls, eta, shape, voxel):
    import fdtdx
    import jax.numpy as jnp
    from fdtdx.materials import Material
    from fdtdx.typing import ParameterType

    dtype = jnp.float64 if ctx.f64 else jnp.float32
    cfg = fdtdx.SimulationConfig(time=100e-15, grid=fdtdx.UniformGrid(spacing=50e-9), backend="cpu", dtype=dtype)
    mats = {"air": Material(permittivity=1.0), "si": Material(permittivity=12.25)}
    t = cls(projection_midpoint=eta)
    t = t.init_module(config=cfg, materials=mats, matrix_voxel_grid_shape=tuple(shape),
                      single_voxel_size=tuple(voxel), output_shape={"params": tuple(shape)})
    t = t.init_type({"params": ParameterType.CONTINUOUS})
    return t, dtype


def _value_and_grad(t, x, w, beta, as_array, dtype):
    """y = t(x; beta) and d(sum w*y)/dx, evaluated eagerly; beta a Python float or a 0-d array of the lane dtype."""
    import jax
    import jax.numpy as jnp

    xj = jnp.asarray(x, dtype=dtype)
    wj = jnp.asarray(w, dtype=dtype)
    b = jnp.asarray(beta, dtype=dtype) if as_array else beta
    y, vjp = jax.vjp(lambda a: t({"params": a}, beta=b)["params"], xj)
    (g,) = vjp(wj)
    return np.asarray(y), np.asarray(g)


def _value(t, x, beta, as_array, dtype):
    import jax.numpy as jnp

    b = jnp.asarray(beta, dtype=dtype) if as_array else beta
    return np.asarray(t({"params": jnp.asarray(x, dtype=dtype)}, beta=b)["params"])


def _weights(seed, shape):
    r = np.random.default_rng(seed + 7)
    return r.uniform(0.5, 2.0, shape) * np.where(r.uniform(size=shape) < 0.5, -1.0, 1.0)


def _labels(beta, eta):
    if beta == 0:
        bl = "beta=0"
    elif np.isinf(beta):
        bl = "beta=inf"
    elif beta < 1e-3 or beta > 1e6:
        bl = "beta=extreme"
    else:
        bl = "beta=1e%+d" % int(np.floor(np.log10(beta)) // 3 * 3)
    if eta in (0.0, 1.0):
        el = "eta=endpoint"
    elif eta in (1e-6, 1.0 - 1e-6):
        el = "eta=near-endpoint"
    else:
        el = "eta=interior"
    return bl, el


# ----------------------------------------------------------------------------------------------
# tanh projection
# ----------------------------------------------------------------------------------------------
def tanh_body(ctx, case):
    from fdtdx.objects.device.parameters.projection import TanhProjection

    np_dtype = np.float64 if ctx.f64 else np.float32
    eps_lane = float(np.finfo(np_dtype).eps)
    beta = float(case["beta"])
    eta = float(case["eta"])
    shape = tuple(case["shape"])
    n = int(np.prod(shape))
    rng = np.random.default_rng(case["seed"])
    x = rng.uniform(-0.25, 1.25, n) if case["outside"] else rng.uniform(0.0, 1.0, n)
    eta_l = np_dtype(eta)
    for pos, kind in case["specials"]:
        x[pos] = {
            "eta": eta,
            "eta_next": float(np.nextafter(eta_l, np_dtype(2))),
            "eta_prev": float(np.nextafter(eta_l, np_dtype(-1))),
            "eta+1e-3": eta + 1e-3,
            "eta-1e-3": eta - 1e-3,
            "zero": 0.0,
            "one": 1.0,
            "below": -0.1,
            "above": 1.1,
        }[kind]
    x[0], x[1] = 0.0, 1.0
    x = x.astype(np_dtype).reshape(shape)
    x64 = x.astype(np.float64)

    t, dtype = _init(ctx, TanhProjection, eta, shape, (50e-9, 50e-9, 50e-9))
    y, g = _value_and_grad(t, x, _weights(case["seed"], shape), beta, case["beta_as_array"], dtype)
    y = y.astype(np.float64)

    bl, el = _labels(beta, eta)
    ctx.classify(bl, el, "x-outside" if case["outside"] else "x-in-[0,1]",
                 "array-beta" if case["beta_as_array"] else "float-beta",
                 "x==eta-present" if (x64 == float(eta_l)).any() else "no-x==eta")
    ctx.nontrivial(beta == 0 or np.isinf(beta) or eta in (0.0, 1.0))

    ctx.check(y.shape == x.shape, f"output shape {y.shape} != input shape {x.shape}", list(y.shape), list(x.shape))
    ctx.check(np.isfinite(y).all(), f"non-finite output (beta={beta}, eta={eta})",
              observed=y.ravel()[~np.isfinite(y.ravel())][:3].tolist())
    ctx.check(np.isfinite(g).all(), f"non-finite gradient w.r.t. the design array (beta={beta}, eta={eta})",
              observed={"x": x64.ravel()[~np.isfinite(g.ravel())][:3].tolist(),
                        "grad": [repr(v) for v in g.ravel()[~np.isfinite(g.ravel())][:3]]}, expected="finite")

    base = ctx.tol(1e-9, 1e-5)
    amp = 0.0 if (beta == 0 or np.isinf(beta)) else 4 * eps_lane * beta
    tol_r = base + amp
    ctx.classify("range-tight" if amp <= 1e-2 else "range-loose")
    inr = (x64 >= 0) & (x64 <= 1)
    lo, hi = y[inr].min(), y[inr].max()
    ctx.metric("range_excess", max(-lo, hi - 1.0, 0.0) if amp <= 1e-2 else 0.0)
    ctx.check(lo >= -tol_r and hi <= 1 + tol_r, f"[0,1] is not mapped into [0,1] (beta={beta}, eta={eta})",
              observed=[float(lo), float(hi)], expected=[0.0, 1.0], tolerance=tol_r)

    order = np.argsort(x64.ravel(), kind="stable")
    dy = np.diff(y.ravel()[order])
    slack = ctx.tol(1e-12, 5e-6)
    k = int(np.argmin(dy))
    ctx.metric("monotone_dip", max(-dy.min(), 0.0))
    ctx.check(dy.min() >= -slack, f"projection decreases: f({x64.ravel()[order][k]!r}) > f({x64.ravel()[order][k + 1]!r})"
              f" (beta={beta}, eta={eta})", observed=float(dy.min()), expected=">= 0", tolerance=slack)

    if 0.0 < eta < 1.0:
        y0, y1 = y.ravel()[0], y.ravel()[1]
        ctx.check(abs(y0) <= base, f"f(0) != 0 (beta={beta}, eta={eta})", float(y0), 0.0, base)
        ctx.check(abs(y1 - 1) <= tol_r, f"f(1) != 1 (beta={beta}, eta={eta})", float(y1), 1.0, tol_r)
    if beta == 0:
        ctx.close(y, np.clip(x64, 0, 1), tol=base, scale=1.0, msg="beta=0 is not clipping")
    if np.isinf(beta):
        away = np.abs(x64 - float(eta_l)) > 1e-6
        ctx.close(y[away], (x64[away] > float(eta_l)).astype(np.float64), tol=base, scale=1.0,
                  msg=f"beta=inf is not a step at eta={eta}")


# ----------------------------------------------------------------------------------------------
# subpixel-smoothed projection
# ----------------------------------------------------------------------------------------------
def _design(case, np_dtype):
    n, m = case["n"], case["m"]
    eta = float(case["eta"])
    rng = np.random.default_rng(case["seed"])
    i, j = np.meshgrid(np.arange(n), np.arange(m), indexing="ij")
    kind = case["kind"]
    if kind == "wave":  # smooth, crosses the threshold
        c = min(max(eta, 0.25), 0.75) if eta not in (0.0, 1.0) else (0.3 if eta == 0.0 else 0.7)
        kx, ky = rng.uniform(0.2, 0.9, 2)
        x = c + case["amp"] * np.sin(kx * i + rng.uniform(0, 6.3)) * np.cos(ky * j + rng.uniform(0, 6.3))
        x = np.clip(x, 0.0, 1.0)
    elif kind == "random":
        x = rng.uniform(0, 1, (n, m))
    elif kind == "constant":
        x = np.full((n, m), float(rng.choice([0.0, 1.0, 0.5, eta, rng.uniform(0, 1)])))
    elif kind == "binary":
        x = (rng.uniform(0, 1, (n, m)) > 0.5).astype(np.float64)
    elif kind in ("dust", "wave+dust"):
        # numerical dust next to zero (the tail of a filtered design): the only place where a float array can have
        # a tiny but non-zero spatial gradient, i.e. an astronomically distant "interface" (|d|/R ~ 1e12 .. 1e120)
        dust = 10.0 ** (-case["noise_exp"]) * rng.uniform(0, 1, (n, m))
        if kind == "dust":
            x = dust
        else:
            kx, ky = rng.uniform(0.2, 0.9, 2)
            wave = np.clip(0.5 + 0.45 * np.sin(kx * i + rng.uniform(0, 6.3)) * np.cos(ky * j + rng.uniform(0, 6.3)), 0, 1)
            x = np.where(i < (n + 1) // 2, dust, wave) if rng.uniform() < 0.5 else np.where(j < (m + 1) // 2, dust, wave)
    elif kind == "tail":
        # the tail of a filtered bump: values sweep through every decade down to the denormal range, so squared
        # gradient norms pass through the underflow range of the lane's dtype somewhere in the array
        ci, cj = rng.uniform(0, n - 1), rng.uniform(0, m - 1)
        x = np.exp(-case.get("tail_rate", 1.0) * ((i - ci) ** 2 + (j - cj) ** 2))
    else:  # ramp through the threshold along a drawn direction
        a, b = rng.uniform(-1, 1, 2)
        r = a * (i - (n - 1) / 2) + b * (j - (m - 1) / 2)
        x = np.clip(eta + case["amp"] * r / max(np.abs(r).max(), 1e-9), 0, 1)
    return x.astype(np_dtype)


def smoothed_body(ctx, case):
    from fdtdx.objects.device.parameters.projection import SubpixelSmoothedProjection, TanhProjection

    np_dtype = np.float64 if ctx.f64 else np.float32
    beta = float(case["beta"])
    eta = float(case["eta"])
    x2 = _design(case, np_dtype)
    va = case["vaxis"]
    x3 = np.expand_dims(x2, va)
    shape = x3.shape
    vox = [case["voxel_nm"] * 1e-9] * 3
    vox[va] = case["voxel_other_nm"] * 1e-9

    ts, dtype = _init(ctx, SubpixelSmoothedProjection, eta, shape, vox)
    tp, _ = _init(ctx, TanhProjection, eta, shape, vox)
    w = _weights(case["seed"], shape)
    ys, gs = _value_and_grad(ts, x3, w, beta, case["beta_as_array"], dtype)
    yp = _value(tp, x3, beta, case["beta_as_array"], dtype)

    # oracle: which cells have no interface (numpy float64 on the lane-dtype input; voxel size cancels)
    r = x2.astype(np.float64)
    g0, g1 = np.gradient(r)
    norm = np.sqrt(g0**2 + g1**2)
    gap = np.abs(float(np_dtype(eta)) - r)
    reach = 0.55 * norm
    guard = ctx.tol(1e-9, 1e-3)
    no_iface = (norm == 0) | (gap >= reach * (1 + guard))
    iface = (norm > 0) & (gap < reach * (1 - guard))
    if not ctx.f64:
        # float32 forms (g/dx)^2 and can under/overflow where float64 does not: make no claim for those cells
        dx = case["voxel_nm"] * 1e-3
        h = (g0 / dx) ** 2 + (g1 / dx) ** 2
        shaky = (norm > 0) & ((h < 1e-30) | (h > 1e30))
        no_iface &= ~shaky
        iface &= ~shaky

    bl, el = _labels(beta, eta)
    ctx.classify(bl, el, "kind=" + case["kind"], f"vaxis={va}",
                 "iface-cells" if iface.any() else "no-iface-cells",
                 "mixed" if (iface.any() and no_iface.any()) else "unmixed",
                 "array-beta" if case["beta_as_array"] else "float-beta")
    ctx.nontrivial(beta == 0 or np.isinf(beta) or eta in (0.0, 1.0) or (iface.any() and no_iface.any()))

    ctx.check(ys.shape == shape, f"output shape {ys.shape} != input shape {shape}", list(ys.shape), list(shape))
    ys2 = np.squeeze(ys, va).astype(np.float64)
    yp2 = np.squeeze(yp, va).astype(np.float64)
    gs2 = np.squeeze(gs, va)
    ctx.check(np.isfinite(ys2).all(), f"non-finite smoothed output (beta={beta}, eta={eta}, kind={case['kind']})",
              observed=np.argwhere(~np.isfinite(ys2))[:3].tolist())
    ctx.check(np.isfinite(gs2).all(),
              f"non-finite gradient of the smoothed projection w.r.t. the design (beta={beta}, eta={eta}, "
              f"kind={case['kind']})", observed=np.argwhere(~np.isfinite(gs2))[:3].tolist(), expected="finite")
    if no_iface.any():
        ctx.close(ys2[no_iface], yp2[no_iface], tol=ctx.tol(1e-9, 1e-5), scale=1.0,
                  msg=f"smoothed != plain projection in an interface-free cell (beta={beta}, eta={eta})",
                  metric="plain_mismatch")


def corner_cases(ctx):
    """Stratified grid over the extremes the property names explicitly (beta in {0, large, inf} x eta in {0, ~0, 0.5, 1})
    on designs whose values sweep through every decade down to the denormal range (tail) or are numerical dust."""
    k = 0
    quick = ctx.tier == "quick"
    betas = ("inf", "1e30", "0.0") if quick else ("inf", "1e6", "1e30", "0.0", "8.0")
    etas = (0.0, 0.5, 1.0) if quick else (0.0, 1e-6, 0.5, 1.0)
    designs = (("tail", 0.5, 20), ("tail", 3.0, 20), ("dust", 1.0, 20), ("dust", 1.0, 23)) if quick else (
        ("tail", 0.5, 20), ("tail", 1.0, 20), ("tail", 3.0, 20), ("tail", 8.0, 20), ("dust", 1.0, 20), ("dust", 1.0, 23),
        ("wave+dust", 1.0, 26), ("dust", 1.0, 150))
    for beta in betas:
        for eta in etas:
            for kind, rate, nexp in designs:
                for (n, m) in (((6, 8),) if quick else ((6, 8), (5, 3))):
                    k += 1
                    yield {"n": n, "m": m, "vaxis": k % 3, "voxel_nm": (20.0, 50.0, 1000.0)[k % 3], "voxel_other_nm": 50.0,
                           "kind": kind, "tail_rate": rate, "amp": 0.2, "noise_exp": nexp, "seed": 1000 + k + 7919 * ctx.seed,
                           "beta": beta, "eta": eta, "beta_as_array": bool(k % 2)}


SUBS = [
    Sub(name="smoothed_corners", body=smoothed_body, cases=corner_cases, lanes=("f64", "f32"),
        rule="enumerated extremes: beta in {0, 8, 1e6, 1e30, inf} x eta in {0, 1e-6, 0.5, 1} x tail/dust designs x 2 shapes"),
    Sub(name="tanh", body=tanh_body, strategy=lambda ctx: tanh_case(), quick=400, thorough=30000,
        lanes=("f64", "f32"), f32_fraction=0.25, rule="TanhProjection invariants on a random 3-D array"),
    Sub(name="smoothed", body=smoothed_body, strategy=lambda ctx: smoothed_case(), quick=100, thorough=16000,
        lanes=("f64", "f32"), f32_fraction=0.25,
        rule="SubpixelSmoothedProjection: finiteness, gradient finiteness, agreement with the plain projection"),
]
KNOWN_CLASSES = {}
