#!/bin/bash
# offline setup: make sure hypothesis is importable beside the repository's packages
cd "$(dirname "$0")"
/venv/bin/python -c "import hypothesis" 2>/dev/null || \
  /venv/bin/pip install --no-index --find-links /opt/veriftools/wheels hypothesis
/venv/bin/python -c "import hypothesis, jsonschema; print('hypothesis', hypothesis.__version__)"
