"""C12 — absorbing layers absorb.

Two threshold oracles per generated scene (both thresholds are the property's own):

(i)  residual energy: a zero-net-charge pulse is launched inside a box that is wrapped in PML (8..20 cells, two
     thicknesses per scene distributed over the faces) on all six faces; the EnergyDetector trace over the interior (everything that is
     not absorbing layer) must end below 1e-6 of its peak once the pulse had 2.5 domain crossings to leave.
(ii) differential against free space: the same source / detector geometry is embedded in a plain domain that is so
     much larger that nothing can come back from its walls inside the comparison window (per-face margin from the
     light cone, c*dt = courant/sqrt(3) cells per step along an axis, plus 3 cells); the FieldDetector records of the
     two runs (all six components, a box inside the interior) must differ by < 1e-4 in relative energy
     sum|dE|^2+|dH|^2 / sum|E_ref|^2+|H_ref|^2 over the window.

The reference never contains a PML object, so the PML code is only on one side of the comparison.
"""

from __future__ import annotations

import math

import numpy as np
from hypothesis import strategies as st

from pbt import scenes
from pbt.engine import Skip, Sub
from pbt.oracles.longsims import collect, scaled

ID = "C12"
RULE = (
    "Hypothesis draws: interior box 16..24 cells per axis (16..18 in the quick tier, not cubic), two PML thicknesses "
    "from 8..20 per scene and one of the two for each of the six faces, one source (electric / magnetic point dipole with axis polarisation 0..2 and optional "
    "azimuth/elevation tilt, or a uniform / Gaussian plane source with any of the 6 axis-direction pairs, a "
    "transverse polarisation angle and a finite aperture) placed by explicit grid coordinates >= 3 cells from every "
    "layer (biased to sit exactly 3 cells from 1..3 faces), a zero-net-charge pulse (sampled first or second "
    "derivative of a Gaussian whose spectral peak sits at 15..30 (quick: 15..20) cells per wavelength, antisymmetric / mean-subtracted "
    "so that the samples sum to 0 and both end samples are 0), a field-detector box >= 3 cells from the layers, "
    "courant factor 0.99 or 0.7; the layers use the default grading or (3 scenes in 8) real coordinate stretching "
    "kappa_end = 1.5 / 2. Every case is one full absorption measurement (small run + large free-space "
    "reference run) and is non-trivial when the interior energy peak is > 0 and the reference record is non-zero. "
    "Distinct = sha1 of the case JSON. Classes: source kind, polarisation, faces the source touches (3 cells), "
    "thickness bucket per touched face, whether the comparison window covers the back-wall echo of every face."
)
ASSUMPTIONS = [
    "'energy left in the domain' is read as the EnergyDetector over the interior (cells that are not absorbing "
    "layer): the field still inside the layers decays only algebraically (whole-volume residual measured 3e-8..4e-6 "
    "of the peak at the same time, reported as metric residual_whole, not asserted)",
    "'peak' is the maximum of the same interior trace (it includes the reactive near field of a dipole)",
    "'after the pulse has left' = pulse length + 2.5 * (largest axis extent incl. layers) / (c dt) steps; the end "
    "value is the max of the last 5 samples",
    "'much larger reference domain' = plain zero-halo domain whose walls are outside the light cone of the comparison "
    "window (axis speed courant/sqrt(3) cells per step, +3 cells); the window is the time for an echo from the "
    "outer wall of the farthest layer to return, capped for cost at pulse length + K cells of travel (quick: K = 44 "
    "f32 / 34 f64; thorough: 90 / 60) — cases whose window was capped are labelled window=capped; the echo of every "
    "face whose round trip is shorter than K is inside",
    "'pulsed source' = a pulse the grid resolves: spectral peak at >= 15 cells per wavelength. Content below ~10 "
    "cells per wavelength crawls on the Yee grid and has not left by the stated time with any absorber: a "
    "derivative-of-Gaussian with sigma = 3 steps (10.8 cells) leaves 2.3e-6 of the peak in a 16^3 box in free space "
    "(walls outside the light cone) and 6.7e-6 with 8-cell PML, while sigma >= 4 steps leaves <= 4e-9",
    "'absorbing layers' = the default CPML grading, optionally with moderate real stretching kappa_end <= 2 (measured "
    "margins >= 600x to both limits; at kappa_end = 5 the 8..20-cell layers reach 1.5e-5 of the 1e-4 limit on the "
    "unchanged tree, so strong stretchings are outside the generated domain)",
    "vacuum background (the default sigma grading assumes the vacuum impedance); float32 and float64 lanes use the "
    "same thresholds 1e-6 / 1e-4",
]

AX = "xyz"


def _pulse(sigma, order):
    """Sampled derivative-of-Gaussian with exactly antisymmetric (order 1) or mean-free (order 2) samples."""
    n0 = int(round(5 * sigma))
    n = np.arange(2 * n0 + 1)
    x = (n - n0) / sigma
    if order == 1:
        s = -x * np.exp(-x * x / 2)
        s[n0] = 0.0
        s[:n0] = -s[:n0:-1]  # enforce exact antisymmetry -> the samples cancel pairwise
        s[0] = s[-1] = 0.0
    else:
        s = (1 - x * x) * np.exp(-x * x / 2)
        s[0] = s[-1] = 0.0
        s[1:-1] -= s[1:-1].mean()
        s[1:-1] -= s[1:-1].sum() / (len(s) - 2)
    s = s / np.abs(s).max()
    return s


@st.composite
def case_strategy(draw, ctx):
    quick = ctx.tier == "quick"
    inner = [draw(st.integers(16, 18 if quick else 24)) for _ in range(3)]
    # two thicknesses per scene, each face takes one of them (keeps the number of distinct array shapes — and
    # with it the XLA compile time of the six layers — down without losing the 8..20 range)
    tpair = [draw(st.integers(8, 20)), draw(st.integers(8, 20))]
    pml = {f: tpair[draw(st.integers(0, 1))] for f in scenes.FACES}
    kind = draw(st.sampled_from(["dipole_e", "dipole_m", "dipole_e", "dipole_m", "uniform_plane", "gaussian_plane"]))
    # positions in interior coordinates; "touch" faces get the minimum distance of 3 cells
    n_touch = draw(st.integers(0, 3))
    touch_axes = draw(st.permutations([0, 1, 2]))[:n_touch]
    src = {"type": kind}
    if kind.startswith("dipole"):
        pos = []
        for a in range(3):
            if a in touch_axes:
                pos.append(draw(st.sampled_from([3, inner[a] - 4])))
            else:
                pos.append(draw(st.integers(3, inner[a] - 4)))
        src["pos"] = pos
        src["pol"] = draw(st.integers(0, 2))
        if draw(st.booleans()):
            src["az"] = draw(st.sampled_from([20.0, 45.0, 90.0, 135.0]))
            src["el"] = draw(st.sampled_from([0.0, 15.0, 60.0]))
    else:
        ax = draw(st.integers(0, 2))
        src["axis"] = ax
        src["direction"] = draw(st.sampled_from(["+", "-"]))
        src["angle"] = draw(st.sampled_from([0.0, 90.0, 30.0, 45.0, 120.0, 210.0, 300.0]))
        if ax in touch_axes:
            src["pos"] = draw(st.sampled_from([3, inner[ax] - 4]))
        else:
            src["pos"] = draw(st.integers(3, inner[ax] - 4))
        lo, hi = [0, 0, 0], [0, 0, 0]
        for a in range(3):
            if a == ax:
                continue
            lo[a] = 3 if a in touch_axes else draw(st.integers(3, 6))
            hi[a] = inner[a] - 3 if a in touch_axes else inner[a] - draw(st.integers(3, 6))
        src["lo"], src["hi"] = lo, hi
        if kind == "gaussian_plane":
            src["radius_cells"] = draw(st.sampled_from([4.0, 6.0, 9.0]))
    dlo, dhi = [], []
    for a in range(3):
        size = draw(st.integers(2, 8))
        lo_a = draw(st.integers(3, inner[a] - 3 - size))
        dlo.append(lo_a)
        dhi.append(lo_a + size)
    # three scenes in eight use real coordinate stretching (kappa_end 1.5 / 2: CPML's other code path, `kappa != 1`);
    # measured on the unchanged tree: worst record difference 1.6e-7, worst residual 1.2e-9 at kappa_end = 2
    # (2.4e-6 at 3, 1.5e-5 at 5 — stronger stretchings are left out because they eat the margin to the 1e-4 limit)
    kappa_end = draw(st.sampled_from([None, None, None, None, None, 1.5, 2.0, 2.0]))
    return {
        **({"kappa_end": kappa_end} if kappa_end else {}),
        "inner": inner,
        "pml": pml,
        "source": src,
        "pulse": {"wl_cells": draw(st.sampled_from([15.0, 18.0, 20.0] if quick else [15.0, 18.0, 20.0, 25.0, 30.0])),
                  "order": draw(st.sampled_from([1, 1, 2]))},
        "det": {"lo": dlo, "hi": dhi, "exact": draw(st.booleans())},
        "courant": draw(st.sampled_from([0.99, 0.99, 0.99, 0.7])),
        # cost cap on the comparison window (cells of travel after the pulse has been emitted); part of the case so
        # that replays are tier independent
        "window_cap": (44 if ctx.lane == "f32" else 34) if quick else (90 if ctx.lane == "f32" else 60),
    }


def _sigma(case):
    """Pulse width in steps such that the spectral peak (omega = 1/sigma) has the drawn number of cells per wavelength."""
    v = case["courant"] / math.sqrt(3.0)
    return case["pulse"]["wl_cells"] / (2 * math.pi * v)


def _source_spec(case, off, signal):
    s = case["source"]
    out = {"type": s["type"], "name": "src", "wl_cells": case["pulse"]["wl_cells"], "amp": 1.0,
           "profile": {"kind": "custom", "signal": signal, "dt_steps": 1.0}, "switch": {}}
    if s["type"].startswith("dipole"):
        out["pos"] = [s["pos"][a] + off[a] for a in range(3)]
        out["pol"] = s["pol"]
        if "az" in s:
            out["az"], out["el"] = s["az"], s["el"]
    else:
        ax = s["axis"]
        out["axis"], out["direction"] = ax, s["direction"]
        out["pos"] = s["pos"] + off[ax]
        h, w = [(1, 2), (2, 0), (0, 1)][ax]
        p = [0.0, 0.0, 0.0]
        p[h] = round(math.cos(math.radians(s["angle"])), 9)
        p[w] = round(math.sin(math.radians(s["angle"])), 9)
        out["pol"] = p
        out["lo"] = [s["lo"][a] + off[a] for a in range(3)]
        out["hi"] = [s["hi"][a] + off[a] for a in range(3)]
        if "radius_cells" in s:
            out["radius_cells"] = s["radius_cells"]
    return out


def _src_extent(case):
    s = case["source"]
    if s["type"].startswith("dipole"):
        return list(s["pos"]), [p + 1 for p in s["pos"]]
    lo, hi = list(s["lo"]), list(s["hi"])
    lo[s["axis"]], hi[s["axis"]] = s["pos"], s["pos"] + 1
    return lo, hi


def plan(case, lane):
    """Step counts and reference margins (pure function of the case and lane)."""
    inner, pml = case["inner"], case["pml"]
    v = case["courant"] / math.sqrt(3.0)
    plen = 2 * int(round(5 * _sigma(case))) + 1
    tlo = [pml[f"min_{AX[a]}"] for a in range(3)]
    thi = [pml[f"max_{AX[a]}"] for a in range(3)]
    n_small = [inner[a] + tlo[a] + thi[a] for a in range(3)]
    t_total = plen + int(math.ceil(2.5 * max(n_small) / v))
    t_echo = plen + int(math.ceil(2.0 * max(inner[a] + max(tlo[a], thi[a]) for a in range(3)) / v))
    t_cmp = min(t_echo, plen + int(math.ceil(case.get("window_cap", 60) / v)), t_total)
    slo, shi = _src_extent(case)
    dlo, dhi = case["det"]["lo"], case["det"]["hi"]
    reach = v * t_cmp
    mlo, mhi = [], []
    for a in range(3):
        # wall at -M: path along the axis >= (s+M) + (d+M) must exceed the light-cone reach
        mlo.append(max(2, int(math.ceil((reach - slo[a] - dlo[a]) / 2.0)) + 3))
        mhi.append(max(2, int(math.ceil((reach - (inner[a] - shi[a]) - (inner[a] - dhi[a])) / 2.0)) + 3))
    return dict(t_total=t_total, t_cmp=t_cmp, capped=t_cmp < t_echo, tlo=tlo, thi=thi, n_small=n_small, mlo=mlo, mhi=mhi,
                plen=plen)


def _run(spec, lane):
    import fdtdx

    b = scenes.build(spec, lane)
    _, arrays = fdtdx.run_fdtd(arrays=b.arrays, objects=b.objects, config=b.config, key=b.key, show_progress=False)
    return arrays


def body(ctx, case):
    p = plan(case, ctx.lane)
    inner = case["inner"]
    signal = [float(x) for x in _pulse(_sigma(case), case["pulse"]["order"])]
    # the premise of the property: zero net charge
    assert abs(sum(signal)) < 1e-12 and signal[0] == 0.0 and signal[-1] == 0.0

    tlo, thi = p["tlo"], p["thi"]
    n_small = p["n_small"]
    faces = {f: {"kind": "pml", "thickness": case["pml"][f]} for f in scenes.FACES}
    if case.get("kappa_end"):  # real coordinate stretching (the other CPML code path); absent = default grading
        for f in faces.values():
            f["pml_kwargs"] = {"kappa_end": float(case["kappa_end"])}
    det = case["det"]
    small = {
        "shape": n_small, "steps": p["t_total"], "courant": case["courant"], "faces": faces,
        "sources": [_source_spec(case, tlo, signal)],
        "detectors": [
            {"type": "energy", "name": "en_in", "lo": tlo, "hi": [tlo[a] + inner[a] for a in range(3)], "reduce": True},
            {"type": "energy", "name": "en_all", "lo": [0, 0, 0], "hi": n_small, "reduce": True},
            {"type": "field", "name": "fd", "lo": [det["lo"][a] + tlo[a] for a in range(3)],
             "hi": [det["hi"][a] + tlo[a] for a in range(3)], "exact": det["exact"],
             "switch": {"start_step": 0, "end_step": p["t_cmp"] - 1}},
        ],
    }
    mlo, mhi = p["mlo"], p["mhi"]
    n_ref = [inner[a] + mlo[a] + mhi[a] for a in range(3)]
    ref = {
        "shape": n_ref, "steps": p["t_cmp"], "courant": case["courant"], "faces": {},
        "sources": [_source_spec(case, mlo, signal)],
        "detectors": [
            {"type": "field", "name": "fd", "lo": [det["lo"][a] + mlo[a] for a in range(3)],
             "hi": [det["hi"][a] + mlo[a] for a in range(3)], "exact": det["exact"]},
        ],
    }

    s = case["source"]
    slo, shi = _src_extent(case)
    touched = []
    for a in range(3):
        if slo[a] <= 3:
            touched.append(f"min_{AX[a]}")
        if inner[a] - shi[a] <= 3:
            touched.append(f"max_{AX[a]}")
    ctx.classify("src=" + s["type"], "pulse_order=%d" % case["pulse"]["order"], "courant=%s" % case["courant"],
                 "window=" + ("capped" if p["capped"] else "full-echo"), "touched_faces=%d" % len(touched),
                 *("touch=" + f for f in touched),
                 *("touch_thick=" + ("8-11" if case["pml"][f] < 12 else "12-15" if case["pml"][f] < 16 else "16-20")
                   for f in touched))
    if s["type"].startswith("dipole"):
        ctx.classify("dipole_pol=%d" % s["pol"], "tilted" if "az" in s else "axis-aligned")
    else:
        ctx.classify("plane=%s%s" % (AX[s["axis"]], s["direction"]), "pol_angle=%g" % s["angle"])
    ctx.classify("thick_min=%d" % min(case["pml"].values()), "kappa_end=%s" % case.get("kappa_end", "default"))

    arrays = _run(small, ctx.lane)
    en = np.asarray(arrays.detector_states["en_in"]["energy"], dtype=np.float64).ravel()
    en_all = np.asarray(arrays.detector_states["en_all"]["energy"], dtype=np.float64).ravel()
    f_small = np.asarray(arrays.detector_states["fd"]["fields"], dtype=np.float64)
    del arrays
    ctx.check(bool(np.isfinite(en).all() and np.isfinite(f_small).all()), "non-finite field/energy in the PML run",
              observed=float(np.nanmax(np.abs(en))) if np.isfinite(en).any() else None)
    peak = float(en.max())
    if not peak > 0:
        raise Skip()
    k_peak = int(np.argmax(en))
    end = float(en[-5:].max())
    ctx.metric("residual_interior", end / peak)
    ctx.metric("residual_whole", float(en_all[-5:].max()) / float(en_all.max()))
    ctx.check(k_peak < len(en) - 50, "energy peak at the end of the run (pulse never left)", observed=k_peak)

    arrays = _run(ref, ctx.lane)
    f_ref = np.asarray(arrays.detector_states["fd"]["fields"], dtype=np.float64)
    del arrays
    ctx.check(f_small.shape == f_ref.shape, "detector record shapes differ", observed=list(f_small.shape),
              expected=list(f_ref.shape))
    den = float((f_ref ** 2).sum())
    if not den > 0:
        raise Skip()
    ctx.nontrivial(True)
    rel = float(((f_small - f_ref) ** 2).sum()) / den
    ctx.metric("reference_diff_rel_energy", rel)

    ctx.check(end < 1e-6 * peak,
              f"energy left in the interior after the pulse has left = {end / peak:.3e} of its peak (limit 1e-6); "
              f"peak at step {k_peak}, {len(en)} steps",
              observed=end / peak, expected="< 1e-6", tolerance=1e-6)
    ctx.check(rel < 1e-4,
              f"field record differs from the large-domain reference by {rel:.3e} in relative energy (limit 1e-4) over "
              f"{p['t_cmp']} steps",
              observed=rel, expected="< 1e-4", tolerance=1e-4)


def cases(ctx):
    """A Hypothesis-drawn sample (seeded by the run seed and the lane), enumerated so that the engine shards it:
    quick = 8 scenes per lane (two per worker process), thorough = 64 (f32, 4 workers) / 60 (f64, 12 workers)."""
    n = scaled(8 if ctx.tier == "quick" else (64 if ctx.lane == "f32" else 60), ctx)
    return collect(case_strategy(ctx), n, ctx.seed, salt=f"C12/{ctx.lane}/{ctx.tier}")


SUBS = [
    Sub(name="absorb", body=body, cases=cases, lanes=("f64", "f32"), quick_shards=4, exhaustive=False,
        max_seconds_quick=140.0, max_seconds_thorough=1500.0,
        rule="PML on six faces vs a light-cone-free reference domain; residual interior energy and record difference"),
]
