"""C25 — brush-constrained designs are unions of brush placements.

Oracle (numpy, from the property text): a region R of the 2-D domain is *brush-feasible* iff every pixel of R is
covered by some placement of the brush footprint whose in-domain part lies entirely inside R.  The check runs
``BrushConstraint2D`` (brush = ``circular_brush(d)``) on a continuous design and asserts: the call returns
(terminates), the output has the input's shape and only the values 0/1, and both the solid region (value 1) and
the void region (value 0) are brush-feasible.  ``circular_brush`` itself is compared with an independently
rasterised disk (odd array of size ceil(d) rounded up to odd; True where the distance of the pixel centre from the
array centre is <= d/2).

The transform runs in a persistent child process so that a per-case wall-clock guard can be enforced (an XLA
while-loop cannot be interrupted in-process).  A guard expiry is *inconclusive* (Skip, counted in the metric
``guard_timeouts``), never a violation.
"""

from __future__ import annotations

import json
import math
import os
import select
import subprocess
import sys
import time

import numpy as np
from hypothesis import strategies as st

from pbt import engine
from pbt.engine import HarnessError, Skip, Sub

ID = "C25"
RULE = (
    "Hypothesis draws a 2-D design size (6..20 per side, from a palette so that one jit compilation serves many "
    "cases), a circular brush diameter from {2, 2.5, 3, 3.5, 4, 4.5, 5, 6}, the position of the singleton axis "
    "(0/1/2), the background (default lowest permittivity, or the higher one named explicitly) and a continuous "
    "design: iid uniform noise, box-blurred noise (blobs), sign stripes and checkerboards with periods below and "
    "above the brush size, isolated single-pixel spots of either sign, constants, or (<= 64 pixels) an explicitly "
    "drawn list of levels; all from drawn seeds/parameters. Non-trivial = the output contains both solid and void "
    "pixels. Distinct = sha1 of the case JSON."
)
ASSUMPTIONS = [
    "a brush placement may be centred on any pixel position, also outside the domain, as long as its in-domain "
    "part is non-empty (the literal reading of 'footprints whose in-domain part lies entirely within that "
    "region'); whether in-domain centres suffice is recorded as a class, not asserted",
    "solid = output value 1, void = output value 0 (the predicate is symmetric in the two phases)",
    "the brush array must not exceed the design in either dimension (a 7x7 brush on a 6-wide design makes jax's "
    "convolve2d raise inside dilate_jax); such combinations are not generated",
    "the per-case wall-clock guard (120 s quick / 300 s thorough, first call per configuration includes "
    "compilation) only yields 'inconclusive'; a hang would have to be confirmed by replaying the case",
]

DIAMETERS = [2.0, 2.5, 3.0, 3.5, 4.0, 4.5, 5.0, 6.0]
SIZES = [(6, 6), (8, 6), (7, 11), (10, 10), (12, 9), (14, 14), (16, 12), (20, 20), (6, 20), (18, 15), (5, 30), (6, 40),
         (30, 5)]
# quick tier: fixed (size, diameter, axis, background) combinations -> five compilations
QUICK_COMBOS = [((6, 6), 2.0, 2, "default"), ((8, 6), 3.0, 0, "explicit_high"), ((10, 10), 3.5, 1, "default"),
                ((12, 9), 5.0, 2, "explicit_high"), ((20, 20), 6.0, 0, "default"), ((14, 14), 4.0, 2, "explicit_low"),
                # strongly elongated designs (any iteration bound derived from one side length shows here)
                ((5, 30), 3.0, 1, "default"), ((5, 30), 3.0, 1, "default")]


# ------------------------------------------------------------------------------------------------
# oracle
# ------------------------------------------------------------------------------------------------
def disk(d: float) -> np.ndarray:
    s = math.ceil(d)
    if s % 2 == 0:
        s += 1
    c = (s - 1) / 2
    i = np.arange(s) - c
    return (i[:, None] ** 2 + i[None, :] ** 2) <= (d / 2) ** 2


def brush_cover(region: np.ndarray, brush: np.ndarray, centres: str = "any") -> np.ndarray:
    """Union of the in-domain parts of all brush placements whose in-domain part lies inside ``region``."""
    H, W = region.shape
    s = brush.shape[0]
    r = s // 2
    P = 2 * r
    big = np.ones((H + 2 * P, W + 2 * P), dtype=bool)  # outside the domain nothing constrains a placement
    big[P : P + H, P : P + W] = region
    offs = [(i - r, j - r) for i in range(s) for j in range(s) if brush[i, j]]
    nh, nw = H + 2 * P - 2 * r, W + 2 * P - 2 * r  # centre (a, b) of `ok` sits at big[a + r, b + r]
    ok = np.ones((nh, nw), dtype=bool)
    for di, dj in offs:
        ok &= big[r + di : r + di + nh, r + dj : r + dj + nw]
    if centres == "domain":
        keep = np.zeros_like(ok)
        keep[P - r : P - r + H, P - r : P - r + W] = True
        ok &= keep
    cov = np.zeros_like(big)
    for di, dj in offs:
        cov[r + di : r + di + nh, r + dj : r + dj + nw] |= ok
    return cov[P : P + H, P : P + W] & region


def build_design(case) -> np.ndarray:
    H, W = case["size"]
    d = case["design"]
    kind = d["kind"]
    rng = np.random.default_rng(d.get("seed", 0))
    if kind == "levels":
        a = np.array(d["levels"], dtype=np.float64).reshape(H, W)
    elif kind == "noise":
        a = rng.uniform(-1, 1, (H, W))
    elif kind == "smooth":
        a = rng.uniform(-1, 1, (H, W))
        r = d["radius"]
        p = np.pad(a, r, mode="edge")
        acc = np.zeros_like(a)
        for i in range(2 * r + 1):
            for j in range(2 * r + 1):
                acc += p[i : i + H, j : j + W]
        a = acc / (2 * r + 1) ** 2
        a = a - np.median(a) * d.get("centre", 1)
        a = a / max(np.abs(a).max(), 1e-12)
    elif kind == "stripes":
        idx = np.arange(H)[:, None] if d["along"] == 0 else np.arange(W)[None, :]
        a = np.where(((idx + d.get("phase", 0)) // d["period"]) % 2 == 0, 1.0, -1.0) * np.ones((H, W))
        a = a + d.get("noise", 0.0) * rng.uniform(-1, 1, (H, W))
    elif kind == "checker":
        b = d["period"]
        a = np.where(((np.arange(H)[:, None] // b) + (np.arange(W)[None, :] // b)) % 2 == 0, 1.0, -1.0)
        a = a + d.get("noise", 0.0) * rng.uniform(-1, 1, (H, W))
    elif kind == "spots":
        a = np.full((H, W), -1.0 * d["sign"])
        for _ in range(d["count"]):
            a[rng.integers(0, H), rng.integers(0, W)] = 1.0 * d["sign"]
        a = a + d.get("noise", 0.0) * rng.uniform(-1, 1, (H, W))
    elif kind == "const":
        a = np.full((H, W), float(d["value"]))
    else:
        raise ValueError(kind)
    return a


# ------------------------------------------------------------------------------------------------
# strategy
# ------------------------------------------------------------------------------------------------
@st.composite
def case_strategy(draw, ctx):
    if ctx.tier == "quick":
        size, diam, axis, bg = draw(st.sampled_from(QUICK_COMBOS))
    else:
        size = draw(st.sampled_from(SIZES))
        # the brush array (odd size >= diameter) must fit into the design: jax's convolve2d(mode="same") inside
        # dilate_jax raises "One input must be smaller than the other in every dimension" otherwise
        diam = draw(st.sampled_from([d for d in DIAMETERS if disk(d).shape[0] <= min(size)]))
        axis = draw(st.integers(0, 2))
        bg = draw(st.sampled_from(["default", "default", "explicit_low", "explicit_high"]))
    H, W = size
    kinds = ["noise", "noise", "noise", "smooth", "smooth", "smooth", "stripes", "stripes", "checker", "checker", "spots",
             "const"]
    if H * W <= 64:
        kinds += ["levels", "levels"]
    kind = draw(st.sampled_from(kinds))
    d = {"kind": kind}
    if kind == "levels":
        d["levels"] = draw(st.lists(st.sampled_from([-1.0, -0.5, 0.0, 0.5, 1.0]), min_size=H * W, max_size=H * W))
    elif kind == "const":
        d["value"] = draw(st.sampled_from([-1.0, 0.0, 0.7]))
    else:
        d["seed"] = draw(st.integers(0, 2**31 - 1))
        if kind == "smooth":
            d["radius"] = draw(st.integers(1, 3))
            d["centre"] = draw(st.sampled_from([0, 1, 1]))
        if kind in ("stripes", "checker"):
            d["period"] = draw(st.integers(1, 7))
            d["noise"] = draw(st.sampled_from([0.0, 0.2, 0.8]))
        if kind == "stripes":
            d["along"] = draw(st.integers(0, 1))
            d["phase"] = draw(st.integers(0, 6))
        if kind == "spots":
            d["sign"] = draw(st.sampled_from([1, -1]))
            d["count"] = draw(st.integers(1, 12))
            d["noise"] = draw(st.sampled_from([0.0, 0.3]))
    return {"size": list(size), "diameter": diam, "axis": axis, "bg": bg, "design": d,
            "dtype": "float"}


# ------------------------------------------------------------------------------------------------
# child process running the transform
# ------------------------------------------------------------------------------------------------
_CHILD = r"""
import sys, json, traceback
sys.path.insert(0, %(verif)r)
from pbt import engine
lane = sys.argv[1]
engine.bootstrap(lane)
import numpy as np, jax, jax.numpy as jnp, fdtdx
from fdtdx.objects.device.parameters.discretization import BrushConstraint2D, circular_brush
from fdtdx.typing import ParameterType
fdt = jnp.float64 if lane == "f64" else jnp.float32
cache = {}
def get(shape3, axis, diam, bg):
    key = (shape3, axis, diam, bg)
    if key not in cache:
        materials = {"poly": fdtdx.Material(permittivity=2.4), "air": fdtdx.Material(permittivity=1.0)}
        cfg = fdtdx.SimulationConfig(time=100e-15, grid=fdtdx.UniformGrid(spacing=500e-9), backend="cpu", dtype=fdt)
        brush = circular_brush(diam)
        name = {"default": None, "explicit_low": "air", "explicit_high": "poly"}[bg]
        t = BrushConstraint2D(brush=brush, axis=axis, background_material=name)
        t = t.init_module(config=cfg, materials=materials, matrix_voxel_grid_shape=shape3,
                          single_voxel_size=(5e-7, 5e-7, 5e-7), output_shape={"params": shape3})
        t = t.init_type({"params": ParameterType.CONTINUOUS})
        cache[key] = (jax.jit(lambda a, t=t: t({"params": a})["params"]), np.asarray(brush))
    return cache[key]
sys.stdout.write("@@READY\n"); sys.stdout.flush()
for line in sys.stdin:
    req = json.loads(line)
    try:
        shape3 = tuple(req["shape3"])
        fn, brush = get(shape3, req["axis"], req["diameter"], req["bg"])
        x = jnp.asarray(np.array(req["x"], dtype=np.float64).reshape(shape3), dtype=fdt)
        out = np.asarray(fn(x))
        resp = {"ok": True, "out": np.asarray(out, dtype=np.float64).tolist(), "shape": list(out.shape),
                "brush": brush.astype(int).tolist()}
    except Exception as e:
        resp = {"ok": False, "error": type(e).__name__ + ": " + str(e)[:500], "tb": traceback.format_exc()[-2500:]}
    sys.stdout.write("@@RESP " + json.dumps(resp) + "\n"); sys.stdout.flush()
"""


class _Server:
    def __init__(self):
        self.proc = None
        self.lane = None
        self.buf = b""

    def start(self, lane):
        self.stop()
        code = _CHILD % {"verif": engine.VERIF_DIR}
        self.proc = subprocess.Popen([sys.executable, "-c", code, lane], stdin=subprocess.PIPE, stdout=subprocess.PIPE,
                                     stderr=subprocess.DEVNULL, env=dict(os.environ))
        self.lane = lane
        self.buf = b""
        line = self._readline(900.0)
        if line is None or not line.startswith("@@READY"):
            self.stop()
            raise HarnessError("C25 child process did not start")

    def stop(self):
        if self.proc is not None:
            try:
                self.proc.kill()
                self.proc.wait(timeout=10)
            except Exception:
                pass
        self.proc = None

    def _readline(self, timeout):
        end = time.time() + timeout
        fd = self.proc.stdout.fileno()
        while True:
            while b"\n" in self.buf:
                line, self.buf = self.buf.split(b"\n", 1)
                s = line.decode("utf-8", "replace")
                if s.startswith("@@"):
                    return s
            left = end - time.time()
            if left <= 0:
                return None
            r, _, _ = select.select([fd], [], [], min(left, 5.0))
            if r:
                chunk = os.read(fd, 1 << 16)
                if not chunk:
                    raise HarnessError("C25 child process died")
                self.buf += chunk

    def ensure(self, lane):
        if self.proc is None or self.proc.poll() is not None or self.lane != lane:
            self.start(lane)

    def request(self, lane, req, timeout):
        self.ensure(lane)
        self.proc.stdin.write((json.dumps(req) + "\n").encode())
        self.proc.stdin.flush()
        line = self._readline(timeout)
        if line is None:
            self.stop()  # hung or too slow: kill the child, the next case starts a fresh one
            return None
        return json.loads(line[len("@@RESP "):])


_SERVER = _Server()
_TIMEOUTS = [0]
_DURATIONS: list = []


def body(ctx, case):
    H, W = case["size"]
    axis = case["axis"]
    shape3 = [H, W]
    shape3.insert(axis, 1)
    a = build_design(case)
    bdisk = disk(case["diameter"])
    guard = 120.0 if ctx.tier == "quick" else 300.0
    _SERVER.ensure(ctx.lane)  # start-up (import of jax/fdtdx) is not charged to the per-case guard
    t0 = time.time()
    req = {"shape3": shape3, "axis": axis, "diameter": case["diameter"], "bg": case["bg"], "x": a.reshape(-1).tolist()}
    resp = _SERVER.request(ctx.lane, req, guard)
    if resp is None:
        _TIMEOUTS[0] += 1
        ctx.metric("guard_timeouts", _TIMEOUTS[0])
        # One guard expiry is inconclusive. The property says the constraint *terminates*: a reproducible hang is
        # promoted to a violation only when (a) a second attempt in a fresh child with a 3x guard also expires and
        # (b) the completed cases of this same run (same machine load) needed at most guard/20 each.
        resp = _SERVER.request(ctx.lane, req, 3 * guard)
        if resp is None:
            _TIMEOUTS[0] += 1
            ctx.metric("guard_timeouts", _TIMEOUTS[0])
            done = sorted(_DURATIONS)
            if len(done) >= 3 and done[-1] <= guard / 20.0:
                ctx.nontrivial(True)
                ctx.check(False, f"BrushConstraint2D did not terminate: two attempts exceeded {guard:.0f} s and "
                                 f"{3 * guard:.0f} s while the {len(done)} completed cases of this run took at most "
                                 f"{done[-1]:.1f} s each", observed="no result", expected="terminates")
            raise Skip()
    ctx.metric("guard_timeouts", _TIMEOUTS[0])
    ctx.metric("seconds_per_case", time.time() - t0)
    _DURATIONS.append(time.time() - t0)
    ctx.classify("size=%dx%d" % (H, W), "diameter=%g" % case["diameter"], "axis=%d" % axis, "bg=" + case["bg"],
                 "design=" + case["design"]["kind"])
    if not resp["ok"]:
        ctx.check(False, "BrushConstraint2D raised on an in-domain design: " + resp["error"], observed=resp["tb"],
                  expected="binary brush-feasible design")
    brush = np.array(resp["brush"], dtype=bool)
    ctx.check(brush.shape == bdisk.shape and bool((brush == bdisk).all()),
              f"circular_brush({case['diameter']}) is not the rasterised disk", observed=brush.astype(int).tolist(),
              expected=bdisk.astype(int).tolist())
    ctx.check(resp["shape"] == shape3, "output shape differs from the input shape", observed=resp["shape"],
              expected=shape3)
    out = np.array(resp["out"], dtype=np.float64).reshape(H, W)
    ctx.check(bool(np.isin(out, [0.0, 1.0]).all()), "output is not binary", observed=np.unique(out).tolist()[:8],
              expected=[0, 1])
    solid = out == 1.0
    void = ~solid
    ctx.nontrivial(bool(solid.any() and void.any()))
    ctx.classify("both_phases" if solid.any() and void.any() else ("all_solid" if solid.any() else "all_void"))
    ctx.metric("solid_fraction", float(solid.mean()))
    for name, region in (("solid", solid), ("void", void)):
        cov = brush_cover(region, bdisk, "any")
        miss = region & ~cov
        if miss.any():
            i = tuple(int(v) for v in np.argwhere(miss)[0])
            ctx.check(False, f"{int(miss.sum())} {name} pixels are not covered by any brush placement (diameter "
                             f"{case['diameter']}) lying inside the {name} region, first at {i}; output:\n"
                             + "\n".join("".join("#" if v else "." for v in row) for row in solid),
                      observed=int(miss.sum()), expected=0)
        if (region & ~brush_cover(region, bdisk, "domain")).any():
            ctx.classify(name + "_needs_out_of_domain_centres")


SUBS = [
    Sub(name="brush", body=body, strategy=lambda ctx: case_strategy(ctx), quick=60, thorough=1500, lanes=("f64", "f32"),
        f32_fraction=0.25, rule="output binary; solid and void are unions of in-region brush footprints",
        max_seconds_quick=400.0, max_seconds_thorough=1500.0),
]
KNOWN_CLASSES = {}
