#!/bin/bash
# tools/eval_seeded.sh <outdir-with-patch.diff+demo.py> <PROP> [check args...]
# 1. demo on clean /repo/src must exit 0; 2. demo on patched scratch copy must exit != 0; 3. run ./check PROP against the patched copy.
SRC=$1; PROP=$2; shift 2
D=$(mktemp -d /tmp/fdtdx-seed-XXXXXX); trap 'rm -rf "$D"' EXIT
mkdir -p "$D/repo"; cp -r /repo/src "$D/repo/src"
(cd "$D/repo" && patch -p1 --quiet --no-backup-if-mismatch < "$SRC/patch.diff") || { echo "$PROP patch-failed"; exit 3; }
if diff -rq /repo/src "$D/repo/src" >/dev/null; then echo "$PROP patch-noop"; exit 3; fi
cd /tmp
# most demos take the src directory; some take its parent ("source-root contains src")
if grep -q 'rstrip("/") + "/src"\|contains src' "$SRC/demo.py"; then A=/repo; B="$D/repo"; else A=/repo/src; B="$D/repo/src"; fi
JAX_PLATFORMS=cpu PYTHONDONTWRITEBYTECODE=1 timeout 1800 /venv/bin/python "$SRC/demo.py" $A > "$D/clean.log" 2>&1; c=$?
JAX_PLATFORMS=cpu PYTHONDONTWRITEBYTECODE=1 timeout 1800 /venv/bin/python "$SRC/demo.py" "$B" > "$D/mut.log" 2>&1; m=$?
cd /verif
out=$(VERIF_REPO_SRC="$D/repo/src" ./check "$PROP" --no-evidence "$@" 2>&1); rc=$?
echo "$PROP demo_clean=$c demo_patched=$m check_rc=$rc :: $(echo "$out" | grep -m1 -A1 '^VIOLATION' | tr '\n' ' ' | cut -c1-260) $(echo "$out" | tail -1 | cut -c1-160)"
[ $m -eq 0 ] && { echo "--- demo on patched tree did not fail:"; tail -5 "$D/mut.log"; }
[ $c -ne 0 ] && { echo "--- demo on clean tree failed:"; tail -5 "$D/clean.log"; }
exit 0
