"""C40 — functional updates (`TreeClass.aset`) never mutate their input.

A case is a JSON *spec* of a nested object (real fdtdx classes or synthetic TreeClasses holding lists / dicts /
tuples / arrays / scalars) plus a sequence of update operations `(path, value spec, create_new_ok)`.  The body builds
the real object, applies the operations one after the other with `aset` and compares, after every operation,

  * the result against a pure-Python model (a deep snapshot of the previous version in which exactly the addressed
    node was replaced by the snapshot of the new value) — class names, container kinds, scalar types, array dtypes
    are part of the snapshot (dict key order is not), so "same type" and "only the addressed path changed" are one
    equality;
  * the snapshots of *every earlier version* (the original included) against the snapshots taken when they were
    created — nothing that was handed to `aset` may change, now or by a later update of a derived object.

The path grammar is the documented one (`a->b->[0]->['name']`): attribute, integer index (negative allowed),
quoted dictionary key.  Documented error contract also checked: a missing attribute / key without
`create_new_ok=True` raises and leaves the object untouched.
"""

from __future__ import annotations

import numpy as np
from hypothesis import strategies as st

from pbt.engine import Sub

ID = "C40"
RULE = (
    "Hypothesis draws a root template (SimulationConfig with GradientConfig/Recorder/module list, Material with a "
    "DispersionModel, OnOffSwitch, EnergyDetector with a switch, UniformMaterialObject, Device with a material "
    "dict and a transform list, ObjectContainer with an object list, or a random synthetic Node/Leaf tree of depth "
    "<= 3 with list, dict, tuple, array and scalar fields, frozen and plain), then 1-6 operations; each operation "
    "addresses a node that exists in the current model (enumerated from the spec, so paths are valid by "
    "construction; tuples are not descended into because they cannot be item-assigned) and replaces it by a freshly "
    "drawn value (type-compatible for real classes, arbitrary for synthetic containers), or creates a new "
    "attribute / dict key with create_new_ok=True, or (error op) addresses a missing attribute / key without it. "
    "Non-trivial = at least one successful update whose path has >= 2 segments or crosses a list / dict. "
    "Distinct = sha1 of the case JSON."
)
ASSUMPTIONS = [
    "values are compared by deep value snapshots (class name, container kind, scalar type, array "
    "dtype/shape/content); object identity of untouched siblings is not asserted either way; dict key *order* is "
    "not part of the value (dict pytree nodes come back in sorted key order from jax)",
    "real fdtdx fields with normalising setters (Material tensors) are assigned already-normalised values so that "
    "'the addressed path holds the value that was passed' is the documented behaviour",
    "dictionary keys avoid single quotes and square brackets (documented restriction); tuples and jax arrays are "
    "replaced as a whole, never indexed (no __setitem__)",
]

# ------------------------------------------------------------------------------------------------
# synthetic classes and the registry of constructors
# ------------------------------------------------------------------------------------------------
_REG = None


def registry():
    global _REG
    if _REG is not None:
        return _REG
    import fdtdx
    import jax
    from fdtdx.core.jax.pytrees import TreeClass, autoinit, field, frozen_field
    from fdtdx.fdtd.container import ObjectContainer

    @autoinit
    class Leaf(TreeClass):
        x: float = frozen_field(default=1.0)
        n: int = field(default=0)
        arr: jax.Array = field(default=None)
        tags: list = frozen_field(default=None)
        meta: dict = frozen_field(default=None)

    @autoinit
    class Node(TreeClass):
        a: TreeClass = field(default=None)
        b: TreeClass = frozen_field(default=None)
        items: list = field(default=None)
        table: dict = field(default=None)
        pair: tuple = field(default=None)
        label: str = frozen_field(default="n")

    _REG = {
        "Leaf": Leaf,
        "Node": Node,
        "SimulationConfig": fdtdx.SimulationConfig,
        "UniformGrid": fdtdx.UniformGrid,
        "GradientConfig": fdtdx.GradientConfig,
        "Recorder": fdtdx.Recorder,
        "LinearReconstructEveryK": fdtdx.LinearReconstructEveryK,
        "DtypeConversion": fdtdx.DtypeConversion,
        "Material": fdtdx.Material,
        "DispersionModel": fdtdx.DispersionModel,
        "LorentzPole": fdtdx.LorentzPole,
        "DrudePole": fdtdx.DrudePole,
        "OnOffSwitch": fdtdx.OnOffSwitch,
        "EnergyDetector": fdtdx.EnergyDetector,
        "UniformMaterialObject": fdtdx.UniformMaterialObject,
        "Device": fdtdx.Device,
        "ClosestIndex": fdtdx.ClosestIndex,
        "StandardToInversePermittivityRange": fdtdx.StandardToInversePermittivityRange,
        "ObjectContainer": ObjectContainer,
    }
    return _REG


# ------------------------------------------------------------------------------------------------
# spec -> real object, spec -> paths, real object -> snapshot
# ------------------------------------------------------------------------------------------------
def build(spec):
    import jax.numpy as jnp

    t = spec["t"]
    if t in ("float", "int", "str", "bool"):
        return {"float": float, "int": int, "str": str, "bool": bool}[t](spec["v"])
    if t == "none":
        return None
    if t == "dtype":
        return getattr(jnp, spec["v"])
    if t == "list":
        return [build(s) for s in spec["v"]]
    if t == "tuple":
        return tuple(build(s) for s in spec["v"])
    if t == "dict":
        return {_key(k): build(s) for k, s in spec["v"]}
    if t == "arr":
        rng = np.random.default_rng(spec["seed"])
        a = rng.integers(-9, 9, size=tuple(spec["shape"])).astype(np.float32)
        return jnp.asarray(a) if spec.get("kind", "jax") == "jax" else a
    if t == "obj":
        return registry()[spec["cls"]](**{k: build(s) for k, s in spec["f"].items()})
    raise ValueError(t)


def _key(k):
    return k


def snap(x):
    """Deep, value-only, type-aware snapshot of an arbitrary object graph."""
    from fdtdx.core.jax.pytrees import TreeClass

    if isinstance(x, TreeClass):
        names = sorted(vars(x).keys())
        return ("obj", type(x).__module__ + "." + type(x).__qualname__, tuple((n, snap(getattr(x, n))) for n in names))
    if isinstance(x, dict):
        # key order is not part of a dict's value (jax rebuilds dict pytree nodes in sorted key order)
        return ("dict", type(x).__name__, tuple(sorted(((repr(k), snap(v)) for k, v in x.items()), key=lambda p_: p_[0])))
    if isinstance(x, list):
        return ("list", tuple(snap(v) for v in x))
    if isinstance(x, tuple):
        return ("tuple", tuple(snap(v) for v in x))
    if isinstance(x, np.ndarray) or (hasattr(x, "shape") and hasattr(x, "dtype") and hasattr(x, "__array__")):
        a = np.asarray(x)
        return ("array", "np" if isinstance(x, np.ndarray) else "jax", str(a.dtype), a.shape, a.tobytes())
    if x is None or isinstance(x, (bool, int, float, complex, str)):
        return ("scalar", type(x).__name__, repr(x))
    return ("other", type(x).__name__, repr(x))


def snap_children(s):
    """-> list of (segment kind, op, child snapshot) for a container snapshot."""
    if s[0] == "obj":
        return [("attr", n, c) for n, c in s[2]]
    if s[0] == "list":
        return [("idx", i, c) for i, c in enumerate(s[1])]
    if s[0] == "dict":
        return [("key", k, c) for k, c in s[2]]
    return []


def snap_get(s, path):
    for kind, op in path:
        s = _snap_child(s, kind, op)
    return s


def _snap_child(s, kind, op):
    if kind == "attr" and s[0] == "obj":
        return dict(s[2])[op]
    if kind == "idx" and s[0] == "list":
        return s[1][op]
    if kind == "key" and s[0] == "dict":
        return dict(s[2])[repr(op)]
    raise KeyError((kind, op, s[0]))


def snap_set(s, path, new, create=False):
    """The model of aset: a copy of snapshot `s` in which exactly the node at `path` is `new`."""
    if not path:
        return new
    (kind, op), rest = path[0], path[1:]
    if kind == "attr" and s[0] == "obj":
        fields = dict(s[2])
        if op not in fields:
            assert create and not rest
            fields[op] = new
        else:
            fields[op] = snap_set(fields[op], rest, new, create)
        return ("obj", s[1], tuple(sorted(fields.items())))
    if kind == "idx" and s[0] == "list":
        items = list(s[1])
        items[op] = snap_set(items[op], rest, new, create)
        return ("list", tuple(items))
    if kind == "key" and s[0] == "dict":
        items = [list(p) for p in s[2]]
        for p_ in items:
            if p_[0] == repr(op):
                p_[1] = snap_set(p_[1], rest, new, create)
                break
        else:
            assert create and not rest
            items.append([repr(op), new])
        return ("dict", s[1], tuple(sorted((tuple(p_) for p_ in items), key=lambda p_: p_[0])))
    raise KeyError((kind, op, s[0]))


def get_node(spec, path):
    cur = spec
    for kind, op in path:
        cur = _child(cur, kind, op)
    return cur


def _child(spec, kind, op):
    if kind == "attr":
        return spec["f"][op]
    if kind == "idx":
        return spec["v"][op]
    if kind == "key":
        for k, s in spec["v"]:
            if k == op:
                return s
        raise KeyError(op)
    raise ValueError(kind)


def set_node(spec, path, new, create=False):
    """Pure functional replacement in the spec tree (the model of aset)."""
    if not path:
        return new
    (kind, op), rest = path[0], path[1:]
    if kind == "attr":
        f = dict(spec["f"])
        f[op] = set_node(f[op], rest, new, create) if rest else new
        return {**spec, "f": f}
    if kind == "idx":
        v = list(spec["v"])
        v[op] = set_node(v[op], rest, new, create) if rest else new
        return {**spec, "v": v}
    if kind == "key":
        v = [list(p) for p in spec["v"]]
        for p in v:
            if p[0] == op:
                p[1] = set_node(p[1], rest, new, create) if rest else new
                break
        else:
            assert create and not rest
            v.append([op, new])
        return {**spec, "v": v}
    raise ValueError(kind)


def all_paths(spec, prefix=()):
    """Every addressable node below `spec` (the root itself excluded)."""
    out = []
    t = spec["t"]
    if t == "obj":
        for name, s in spec["f"].items():
            p = prefix + (("attr", name),)
            out.append(p)
            out.extend(all_paths(s, p))
    elif t == "list":
        for i, s in enumerate(spec["v"]):
            p = prefix + (("idx", i),)
            out.append(p)
            out.extend(all_paths(s, p))
    elif t == "dict":
        for k, s in spec["v"]:
            p = prefix + (("key", k),)
            out.append(p)
            out.extend(all_paths(s, p))
    return out


def path_string(root_snap, path, negative_mask=0):
    """Render in the documented grammar; bit i of negative_mask renders the i-th index segment negatively."""
    parts = []
    cur = root_snap
    n_idx = 0
    for kind, op in path:
        if kind == "attr":
            parts.append(op)
        elif kind == "idx":
            if (negative_mask >> n_idx) & 1 and cur is not None and cur[0] == "list":
                parts.append("[%d]" % (op - len(cur[1])))
            else:
                parts.append("[%d]" % op)
            n_idx += 1
        else:
            parts.append("['%s']" % op)
        try:
            cur = _snap_child(cur, kind, op) if cur is not None else None
        except (KeyError, IndexError):
            cur = None
    return "->".join(parts)


# ------------------------------------------------------------------------------------------------
# strategies
# ------------------------------------------------------------------------------------------------
def F(v):
    return {"t": "float", "v": float(v)}


def I(v):
    return {"t": "int", "v": int(v)}


def S(v):
    return {"t": "str", "v": v}


def B(v):
    return {"t": "bool", "v": bool(v)}


NONE = {"t": "none"}


def TUP(*xs):
    return {"t": "tuple", "v": list(xs)}


def LST(*xs):
    return {"t": "list", "v": list(xs)}


def OBJ(cls, **f):
    return {"t": "obj", "cls": cls, "f": f}


def DCT(**kv):
    return {"t": "dict", "v": [[k, s] for k, s in kv.items()]}


floats = st.sampled_from([0.5, 1.0, 2.25, 3.5, 12.25, 1e-15, 7e-8, 0.99])
ints = st.integers(0, 9)
KEYS = ["k", "z", "si", "air", "a b", "x->y", "7", "", "Key_2"]
ATTR_NEW = ["extra", "_cache", "note2"]


@st.composite
def tensor9(draw):
    return TUP(*[F(draw(floats)) if i in (0, 4, 8) else F(draw(st.sampled_from([0.0, 0.0, 0.25]))) for i in range(9)])


@st.composite
def pole_spec(draw):
    if draw(st.booleans()):
        return OBJ("LorentzPole", resonance_frequency=F(draw(floats) * 1e15), damping=F(draw(floats) * 1e13),
                   delta_epsilon=F(draw(floats)))
    return OBJ("DrudePole", plasma_frequency=F(draw(floats) * 1e15), damping=F(draw(floats) * 1e13))


@st.composite
def material_spec(draw, dispersive=None):
    f = {"permittivity": draw(tensor9()), "permeability": draw(tensor9())}
    if draw(st.booleans()):
        f["electric_conductivity"] = draw(tensor9())
    disp = draw(st.booleans()) if dispersive is None else dispersive
    if disp:
        f["dispersion"] = OBJ("DispersionModel", poles=TUP(*draw(st.lists(pole_spec(), min_size=1, max_size=2))))
    else:
        f["dispersion"] = NONE
    return OBJ("Material", **f)


@st.composite
def switch_spec(draw):
    f = {"start_time": F(draw(floats) * 1e-15), "interval": I(draw(st.integers(1, 5))),
         "is_always_off": B(draw(st.booleans()))}
    f["fixed_on_time_steps"] = LST(*[I(draw(ints)) for _ in range(draw(st.integers(1, 4)))]) if draw(st.booleans()) else NONE
    return OBJ("OnOffSwitch", **f)


@st.composite
def module_spec(draw):
    if draw(st.booleans()):
        return OBJ("LinearReconstructEveryK", k=I(draw(st.integers(1, 8))), start_recording_after=I(draw(ints)))
    return OBJ("DtypeConversion", dtype={"t": "dtype", "v": draw(st.sampled_from(["float16", "bfloat16", "float32"]))},
               exclude_filter=TUP(*[S(s) for s in draw(st.sampled_from([[], ["_H"], ["_E", "pml"]]))]))


@st.composite
def config_spec(draw):
    rec = OBJ("Recorder", modules=LST(*draw(st.lists(module_spec(), min_size=1, max_size=3))))
    grad = OBJ("GradientConfig", method=S(draw(st.sampled_from(["reversible", "checkpointed"]))),
               num_checkpoints=I(draw(st.integers(1, 9))), num_checkpoints_reversible=I(draw(ints)), recorder=rec)
    return OBJ("SimulationConfig", time=F(draw(floats) * 1e-13), grid=OBJ("UniformGrid", spacing=F(draw(floats) * 1e-8)),
               backend=S("cpu"), dtype={"t": "dtype", "v": draw(st.sampled_from(["float32", "float64"]))},
               courant_factor=F(draw(floats) / 13.0), symmetry=TUP(*[I(draw(st.sampled_from([0, 0, 1]))) for _ in range(3)]),
               gradient_config=grad)


@st.composite
def detector_spec(draw, name="det"):
    return OBJ("EnergyDetector", name=S(name), switch=draw(switch_spec()), plot=B(draw(st.booleans())),
               as_slices=B(draw(st.booleans())), reduce_volume=B(draw(st.booleans())))


@st.composite
def uniform_object_spec(draw, name="box"):
    return OBJ("UniformMaterialObject", name=S(name), material=draw(material_spec()),
               partial_real_shape=TUP(F(draw(floats) * 1e-6), NONE, F(draw(floats) * 1e-6)),
               placement_order=I(draw(ints)))


@st.composite
def device_spec(draw):
    mats = {k: draw(material_spec(dispersive=False)) for k in draw(st.sampled_from([["air", "si"], ["a b", "k", "z"]]))}
    tr = [OBJ("StandardToInversePermittivityRange"), OBJ("ClosestIndex")][: draw(st.integers(1, 2))]
    return OBJ("Device", name=S("dev"), materials=DCT(**mats), param_transforms=LST(*tr),
               partial_voxel_real_shape=TUP(F(1e-7), F(1e-7), F(1e-7)))


@st.composite
def container_spec(draw):
    objs = [draw(uniform_object_spec(name="box%d" % i)) if draw(st.booleans()) else draw(detector_spec(name="det%d" % i))
            for i in range(draw(st.integers(1, 3)))]
    return OBJ("ObjectContainer", object_list=LST(*objs), volume_idx=I(0))


def scalar_spec():
    return st.one_of(floats.map(F), ints.map(I), st.sampled_from(["p", "q", "long name"]).map(S), st.booleans().map(B),
                     st.just(NONE))


@st.composite
def arr_spec(draw):
    return {"t": "arr", "seed": draw(st.integers(0, 999)), "shape": draw(st.lists(st.integers(1, 3), min_size=1, max_size=2)),
            "kind": draw(st.sampled_from(["jax", "jax", "np"]))}


def synth_value(depth):
    """Arbitrary synthetic value spec of bounded depth."""
    if depth <= 0:
        return st.one_of(scalar_spec(), arr_spec())
    sub = st.deferred(lambda: synth_value(depth - 1))
    return st.one_of(
        scalar_spec(),
        arr_spec(),
        st.lists(sub, min_size=1, max_size=3).map(lambda v: {"t": "list", "v": v}),
        st.lists(sub, min_size=1, max_size=2).map(lambda v: {"t": "tuple", "v": v}),
        st.lists(st.tuples(st.sampled_from(KEYS), sub), min_size=1, max_size=3, unique_by=lambda p: p[0]).map(
            lambda v: {"t": "dict", "v": [list(p) for p in v]}),
        leaf_spec(depth - 1),
        node_spec(depth - 1),
    )


@st.composite
def leaf_spec(draw, depth=0):
    f = {"x": F(draw(floats)), "n": I(draw(ints))}
    if draw(st.booleans()):
        f["arr"] = draw(arr_spec())
    if draw(st.booleans()):
        f["tags"] = LST(*[S(draw(st.sampled_from(["p", "q", "r"]))) for _ in range(draw(st.integers(1, 3)))])
    if draw(st.booleans()):
        f["meta"] = {"t": "dict", "v": [[k, draw(scalar_spec())] for k in draw(st.lists(st.sampled_from(KEYS), min_size=1,
                                                                                         max_size=3, unique=True))]}
    return OBJ("Leaf", **f)


@st.composite
def node_spec(draw, depth=1):
    sub = synth_value(depth)
    f = {"label": S(draw(st.sampled_from(["n", "m"])))}
    f["a"] = draw(st.one_of(leaf_spec(), node_spec(depth - 1))) if depth > 0 else draw(leaf_spec())
    if draw(st.booleans()):
        f["b"] = draw(leaf_spec())
    f["items"] = LST(*draw(st.lists(sub, min_size=1, max_size=3)))
    f["table"] = {"t": "dict", "v": [[k, draw(sub)] for k in draw(st.lists(st.sampled_from(KEYS), min_size=1, max_size=3,
                                                                               unique=True))]}
    if draw(st.booleans()):
        f["pair"] = TUP(draw(scalar_spec()), draw(scalar_spec()))
    return OBJ("Node", **f)


REAL = {"SimulationConfig", "UniformGrid", "GradientConfig", "Recorder", "LinearReconstructEveryK", "DtypeConversion",
        "Material", "DispersionModel", "LorentzPole", "DrudePole", "OnOffSwitch", "EnergyDetector", "UniformMaterialObject",
        "Device", "ClosestIndex", "StandardToInversePermittivityRange", "ObjectContainer"}


@st.composite
def replacement(draw, old, parent):
    """A new value for a node that currently holds `old` inside `parent` (type-compatible under real classes)."""
    t = old["t"]
    under_real = parent["t"] == "obj" and parent["cls"] in REAL
    in_typed_container = False
    if not under_real and parent["t"] in ("list", "dict"):
        # containers of real fdtdx objects keep their element type (modules, materials, object_list, ...)
        in_typed_container = t == "obj" and old["cls"] in REAL
    if not under_real and not in_typed_container:
        return draw(synth_value(1))
    if t == "float":
        return F(draw(floats) * draw(st.sampled_from([1.0, 1e-15, 1e6])))
    if t == "int":
        return I(draw(ints))
    if t == "bool":
        return B(draw(st.booleans()))
    if t == "str":
        return S(draw(st.sampled_from(["cpu", "renamed", "reversible", "x y"])))
    if t == "dtype":
        return {"t": "dtype", "v": draw(st.sampled_from(["float16", "float32", "bfloat16"]))}
    if t == "none":
        return NONE
    if t == "tuple":
        if len(old["v"]) == 9:
            return draw(tensor9())
        return TUP(*[draw(replacement(s, {"t": "obj", "cls": "Material", "f": {}})) for s in old["v"]])
    if t == "list":
        n = draw(st.integers(1, 3))
        proto = old["v"][0] if old["v"] else I(0)
        return LST(*[draw(replacement(proto, {"t": "obj", "cls": "Material", "f": {}})) for _ in range(n)])
    if t == "dict":
        return {"t": "dict", "v": [[k, draw(replacement(s, {"t": "obj", "cls": "Material", "f": {}}))] for k, s in old["v"]]}
    if t == "obj":
        c = old["cls"]
        if c == "Material":
            return draw(material_spec())
        if c == "OnOffSwitch":
            return draw(switch_spec())
        if c in ("LinearReconstructEveryK", "DtypeConversion"):
            return draw(module_spec())
        if c in ("LorentzPole", "DrudePole"):
            return draw(pole_spec())
        if c == "DispersionModel":
            return OBJ("DispersionModel", poles=TUP(*draw(st.lists(pole_spec(), min_size=1, max_size=2))))
        if c == "UniformMaterialObject":
            return draw(uniform_object_spec(name="new_box"))
        if c == "EnergyDetector":
            return draw(detector_spec(name="new_det"))
        if c == "SimulationConfig":
            return draw(config_spec())
        if c == "GradientConfig":
            return draw(config_spec())["f"]["gradient_config"]
        # same class, every field redrawn recursively
        return OBJ(c, **{k: draw(replacement(s, old)) for k, s in old["f"].items()})
    return old


@st.composite
def case_strategy(draw, ctx):
    kind = draw(st.sampled_from(["config", "material", "switch", "detector", "uobject", "device", "container",
                                 "synthetic", "synthetic", "synthetic"]))
    root = draw({"config": config_spec(), "material": material_spec(), "switch": switch_spec(),
                 "detector": detector_spec(), "uobject": uniform_object_spec(), "device": device_spec(),
                 "container": container_spec(), "synthetic": node_spec(2)}[kind])
    ops = []
    cur = root
    for _ in range(draw(st.integers(1, 6))):
        paths = all_paths(cur)
        mode = draw(st.sampled_from(["set"] * 8 + ["create", "error"]))
        if mode == "set":
            # bias towards deep paths: draw two, keep the longer
            p1, p2 = draw(st.sampled_from(paths)), draw(st.sampled_from(paths))
            path = p1 if len(p1) >= len(p2) else p2
            parent = get_node(cur, path[:-1])
            new = draw(replacement(get_node(cur, path), parent))
            ops.append({"mode": "set", "path": [list(s) for s in path], "neg": draw(st.integers(0, 3)), "value": new,
                        "create_flag": draw(st.booleans())})
            cur = set_node(cur, list(path), new)
            continue
        # create / error: need a dict or a synthetic object to hang a new name on
        hosts = [()] + paths
        hosts = [p for p in hosts if (lambda n: n["t"] == "dict" or (n["t"] == "obj" and n["cls"] in ("Leaf", "Node")))(
            get_node(cur, p))]
        if not hosts:
            continue
        host = draw(st.sampled_from(hosts))
        node = get_node(cur, host)
        if node["t"] == "dict":
            free = [k for k in KEYS + ["fresh"] if k not in [q[0] for q in node["v"]]]
            seg = ("key", draw(st.sampled_from(free)))
        else:
            seg = ("attr", draw(st.sampled_from(ATTR_NEW)))
            if seg[1] in node["f"]:
                continue
        new = draw(synth_value(1))
        path = list(host) + [seg]
        ops.append({"mode": mode, "path": [list(s) for s in path], "neg": 0, "value": new, "create_flag": mode == "create"})
        if mode == "create":
            if seg[0] == "key":
                cur = set_node(cur, path, new, create=True)
            else:
                hostnode = dict(node)
                hostnode["f"] = {**node["f"], seg[1]: new}
                cur = set_node(cur, list(host), hostnode) if host else hostnode
    return {"kind": kind, "root": root, "ops": ops}


# ------------------------------------------------------------------------------------------------
# body
# ------------------------------------------------------------------------------------------------
def body(ctx, case):
    obj = build(case["root"])
    versions = [(obj, snap(obj))]
    ctx.classify("root=" + case["kind"])
    deep = False
    n_ok = 0
    for i, op in enumerate(case["ops"]):
        path = [tuple(s) for s in op["path"]]
        before, before_snap = versions[-1]
        pstr = path_string(before_snap, path, op.get("neg", 0))
        value = build(op["value"])
        value_snap = snap(value)
        if op["mode"] == "error":
            raised = False
            try:
                before.aset(pstr, value)
            except Exception:
                raised = True
            ctx.check(raised, f"op {i}: aset('{pstr}') on a missing attribute/key without create_new_ok did not raise")
            ctx.classify("op=error")
        else:
            after = before.aset(pstr, value, create_new_ok=bool(op["create_flag"]))
            n_ok += 1
            expected = snap_set(before_snap, path, value_snap, create=op["mode"] == "create")
            got = snap(after)
            ctx.check(type(after) is type(before), f"op {i}: aset('{pstr}') returned {type(after).__name__}, "
                                                   f"input was {type(before).__name__}")
            ctx.check(after is not before, f"op {i}: aset('{pstr}') returned the input object itself")
            if got != expected:
                where = _first_diff(got, expected)
                ctx.check(False, f"op {i}: after aset('{pstr}', {_short(op['value'])}) the result differs from the model "
                                 f"(only the addressed node replaced) at {where[0]}",
                          observed=_short_snap(where[1]), expected=_short_snap(where[2]))
            ctx.check(snap(value) == value_snap, f"op {i}: aset('{pstr}') mutated the value that was passed in")
            versions.append((after, got))
            kinds = {s[0] for s in path}
            deep = deep or len(path) >= 2 or bool(kinds & {"idx", "key"})
            ctx.classify("op=" + op["mode"], "depth=%d" % min(len(path), 4), *("seg=" + k for k in sorted(kinds)))
            if "-" in pstr.replace("->", ""):
                ctx.classify("negative-index")
        # nothing handed to aset so far may have changed — the original and every intermediate version
        upto = versions if op["mode"] == "error" else versions[:-1]
        for j, (o, s0) in enumerate(upto):
            s1 = snap(o)
            if s1 != s0:
                where = _first_diff(s1, s0)
                ctx.check(False, f"op {i}: aset('{pstr}') changed version {j} of the object (the input of this or of an "
                                 f"earlier update) at {where[0]}", observed=_short_snap(where[1]),
                          expected=_short_snap(where[2]))
    ctx.nontrivial(n_ok >= 1 and deep)


def _first_diff(a, b, path="root"):
    if type(a) is not type(b) or not isinstance(a, tuple) or not isinstance(b, tuple):
        return (path, a, b) if a != b else None
    if len(a) != len(b) or (a and a[0] != b[0]):
        return path, a, b
    for i, (x, y) in enumerate(zip(a, b)):
        if x != y:
            name = path
            if isinstance(x, tuple) and len(x) == 2 and isinstance(x[0], str):
                name = path + "." + x[0]
            d = _first_diff(x, y, name)
            if d is not None:
                return d
            return path + f"[{i}]", x, y
    return None


def _short_snap(s):
    r = repr(s)
    return r if len(r) < 300 else r[:300] + "..."


def _short(spec):
    r = repr(spec)
    return r if len(r) < 120 else r[:120] + "..."


SUBS = [
    Sub(name="aset_sequences", body=body, strategy=lambda ctx: case_strategy(ctx), quick=1000, thorough=60000,
        lanes=("f64",), rule="random nested objects, 1-6 chained functional updates against a snapshot model"),
]
KNOWN_CLASSES = {}
