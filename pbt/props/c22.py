"""C22 — GaussianSmoothing2D: affine, constants fixed, output within the input/padding range, mirror-equivariant.

With S(x; P) the transform for a design x and a padding set P = (low0, high0, low1, high1; each an array or None =
edge replication), the property text gives these oracles (numpy float64 on the outputs):
    affine      S(t*a + (1-t)*b; P) == t*S(a; P) + (1-t)*S(b; P)          (any real t)
    linear      with P all None:  S(al*a + be*b) == al*S(a) + be*S(b)      (any al, be)
    constants   S(c*1; P) == c*1 when every supplied padding array equals c (or is None)
    range       min(x, supplied paddings) <= S(x; P) <= max(x, supplied paddings)
    mirror      S(flip_k x; mirror_k P) == flip_k S(x; P),  k = axis 0, axis 1 or both; mirror_k swaps the low/high
                arrays of axis k and reverses the arrays of the other axis
    side        (from the field docs "padding before / after axis k") a constant design a with one supplied padding
                side c != a is pulled towards c most strongly in the row/column next to that side.
"""

from __future__ import annotations

import numpy as np
from hypothesis import strategies as st

from pbt.engine import Sub

ID = "C22"
RULE = (
    "Hypothesis draws the 2-D design size (2..10 per axis), the position of the singleton axis, std_discrete in "
    "{1,2,3}, which of the four padding arrays are supplied (each independently; all-None = edge replication in a "
    "third of the cases), an rng seed for two designs a, b and the padding values (uniform [0,1], uniform [-2,3] or "
    "binary), the affine weight t (or a free pair al, be when no padding is supplied), the constant c and the mirror "
    "(axis 0, axis 1, both). Non-trivial = at least one padding array supplied or the design non-constant (always "
    "true for the drawn designs; the constant sub-case is an extra evaluation inside each case). The side sub-check "
    "enumerates 4 sides x 3 sigmas x singleton positions x sizes. Distinct = sha1 of the case JSON."
)
ASSUMPTIONS = [
    "tolerance 1e-9 (f64) / 5e-5 (f32; a 19x19 float32 kernel sum has a worst-case error of ~2e-5) times the largest magnitude among designs and paddings",
    "'padding mirrored accordingly' = low/high arrays of the mirrored axis swapped, arrays of the other axis reversed",
    "'matching padding' for the constant claim = every supplied padding array equals the constant",
    "the side check is not in the property sentence itself; it reads the field documentation (padding_low_axis0 = "
    "'padding before axis 0', ...) and exists because a consistent low/high swap is invisible to the other oracles",
    "padding arrays have the documented shapes ((ny,) for axis 0, (nx,) for axis 1); other shapes are not generated",
]

PADS = ["padding_low_axis0", "padding_high_axis0", "padding_low_axis1", "padding_high_axis1"]


@st.composite
def case_strategy(draw, ctx):
    nx, ny = draw(st.integers(2, 10)), draw(st.integers(2, 10))
    if draw(st.integers(0, 2)) == 0:
        flags = [False] * 4
    else:
        flags = [draw(st.booleans()) for _ in range(4)]
    free = not any(flags)
    return {
        "nx": nx,
        "ny": ny,
        "vaxis": draw(st.integers(0, 2)),
        "sigma": draw(st.sampled_from([1, 1, 2, 3])),
        "pads": flags,
        "dist": draw(st.sampled_from(["u01", "u01", "wide", "binary"])),
        "seed": draw(st.integers(0, 2**31 - 1)),
        "t": draw(st.sampled_from([0.5, 0.25, 0.3, -0.5, 1.7])),
        "alpha_beta": [draw(st.sampled_from([1.0, 2.0, -1.5, 0.3])), draw(st.sampled_from([1.0, -1.0, 0.7, 3.0]))]
        if free else None,
        "const": draw(st.sampled_from([0.0, 1.0, 0.5, -0.75, 3.25])),
        "mirror": draw(st.sampled_from(["0", "1", "01"])),
    }


# ----------------------------------------------------------------------------------------------
_JIT_CACHE: dict = {}


def _make(shape3, sigma, pads, lane_f64):
    """GaussianSmoothing2D initialised the way a Device does it; `pads` = list of 4 (array | None)."""
    import fdtdx
    import jax.numpy as jnp
    from fdtdx.materials import Material
    from fdtdx.objects.device.parameters.continuous import GaussianSmoothing2D
    from fdtdx.typing import ParameterType

    dtype = jnp.float64 if lane_f64 else jnp.float32
    cfg = fdtdx.SimulationConfig(time=100e-15, grid=fdtdx.UniformGrid(spacing=50e-9), backend="cpu", dtype=dtype)
    mats = {"air": Material(permittivity=1.0), "si": Material(permittivity=12.25)}
    t = GaussianSmoothing2D(std_discrete=sigma, **{k: v for k, v in zip(PADS, pads)})
    t = t.init_module(config=cfg, materials=mats, matrix_voxel_grid_shape=shape3,
                      single_voxel_size=(50e-9, 50e-9, 50e-9), output_shape={"params": shape3})
    return t.init_type({"params": ParameterType.CONTINUOUS})


def _batch_fn(ctx, shape3, sigma, flags):
    """jitted (list of designs, list of padding sets) -> list of outputs; padding arrays are traced so that the
    compiled function is reused for every case with the same (shape, sigma, supplied-padding pattern)."""
    import jax

    key = (shape3, sigma, tuple(flags), ctx.lane)
    if key not in _JIT_CACHE:
        f64 = ctx.f64

        def f(xs, padsets):
            out = []
            for x, ps in zip(xs, padsets):
                t = _make(shape3, sigma, ps, f64)
                out.append(t({"params": x})["params"])
            return out

        if len(_JIT_CACHE) > 3000:
            _JIT_CACHE.clear()
        _JIT_CACHE[key] = jax.jit(f)
    return _JIT_CACHE[key]


def _draw_arr(rng, dist, shape):
    if dist == "u01":
        return rng.uniform(0, 1, shape)
    if dist == "wide":
        return rng.uniform(-2, 3, shape)
    return (rng.uniform(0, 1, shape) > 0.5).astype(np.float64)


def _mirror_pads(pads, k):
    lo0, hi0, lo1, hi1 = pads
    rev = lambda p: None if p is None else p[::-1].copy()  # noqa: E731
    if k == 0:
        return [hi0, lo0, rev(lo1), rev(hi1)]
    return [rev(lo0), rev(hi0), hi1, lo1]


def body(ctx, case):
    import jax.numpy as jnp

    np_dtype = np.float64 if ctx.f64 else np.float32
    nx, ny, va, sigma = case["nx"], case["ny"], case["vaxis"], case["sigma"]
    flags = list(case["pads"])
    rng = np.random.default_rng(case["seed"])
    a2 = _draw_arr(rng, case["dist"], (nx, ny)).astype(np_dtype)
    b2 = _draw_arr(rng, case["dist"], (nx, ny)).astype(np_dtype)
    plen = [ny, ny, nx, nx]
    pads = [(_draw_arr(rng, case["dist"], (plen[i],)).astype(np_dtype) if flags[i] else None) for i in range(4)]
    ax = [k for k in range(3) if k != va]  # 3-D axes of the 2-D rows / columns
    shape3 = tuple(np.expand_dims(a2, va).shape)
    to3 = lambda z: np.expand_dims(z, va)  # noqa: E731

    if case["alpha_beta"] is not None:
        al, be = case["alpha_beta"]
    else:
        al, be = case["t"], 1.0 - case["t"]
    mix2 = (al * a2.astype(np.float64) + be * b2.astype(np.float64)).astype(np_dtype)
    c = case["const"]
    const2 = np.full((nx, ny), c, dtype=np_dtype)
    const_pads = [(np.full((plen[i],), c, dtype=np_dtype) if flags[i] else None) for i in range(4)]
    flipped2, mpads = a2, pads
    for ch in case["mirror"]:
        k = int(ch)
        flipped2 = np.flip(flipped2, axis=k)
        mpads = _mirror_pads(mpads, k)

    fn = _batch_fn(ctx, shape3, sigma, flags)
    j = lambda z: None if z is None else jnp.asarray(z)  # noqa: E731
    xs = [j(to3(a2)), j(to3(b2)), j(to3(mix2)), j(to3(const2)), j(to3(np.ascontiguousarray(flipped2)))]
    padsets = [[j(p) for p in ps] for ps in (pads, pads, pads, const_pads, mpads)]
    outs = [np.asarray(o) for o in fn(xs, padsets)]
    for o in outs:
        ctx.check(o.shape == shape3, f"output shape {o.shape} != input shape {shape3}", list(o.shape), list(shape3))
    ya, yb, ymix, yconst, yflip = (np.squeeze(o, va).astype(np.float64) for o in outs)

    supplied = [p.astype(np.float64) for p in pads if p is not None]
    allvals = np.concatenate([a2.astype(np.float64).ravel()] + [p.ravel() for p in supplied])
    scale = max(float(np.abs(allvals).max()), float(np.abs(b2).max()), abs(c), 1.0)
    tol = ctx.tol(1e-9, 5e-5)

    ctx.classify(f"sigma={sigma}", f"vaxis={va}", "pads=" + "".join("1" if f else "0" for f in flags),
                 "dist=" + case["dist"], "mirror=" + case["mirror"],
                 "linear(al,be)" if case["alpha_beta"] is not None else "affine(t)",
                 "kernel>design" if 6 * sigma + 1 > min(nx, ny) else "kernel<=design")
    ctx.nontrivial(any(flags) or len(np.unique(a2)) > 1)

    ctx.check(all(np.isfinite(o).all() for o in outs), "non-finite output")
    # affine / linear
    ctx.close(ymix, al * ya + be * yb, tol=tol, scale=scale * (abs(al) + abs(be)),
              msg=f"not {'linear' if case['alpha_beta'] is not None else 'affine'} (al={al}, be={be}, pads={flags})",
              metric="affine_err")
    # constants
    ctx.close(yconst, np.full((nx, ny), float(np_dtype(c))), tol=tol, scale=max(abs(c), 1.0),
              msg=f"constant design {c} with matching/default padding is changed (sigma={sigma}, pads={flags})",
              metric="const_err")
    # range
    lo, hi = allvals.min(), allvals.max()
    ctx.metric("range_excess", max(lo - ya.min(), ya.max() - hi, 0.0) / scale)
    ctx.check(ya.min() >= lo - tol * scale and ya.max() <= hi + tol * scale,
              f"output leaves the range of input and padding values (sigma={sigma}, pads={flags})",
              observed=[float(ya.min()), float(ya.max())], expected=[float(lo), float(hi)], tolerance=tol * scale)
    # mirror equivariance
    expect = ya
    for ch in case["mirror"]:
        expect = np.flip(expect, axis=int(ch))
    ctx.close(yflip, expect, tol=tol, scale=scale,
              msg=f"does not commute with mirroring axis {case['mirror']} (sigma={sigma}, pads={flags})",
              metric="mirror_err")


# ----------------------------------------------------------------------------------------------
# padding side (documentation-derived)
# ----------------------------------------------------------------------------------------------
def side_cases(ctx):
    sizes = [(2, 5), (6, 3), (4, 4)] if ctx.tier == "quick" else [(2, 5), (6, 3), (4, 4), (7, 2), (3, 7), (5, 6)]
    i = 0
    for side in range(4):
        for sigma in (1, 2, 3):
            for va in range(3):
                for (nx, ny) in sizes:
                    i += 1
                    if ctx.tier == "quick" and i % 3 != ctx.seed % 3:
                        continue
                    yield {"side": side, "sigma": sigma, "vaxis": va, "nx": nx, "ny": ny,
                           "a": [0.0, 1.0, 0.25][(i // 3) % 3], "c": [1.0, -2.0, 0.75][(i // 3) % 3]}


def side_body(ctx, case):
    import jax.numpy as jnp

    np_dtype = np.float64 if ctx.f64 else np.float32
    nx, ny, va, sigma, side = case["nx"], case["ny"], case["vaxis"], case["sigma"], case["side"]
    a, c = case["a"], case["c"]
    flags = [i == side for i in range(4)]
    plen = [ny, ny, nx, nx]
    pads = [(jnp.asarray(np.full((plen[i],), c, dtype=np_dtype)) if flags[i] else None) for i in range(4)]
    x3 = np.expand_dims(np.full((nx, ny), a, dtype=np_dtype), va)
    fn = _batch_fn(ctx, tuple(x3.shape), sigma, flags)
    y = np.squeeze(np.asarray(fn([jnp.asarray(x3)], [pads])[0]), va).astype(np.float64)
    pull = (y - a) / (c - a)  # 0 = untouched, 1 = equal to the padding value
    axis = 0 if side < 2 else 1
    near = pull.take(0 if side % 2 == 0 else -1, axis=axis)
    far = pull.take(-1 if side % 2 == 0 else 0, axis=axis)
    ctx.classify(PADS[side], f"sigma={sigma}", f"vaxis={va}")
    ctx.nontrivial(True)
    tol = ctx.tol(1e-9, 5e-5)
    ctx.check(pull.min() >= -tol and pull.max() <= 1 + tol, f"{PADS[side]}: output outside [design, padding]",
              observed=[float(pull.min()), float(pull.max())], expected=[0.0, 1.0], tolerance=tol)
    ctx.check(near.min() >= 0.1, f"{PADS[side]}={c} hardly reaches the row/column next to it (design {a}, "
              f"sigma={sigma}, {nx}x{ny})", observed=float(near.min()), expected=">= 0.1")
    ctx.check((near > far + 1e-6).all(), f"{PADS[side]}={c} acts at least as strongly on the opposite edge "
              f"(design {a}, sigma={sigma}, {nx}x{ny})", observed={"near": float(near.min()), "far": float(far.max())},
              expected="near > far")


SUBS = [
    Sub(name="invariants", body=body, strategy=lambda ctx: case_strategy(ctx), quick=120, thorough=16000,
        lanes=("f64", "f32"), f32_fraction=0.25,
        rule="affine/linear, constants, range and mirror equivariance in one drawn configuration"),
    Sub(name="padding_side", body=side_body, cases=side_cases, lanes=("f64",), exhaustive=False,
        exhaustive_quick=False, rule="4 sides x 3 sigmas x 3 singleton positions x sizes; one third in the quick tier"),
]
KNOWN_CLASSES = {}
