"""C09 — periodic and Bloch domains match their supercells.

A domain of N cells with periodic / Bloch(k) boundaries is compared with the domain of m*N cells that has the
same boundary kinds, the same wave vector k (so the phase across the supercell is m times the phase across
the cell), per-cell materials tiled m times and the initial fields tiled m times with the factor
exp(i k L p) on copy p.  Both are advanced with the real ``forward`` step; after every step every copy of the
supercell must equal the small domain times its copy factor.

The oracle is the supercell itself (differential, same code on a domain whose interior knows the true
neighbour of every cell); the tiling, the copy factors and the per-cell material inversion are plain numpy.
"""

from __future__ import annotations

import itertools

import numpy as np
from hypothesis import strategies as st

from pbt import scenes
from pbt.engine import Skip, Sub

ID = "C09"
RULE = (
    "Hypothesis draws 1-3 periodic axes (each either kind 'periodic' = zero Bloch vector, or 'bloch' with a "
    "phase advance per cell from {0, +-0.7, 1.9, -2.4, pi, 2.5*pi/3 ...}), N in 2..6 cells on every periodic "
    "axis (2..4 in the full-tensor third of the cases, which always carry a non-zero Bloch phase) and tiling factor "
    "m in {2,3} on each of them, the remaining axes 2..6 cells "
    "with two independent faces from {zero halo, PEC, PMC}; uniform or rectilinear grid (widths tiled, first "
    "= last width on periodic axes); per-cell random materials written into the placed arrays and tiled: eps "
    "isotropic / diagonal / full SPD tensor, mu absent / isotropic / diagonal / full, optional per-cell "
    "sigma_E, sigma_H; wall-consistent dense random E,H (complex when a Bloch phase is non-zero) plus drawn "
    "impulses; 10..25 forward steps, compared after every step on every copy. Non-trivial = a non-zero Bloch "
    "phase on >= 1 axis or >= 2 periodic axes, and non-zero fields. Distinct = sha1 of the case JSON."
)
ASSUMPTIONS = [
    "'the same boundaries' is read as: same boundary kind per face and the same Bloch wave vector k; the phase "
    "across the supercell is therefore m times the phase across the cell",
    "on a rectilinear grid the widths are tiled and a periodic axis has first width = last width (the Yee dual "
    "width at index 0 is taken from the first cell, so only such grids are translation invariant across the wrap)",
    "tolerance 1e-9 (f64) / 2e-4 (f32) relative to the largest field magnitude of the small run at that step",
    "the non-periodic axes carry any closed boundary; PML is not generated (the property speaks of periodic "
    "domains 'with the same boundaries', absorbing layers are covered by C08/C12)",
]

PHASES = [0.0, 0.7, -0.7, 1.9, -2.4, 3.141592653589793, 2.6179938779914944, 0.05, 5.5]


@st.composite
def case_strategy(draw, ctx):
    # worker-dependent rotation of the top-level choices: Hypothesis starts every run with the all-minimal example,
    # which would otherwise be the same case in every worker process
    rot = getattr(ctx, "seed", 0) * 7 + getattr(ctx, "shard", 0) * 3 + (1 if ctx.lane == "f32" else 0)

    def pick(options):
        return options[(draw(st.integers(0, len(options) - 1)) + rot) % len(options)]

    # full tensors cost 5-10x (compile + batched 3x3 solves): about one case in three, and those always carry a Bloch phase
    # (the off-diagonal averages read the phase-corrected halo)
    full = pick([True, False, False, False])
    per_axes = pick([[0], [1], [2], [0, 1], [1, 2], [0, 2], [0, 1, 2], [2], [0, 1], [1]])
    shape, m, faces, phase = [], [], {}, [0.0, 0.0, 0.0]
    any_bloch = full or draw(st.integers(0, 3)) > 0  # 3/4 of the other cases carry a Bloch phase
    for ax in range(3):
        an = scenes.AXNAME[ax]
        shape.append(draw(st.integers(2, 4 if full else 6)))
        if ax in per_axes:
            kind = draw(st.sampled_from(["bloch", "bloch", "periodic"])) if any_bloch else "periodic"
            if full and ax == per_axes[0]:
                kind = "bloch"
            faces[f"min_{an}"] = {"kind": kind}
            faces[f"max_{an}"] = {"kind": kind}
            if kind == "bloch":
                phase[ax] = draw(st.sampled_from(PHASES[1:] if (full and ax == per_axes[0]) else PHASES))
            m.append(draw(st.sampled_from([2, 3])))
        else:
            for side in ("min", "max"):
                faces[f"{side}_{an}"] = {"kind": draw(st.sampled_from(["none", "pec", "pmc"]))}
            m.append(1)
    grid = draw(scenes.grid_strategy(shape, faces, kinds=("uniform", "uniform", "rect")))
    # One rectilinear case in four leaves the first and last width of a periodic axis different. The property does
    # not restrict the grid, but fdtdx's Yee dual width at index 0 ignores the wrapped neighbour (known finding F15);
    # these cases are generated so that the class is *counted* and excluded by KNOWN_CLASSES, not silently avoided.
    if grid["kind"] == "rect" and draw(st.integers(0, 3)) == 0:
        ax = per_axes[draw(st.integers(0, len(per_axes) - 1))]
        w = grid["widths"][ax]
        w[-1] = 1.6 if w[0] != 1.6 else 0.75
    eps_tier = draw(st.sampled_from(["iso", "diag", "diag"]))
    mu_tier = draw(st.sampled_from(["none", "iso", "diag", "diag"]))
    if full:
        which = draw(st.sampled_from(["eps", "eps", "mu", "both"]))
        eps_tier = "full" if which in ("eps", "both") else eps_tier
        mu_tier = "full" if which in ("mu", "both") else mu_tier
    spec = {
        "shape": shape,
        "steps": draw(st.integers(10, 15 if "full" in (eps_tier, mu_tier) else 25)),
        "courant": draw(st.sampled_from([0.5, 0.8, 0.99])),
        "grid": grid,
        "faces": faces,
        "bloch_phase": phase,
    }
    n_imp = draw(st.integers(0, 2))
    imp = [
        [draw(st.integers(0, 5)), draw(st.integers(0, 5)), draw(st.integers(0, 5)), draw(st.integers(0, 5)),
         draw(st.sampled_from([1.0, -2.0, 0.5]))]
        for _ in range(n_imp)
    ]
    return {
        "scene": spec,
        "m": m,
        "eps_tier": eps_tier,
        "mu_tier": mu_tier,
        "sigE": draw(st.sampled_from([None, None, "iso", "diag"])),
        "sigH": draw(st.sampled_from([None, None, None, "iso"])),
        "field_seed": draw(st.integers(0, 2**31 - 1)) + rot,
        "mat_seed": draw(st.integers(0, 2**31 - 1)),
        "impulses": imp,
        "dense": draw(st.sampled_from([1, 1, 1, 0])) if n_imp else 1,
    }


# ----------------------------------------------------------------------------------------------
# plain numpy helpers (oracle side)
# ----------------------------------------------------------------------------------------------
_BG = {
    "iso": 2.0,
    "diag": [2.0, 3.0, 4.0],
    "full": [2.0, 0.1, 0.2, 0.1, 3.0, 0.3, 0.2, 0.3, 4.0],
}


def _background(case):
    bg = {"eps": _BG[case["eps_tier"]]}
    if case["mu_tier"] != "none":
        bg["mu"] = {"iso": 1.5, "diag": [1.5, 2.0, 1.2], "full": [1.5, 0.1, 0.0, 0.1, 2.0, 0.2, 0.0, 0.2, 1.2]}[
            case["mu_tier"]]
    if case["sigE"]:
        bg["sigE"] = 1.0 if case["sigE"] == "iso" else [1.0, 2.0, 3.0]
    if case["sigH"]:
        bg["sigH"] = 1.0
    return bg


def _random_inverse(rng, ncomp, shape):
    """Per-cell inverse material array with leading dimension 1, 3 or 9 (9 = inverse of an SPD tensor)."""
    if ncomp in (1, 3):
        return 1.0 / rng.uniform(1.0, 8.0, (ncomp, *shape))
    d = rng.uniform(2.0, 6.0, (3, *shape))
    o = rng.uniform(-0.45, 0.45, (3, *shape))  # xy, xz, yz; Gershgorin: 2 > 0.9
    T = np.zeros((*shape, 3, 3))
    for i in range(3):
        T[..., i, i] = d[i]
    for n, (i, j) in enumerate(((0, 1), (0, 2), (1, 2))):
        T[..., i, j] = o[n]
        T[..., j, i] = o[n]
    Ti = np.linalg.inv(T)
    Ti = (Ti + np.swapaxes(Ti, -1, -2)) / 2
    return np.moveaxis(Ti.reshape(*shape, 9), -1, 0)


def tile(a, m):
    """Tile the three trailing (spatial) axes of `a`."""
    return np.tile(a, (1,) * (a.ndim - 3) + tuple(m))


def supercell_spec(spec, m):
    s = dict(spec)
    s["shape"] = [spec["shape"][a] * m[a] for a in range(3)]
    s["bloch_phase"] = [spec["bloch_phase"][a] * m[a] for a in range(3)]
    if spec["grid"]["kind"] == "rect":
        s["grid"] = {"kind": "rect", "widths": [list(spec["grid"]["widths"][a]) * m[a] for a in range(3)]}
    return s


def run_steps(built, arrays, steps):
    """`steps` real `forward` steps under one jax.jit(lax.scan); returns E, H after every step, shape
    (steps, 3, nx, ny, nz).  (Eager calls compile every primitive per shape and a full-tensor eager step costs about
    a second; a jitted single step costs 50-150 ms per call in pytree handling alone.)"""
    import jax
    import jax.numpy as jnp
    from fdtdx.fdtd.forward import forward

    def one(state, _):
        new = forward(state, built.config, built.objects, built.key, record_detectors=False,
                      record_boundaries=False, simulate_boundaries=True)
        return new, (new[1].fields.E, new[1].fields.H)

    state = (jnp.asarray(0, dtype=jnp.int32), arrays)
    Es, Hs = jax.jit(lambda st_: jax.lax.scan(one, st_, None, length=steps)[1])(state)
    return np.asarray(Es), np.asarray(Hs)


def body(ctx, case):
    import jax.numpy as jnp
    from fdtdx.constants import eta0

    spec = dict(case["scene"])
    m = case["m"]
    shape = tuple(spec["shape"])
    spec["background"] = _background(case)
    big_spec = supercell_spec(spec, m)

    small = scenes.build(spec, ctx.lane)
    big = scenes.build(big_spec, ctx.lane)

    # ---- per-cell materials, drawn for the cell and tiled ------------------------------------------
    rng = np.random.default_rng(case["mat_seed"])
    mats = {}
    ie = small.arrays.inv_permittivities
    mats["inv_permittivities"] = _random_inverse(rng, ie.shape[0], shape)
    im = small.arrays.inv_permeabilities
    if hasattr(im, "shape") and getattr(im, "ndim", 0) == 4:
        mats["inv_permeabilities"] = _random_inverse(rng, im.shape[0], shape)
    c = small.config.courant_number
    for key, fac in (("electric_conductivity", 2.0 / (c * eta0)), ("magnetic_conductivity", 2.0 * eta0 / c)):
        sg = getattr(small.arrays, key)
        if sg is not None:
            # loss factor c*sigma*eta*inv/2 per cell in [0, 0.3] (some cells lossless)
            a = rng.uniform(0.0, 0.3, sg.shape) * (rng.uniform(0, 1, sg.shape) > 0.3)
            mats[key] = a * fac * rng.uniform(1.0, 4.0, sg.shape)

    def with_materials(built, reps):
        arrays = built.arrays
        for key, val in mats.items():
            old = getattr(arrays, key)
            new = tile(val, reps)
            assert new.shape == old.shape, (key, new.shape, old.shape)
            arrays = arrays.aset(key, jnp.asarray(new, dtype=old.dtype))
        return arrays

    a_small = with_materials(small, (1, 1, 1))
    a_big = with_materials(big, m)

    # ---- initial fields: wall-consistent in the cell, tiled with the copy factors ---------------------
    cplx = np.iscomplexobj(np.asarray(a_small.fields.E))
    ctx.check(cplx == np.iscomplexobj(np.asarray(a_big.fields.E)),
              "cell and supercell disagree on complex storage", observed=bool(cplx))
    E0 = scenes.random_field(case["field_seed"], shape, cplx, [i for i in case["impulses"] if i[0] < 3], case["dense"])
    H0 = scenes.random_field(case["field_seed"] + 1, shape, cplx,
                             [[i[0] - 3, *i[1:]] for i in case["impulses"] if i[0] >= 3], case["dense"])
    a_small = scenes.project_walls(scenes.set_fields(a_small, E0, H0), small.objects)
    E0 = np.asarray(a_small.fields.E)
    H0 = np.asarray(a_small.fields.H)

    phase = [float(p) for p in spec["bloch_phase"]]
    eff_phase = [phase[a] if spec["faces"][f"min_{scenes.AXNAME[a]}"]["kind"] == "bloch" else 0.0 for a in range(3)]
    copies = list(itertools.product(*[range(k) for k in m]))

    def factor(p):
        return np.exp(1j * sum(eff_phase[a] * p[a] for a in range(3))) if cplx else 1.0

    def tiled(F):
        out = np.zeros((3, *(shape[a] * m[a] for a in range(3))), dtype=F.dtype)
        for p in copies:
            sl = tuple(slice(p[a] * shape[a], (p[a] + 1) * shape[a]) for a in range(3))
            out[(slice(None), *sl)] = F * factor(p)
        return out

    a_big = scenes.set_fields(a_big, tiled(E0), tiled(H0))
    a_big = scenes.project_walls(a_big, big.objects)  # idempotent on a tiled wall-consistent state

    nz_phase = [a for a in range(3) if eff_phase[a] != 0.0]
    per_axes = [a for a in range(3) if m[a] > 1]
    ctx.classify(f"periodic_axes={len(per_axes)}", f"bloch_axes={len(nz_phase)}", "complex" if cplx else "real",
                 "grid=" + spec["grid"]["kind"], "eps=" + case["eps_tier"], "mu=" + case["mu_tier"],
                 "m=" + "x".join(str(k) for k in m), "lossy" if (case["sigE"] or case["sigH"]) else "lossless",
                 *("face=" + k for k in sorted({f["kind"] for f in spec["faces"].values()})))
    if not (np.abs(E0).max() > 0 or np.abs(H0).max() > 0):
        raise Skip()
    ctx.nontrivial(len(nz_phase) >= 1 or len(per_axes) >= 2)

    tol = ctx.tol(1e-9, 2e-4)
    hist_small = run_steps(small, a_small, spec["steps"])
    hist_big = run_steps(big, a_big, spec["steps"])
    for t in range(spec["steps"] + 1):
        for n, name in enumerate(("E", "H")):
            f = (E0, H0)[n] if t == 0 else hist_small[n][t - 1]
            F = np.asarray(getattr(a_big.fields, name)) if t == 0 else hist_big[n][t - 1]
            ctx.check(bool(np.isfinite(f).all() and np.isfinite(F).all()), f"non-finite {name} at step {t}")
            ctx.close(F, tiled(f), tol=tol, scale=max(float(np.abs(f).max()), 1e-30),
                      msg=f"supercell {name} differs from the tiled cell after {t} steps", metric=f"{name}_err")


SUBS = [
    Sub(name="supercell", body=body, strategy=lambda ctx: case_strategy(ctx), quick=10, thorough=1000,
        lanes=("f64", "f32"), f32_fraction=0.25, quick_shards=2,
        rule="periodic/Bloch cell vs tiled supercell, every copy, every step"),
]


def _f15(case):
    g = case["scene"]["grid"]
    if g["kind"] != "rect":
        return False
    faces = case["scene"]["faces"]
    return any(faces[f"min_{scenes.AXNAME[a]}"]["kind"] in ("periodic", "bloch") and g["widths"][a][0] != g["widths"][a][-1]
               for a in range(3))


KNOWN_CLASSES = {"F15": _f15}
