"""C37 — grid geometry helpers are exact (RectilinearGrid / UniformGrid / QuasiUniformGrid, SimulationConfig).

Every oracle is a plain float64 numpy statement about the *stored* edge coordinates (read back from the grid as data):
optimality predicates for snapping (any minimiser is accepted at a tie), differences / products of edges for extents,
areas and volumes, the closed-form CFL bound, and a model of uniform detection / symmetric reduction written from the
docstrings.  No helper is used to compute the expectation of another one.
"""

from __future__ import annotations

import numpy as np
from hypothesis import strategies as st

from pbt.engine import Skip, Sub

ID = "C37"
RULE = (
    "Hypothesis draws three independent edge arrays (1..13 cells; widths from a palette spanning 0.05..20 x a scale "
    "in {1, 0.05, 1e-7, 2.5e-8}, or equal widths; origin at 0, centred, or shifted by up to +-40 widths), stored in "
    "the lane's dtype (float64 / float32 = production). snap: 12 queries per grid — coordinates exactly on an edge, on "
    "a cell midpoint (tie), inside, up to 2 extents outside and 1e3 extents outside, for nearest/lower/upper. "
    "interval: 10 queries of bounds_for_center / bounds_for_anchor / anchor_coordinate with sizes 1..N, anchors in "
    "[-1,1] incl. +-1, 0, targets inside/outside/on ties, plus the documented ValueErrors (size <= 0, size > N). "
    "metrics: extents, slice_extent, cell widths/centres, face areas, cell volumes, sub-grids for drawn slices, on "
    "rectilinear grids and on the UniformGrid / QuasiUniformGrid policies. cfl: time step for courant factors in "
    "(0,1] on rectilinear, uniform, quasi-uniform grids and through SimulationConfig. uniform: detection on exactly "
    "uniform grids (up to 2000 cells, origins up to 1e3 cells away), on grids with >= 1 % deviation in one cell, "
    "policy resolution (shape, centring, odd-shape rejection). symmetric: reduce_symmetric against a slicing model, "
    "odd counts and >= 1 % asymmetric widths rejected. Non-trivial = a stretched (non-equal-width) axis is involved, "
    "or the query is a tie / outside the grid / an error case. Distinct = sha1 of the case JSON."
)
ASSUMPTIONS = [
    "'nearest' is read as distance(result) <= min distance + 4 ulp(dtype) * max(|coordinate|, |edges|): any "
    "minimiser at a tie, and float32 rounding of the distance itself, are accepted",
    "'lower' = the last edge <= coordinate, 'upper' = the first edge >= coordinate (a coordinate exactly on an edge "
    "maps to that edge for both); they are only queried inside [first edge, last edge]",
    "interval choice is checked on RectilinearGrid (the property's observation point); the UniformGrid policy's "
    "bounds_for_center/bounds_for_anchor make no minimising claim and are only required to preserve the size",
    "CFL: dt * c * sqrt(sum_a 1/min_width_a^2) <= courant_factor * (1 + 2e-4) (the slack covers grids that are "
    "'uniform' within the documented 1e-4 tolerance and the 14-decimal rounding of the stored spacing)",
    "uniform detection is exercised away from its tolerance edge: deviations <= 1e-6 (plus storage round-off) must "
    "be uniform, >= 1 % in at least one cell (edges within 2000 cells of the origin) must not be",
    "float32 lane tolerances: widths/extents 4 ulp of the largest |edge|; areas/volumes 2e-4 relative",
]

SCALES = [1.0, 0.05, 1e-7, 2.5e-8]
FACT = [1.0, 1.0, 0.6, 0.8, 1.25, 1.6, 0.05, 3.0, 20.0]
LENS = [1, 2, 3, 4, 5, 8, 13]
C0 = 299792458.0


# ----------------------------------------------------------------------------------------------------------------
# grids
# ----------------------------------------------------------------------------------------------------------------
@st.composite
def axis_strategy(draw, lens=LENS):
    n = draw(st.sampled_from(lens))
    if draw(st.integers(0, 3)) == 0:
        w = [1.0] * n
    else:
        w = [draw(st.sampled_from(FACT)) for _ in range(n)]
    origin = draw(st.sampled_from(["zero", "centre", "centre", "shift"]))
    shift = draw(st.sampled_from([3.3, -7.25, 40.0, -40.0])) if origin == "shift" else 0.0
    return {"w": w, "origin": origin, "shift": shift}


@st.composite
def grid_strategy(draw, lens=LENS):
    return {"scale": draw(st.sampled_from(SCALES)), "axes": [draw(axis_strategy(lens)) for _ in range(3)]}


def edges_of(g, dtype):
    out = []
    for ax in g["axes"]:
        e = np.concatenate([[0.0], np.cumsum(np.asarray(ax["w"], dtype=np.float64))])
        if ax["origin"] == "centre":
            e = e - e[-1] / 2.0
        e = (e + ax["shift"]) * g["scale"]
        out.append(e.astype(dtype))
    return out


def make_grid(ctx, g):
    import fdtdx

    dt = np.float64 if ctx.f64 else np.float32
    e = edges_of(g, dt)
    if any(np.any(np.diff(x) <= 0) for x in e):
        raise Skip()  # storage rounding collapsed a cell; RectilinearGrid documents rejecting that
    grid = fdtdx.RectilinearGrid(x_edges=e[0], y_edges=e[1], z_edges=e[2])
    stored = [np.asarray(grid.edges(a)) for a in range(3)]
    for a in range(3):
        ctx.check(stored[a].dtype == dt and np.array_equal(stored[a], e[a]),
                  f"axis {a}: stored edges differ from the edges passed in (dtype {stored[a].dtype})",
                  observed=stored[a].tolist(), expected=e[a].tolist())
    eps = float(np.finfo(dt).eps)
    return grid, [s.astype(np.float64) for s in stored], eps


def stretched(g, a=None):
    axes = g["axes"] if a is None else [g["axes"][a]]
    return any(len(set(ax["w"])) > 1 for ax in axes)


def _is_int(x):
    return isinstance(x, (int, np.integer)) and not isinstance(x, bool)


# ----------------------------------------------------------------------------------------------------------------
# snap
# ----------------------------------------------------------------------------------------------------------------
@st.composite
def coord_query(draw, inside_only=False):
    kinds = ["edge", "mid", "in", "in"] + ([] if inside_only else ["out", "out", "far"])
    k = draw(st.sampled_from(kinds))
    return {"kind": k, "i": draw(st.integers(0, 12)), "t": draw(st.floats(0.0, 1.0, allow_nan=False)),
            "sign": draw(st.sampled_from([-1, 1]))}


def coord_value(q, e):
    n = len(e) - 1
    ext = float(e[-1] - e[0])
    if q["kind"] == "edge":
        return float(e[q["i"] % (n + 1)])
    if q["kind"] == "mid":
        i = q["i"] % n
        return 0.5 * (float(e[i]) + float(e[i + 1]))
    if q["kind"] == "in":
        # clamp: e[0] + 1.0 * (e[-1] - e[0]) can land one ulp beyond the last edge, i.e. outside the grid, where the
        # lower/upper rules are not defined by the docs
        return min(max(float(e[0]) + q["t"] * ext, float(e[0])), float(e[-1]))
    base = float(e[-1]) if q["sign"] > 0 else float(e[0])
    return base + q["sign"] * q["t"] * ext * (2.0 if q["kind"] == "out" else 1e3)


@st.composite
def snap_case(draw, ctx):
    g = draw(grid_strategy())
    qs = []
    for _ in range(12):
        snap = draw(st.sampled_from(["nearest", "nearest", "lower", "upper"]))
        qs.append({"axis": draw(st.integers(0, 2)), "snap": snap, "c": draw(coord_query(inside_only=snap != "nearest"))})
    return {"grid": g, "q": qs}


def snap_body(ctx, case):
    grid, E, eps = make_grid(ctx, case["grid"])
    ctx.classify("stretched" if stretched(case["grid"]) else "equal-widths")
    nt = False
    for q in case["q"]:
        a, snap = q["axis"], q["snap"]
        e = E[a]
        n = len(e) - 1
        c = coord_value(q["c"], e)
        idx = grid.coord_to_index(a, c, snap=snap)
        ctx.classify(f"{snap}:{q['c']['kind']}")
        nt = nt or stretched(case["grid"], a) or q["c"]["kind"] in ("mid", "out", "far", "edge")
        ctx.check(_is_int(idx) and 0 <= idx <= n, f"coord_to_index({a}, {c!r}, {snap}) = {idx!r} is not an edge index "
                  f"in [0, {n}]", observed=repr(idx), expected=f"0..{n}")
        if snap == "nearest":
            d = np.abs(e - c)
            slack = 4 * eps * max(abs(c), float(np.abs(e).max()))
            ctx.metric("nearest_excess_ulps", (d[idx] - d.min()) / max(eps * max(abs(c), float(np.abs(e).max())), 1e-300))
            ctx.check(d[idx] <= d.min() + slack, f"nearest: edge {idx} is {d[idx]:.6g} from {c!r}, edge "
                      f"{int(np.argmin(d))} is {d.min():.6g}", observed=int(idx), expected=int(np.argmin(d)),
                      tolerance=slack)
        elif snap == "lower":
            exp = int(np.max(np.nonzero(e <= c)[0]))
            ctx.check(idx == exp, f"lower: edge {idx} ({e[idx]!r}) is not the last edge <= {c!r} (edge {exp})",
                      observed=int(idx), expected=exp)
        else:
            exp = int(np.min(np.nonzero(e >= c)[0]))
            ctx.check(idx == exp, f"upper: edge {idx} ({e[idx]!r}) is not the first edge >= {c!r} (edge {exp})",
                      observed=int(idx), expected=exp)
    ctx.nontrivial(nt)


# policy grids: index offsets relative to the centre ---------------------------------------------------------------
@st.composite
def policy_case(draw, ctx):
    d = draw(st.sampled_from(SCALES))
    f = [draw(st.sampled_from([1.0, 1.0, 0.5, 2.0])) for _ in range(3)]
    centre = [draw(st.sampled_from([0.0, 0.0, 3.3, -7.25])) * d for _ in range(3)]
    qs = [{"axis": draw(st.integers(0, 2)), "snap": draw(st.sampled_from(["nearest", "lower", "upper"])),
           "k": draw(st.integers(-20, 20)), "frac": draw(st.sampled_from([0.0, 0.5, 0.25, -0.25, 0.4, -0.4, 0.49]))}
          for _ in range(8)]
    return {"d": d, "f": f, "centre": centre, "quasi": draw(st.booleans()), "q": qs,
            "lo": draw(st.integers(-6, 6)), "n": draw(st.integers(1, 9)),
            "p": draw(st.sampled_from([-1.0, 0.0, 1.0, 0.5, -0.3]))}


def policy_body(ctx, case):
    import fdtdx

    d = case["d"]
    if case["quasi"]:
        sp = [d * x for x in case["f"]]
        pol = fdtdx.QuasiUniformGrid(dx=sp[0], dy=sp[1], dz=sp[2], center=tuple(case["centre"]))
    else:
        sp = [d] * 3
        pol = fdtdx.UniformGrid(spacing=d, center=tuple(case["centre"]))
    ctx.classify("quasi" if case["quasi"] else "uniform-policy")
    for q in case["q"]:
        a = q["axis"]
        s, c0 = sp[a], case["centre"][a]
        c = c0 + (q["k"] + q["frac"]) * s
        idx = pol.coord_to_index(a, c, snap=q["snap"])
        ctx.check(_is_int(idx), f"policy coord_to_index returned {idx!r}", observed=repr(idx), expected="int")
        x = (c - c0) / s  # exact position in cells relative to the centre
        slack = 1e-9
        if q["snap"] == "nearest":
            ctx.check(abs(idx - x) <= 0.5 + slack, f"policy nearest: offset {idx} is {abs(idx - x):.6g} cells from "
                      f"{x!r}", observed=int(idx), expected=round(x))
        elif q["snap"] == "lower":
            ctx.check(idx <= x + slack and idx + 1 > x - slack, f"policy lower: offset {idx} for position {x!r}",
                      observed=int(idx), expected=int(np.floor(x)))
        else:
            ctx.check(idx >= x - slack and idx - 1 < x + slack, f"policy upper: offset {idx} for position {x!r}",
                      observed=int(idx), expected=int(np.ceil(x)))
    # extents / areas / volumes of the policy
    lo, n, a = case["lo"], case["n"], case["q"][0]["axis"]
    tol = 1e-12
    ctx.close(pol.axis_extent(a, (lo, lo + n)), n * sp[a], tol=tol, msg="policy axis_extent")
    sl = ((0, n), (1, 1 + 2), (2, 2 + 1))
    ctx.close(np.asarray(pol.slice_extent(sl), dtype=np.float64), np.array([n * sp[0], 2 * sp[1], 1 * sp[2]]), tol=tol,
              msg="policy slice_extent")
    vol = np.asarray(pol.cell_volume(sl), dtype=np.float64)
    ctx.close(vol, np.full((n, 2, 1), sp[0] * sp[1] * sp[2]), tol=ctx.tol(1e-12, 1e-6), msg="policy cell_volume")
    tr = [b for b in range(3) if b != a]
    area = np.asarray(pol.face_area(a, sl), dtype=np.float64)
    shp = tuple(sl[b][1] - sl[b][0] for b in tr)
    ctx.close(area, np.full(shp, sp[tr[0]] * sp[tr[1]]), tol=ctx.tol(1e-12, 1e-6), msg="policy face_area")
    if not case["quasi"]:
        p = case["p"]
        anc = pol.anchor_coordinate(a, (lo, lo + n), p)
        exp = case["centre"][a] + (lo + 0.5 * (p + 1.0) * n) * d
        ctx.close(anc, exp, tol=1e-12, scale=max(abs(exp), d), msg="policy anchor_coordinate")
        b = pol.bounds_for_center(a, exp, n)
        ctx.check(b[1] - b[0] == n, f"policy bounds_for_center does not preserve the size: {b}", observed=list(b),
                  expected=n)
        b = pol.bounds_for_anchor(a, n, exp, p)
        ctx.check(b[1] - b[0] == n, f"policy bounds_for_anchor does not preserve the size: {b}", observed=list(b),
                  expected=n)
        cnt = pol.length_to_cell_count(a, (n + case["q"][0]["frac"] * 0.9) * d)
        ctx.check(abs(cnt - (n + case["q"][0]["frac"] * 0.9)) <= 0.5 + 1e-9, f"policy length_to_cell_count = {cnt}",
                  observed=int(cnt), expected=n)
    ctx.nontrivial(True)


# ----------------------------------------------------------------------------------------------------------------
# interval choice
# ----------------------------------------------------------------------------------------------------------------
@st.composite
def interval_case(draw, ctx):
    g = draw(grid_strategy())
    qs = []
    for _ in range(10):
        qs.append({"axis": draw(st.integers(0, 2)),
                   "fn": draw(st.sampled_from(["center", "anchor", "anchor", "coord", "bad"])),
                   "size": draw(st.integers(1, 13)), "lo": draw(st.integers(0, 12)),
                   "p": draw(st.one_of(st.sampled_from([-1.0, 0.0, 1.0, 0.5, -0.5]), st.floats(-1.0, 1.0, allow_nan=False))),
                   "c": draw(coord_query()), "bad": draw(st.sampled_from([0, -1, "big", "big"]))})
    return {"grid": g, "q": qs}


def interval_body(ctx, case):
    grid, E, eps = make_grid(ctx, case["grid"])
    ctx.classify("stretched" if stretched(case["grid"]) else "equal-widths")
    nt = False
    for q in case["q"]:
        a = q["axis"]
        e = E[a]
        n = len(e) - 1
        size = 1 + (q["size"] - 1) % n
        p = float(q["p"])
        mag = float(np.abs(e).max())
        if q["fn"] == "bad":
            bad = n + 1 + q["lo"] if q["bad"] == "big" else q["bad"]
            for name, call in (("bounds_for_center", lambda: grid.bounds_for_center(a, float(e[0]), bad)),
                               ("bounds_for_anchor", lambda: grid.bounds_for_anchor(a, bad, float(e[0]), p))):
                try:
                    r = call()
                except ValueError:
                    continue
                ctx.check(False, f"{name} accepted the impossible size {bad} on an axis of {n} cells: {r}",
                          observed=repr(r), expected="ValueError")
            ctx.classify("error-case")
            nt = True
            continue
        if q["fn"] == "coord":
            lo = q["lo"] % (n - size + 1)
            got = grid.anchor_coordinate(a, (lo, lo + size), p)
            exp = float(e[lo] + 0.5 * (p + 1.0) * (e[lo + size] - e[lo]))
            ctx.check(isinstance(got, float), f"anchor_coordinate returned {type(got).__name__}", observed=repr(got))
            ctx.close(got, exp, tol=4 * eps, scale=max(mag, 1e-300), msg="anchor_coordinate", metric="anchor_err")
            ctx.classify("anchor_coordinate")
            nt = nt or stretched(case["grid"], a)
            continue
        c = coord_value(q["c"], e)
        slack = 4 * eps * max(abs(c), mag)
        cl = np.arange(0, n - size + 1)
        if q["fn"] == "center":
            got = grid.bounds_for_center(a, c, size)
            anc = 0.5 * (e[cl] + e[cl + size])
            what = f"bounds_for_center({a}, {c!r}, {size})"
            pp = 0.0
        else:
            got = grid.bounds_for_anchor(a, size, c, p)
            anc = e[cl] + 0.5 * (p + 1.0) * (e[cl + size] - e[cl])
            what = f"bounds_for_anchor({a}, {size}, {c!r}, {p!r})"
            pp = p
        ctx.classify(f"{q['fn']}:{q['c']['kind']}")
        ok = (len(got) == 2 and _is_int(got[0]) and _is_int(got[1]) and got[1] - got[0] == size
              and 0 <= got[0] and got[1] <= n)
        ctx.check(ok, f"{what} = {got!r} is not a size-preserving interval inside [0, {n}]", observed=repr(got),
                  expected=f"(lo, lo+{size})")
        d = np.abs(anc - c)
        mine = abs(float(e[got[0]] + 0.5 * (pp + 1.0) * (e[got[1]] - e[got[0]])) - c)
        j = int(np.argmin(d))
        ctx.check(mine <= d.min() + slack, f"{what} = {tuple(got)}: its anchor is {mine:.6g} from the target, interval "
                  f"{(j, j + size)} is closer ({d.min():.6g})", observed=list(got), expected=[j, j + size],
                  tolerance=slack)
        nt = nt or stretched(case["grid"], a) or q["c"]["kind"] in ("mid", "out", "far")
    ctx.nontrivial(nt)


# ----------------------------------------------------------------------------------------------------------------
# extents / areas / volumes
# ----------------------------------------------------------------------------------------------------------------
@st.composite
def metrics_case(draw, ctx):
    g = draw(grid_strategy())
    sl = []
    for _ in range(3):
        lo = draw(st.integers(0, 12))
        sl.append([lo, draw(st.integers(1, 13))])
    return {"grid": g, "slice": sl, "axis": draw(st.integers(0, 2))}


def metrics_body(ctx, case):
    grid, E, eps = make_grid(ctx, case["grid"])
    W = [np.diff(e) for e in E]
    N = [len(e) - 1 for e in E]
    mag = [float(np.abs(e).max()) for e in E]
    ctx.classify("stretched" if stretched(case["grid"]) else "equal-widths")
    ctx.check(tuple(grid.shape) == tuple(N), f"shape {grid.shape} != {N}", observed=list(grid.shape), expected=N)
    sl = []
    for a in range(3):
        size = 1 + (case["slice"][a][1] - 1) % N[a]
        lo = case["slice"][a][0] % (N[a] - size + 1)
        sl.append((lo, lo + size))
    sl = tuple(sl)
    wt = 4 * eps  # widths are differences of stored edges: a few ulp of the largest |edge|
    for a in range(3):
        ctx.close(np.asarray(grid.cell_widths(a), dtype=np.float64), W[a], tol=wt, scale=mag[a], msg=f"cell_widths({a})")
        ctx.close(np.asarray(grid.centers(a), dtype=np.float64), 0.5 * (E[a][:-1] + E[a][1:]), tol=wt, scale=mag[a],
                  msg=f"centers({a})")
        ext = grid.axis_extent(a, sl[a])
        ctx.check(isinstance(ext, float), f"axis_extent returned {type(ext).__name__}", observed=repr(ext))
        ctx.close(ext, float(E[a][sl[a][1]] - E[a][sl[a][0]]), tol=wt, scale=mag[a], msg=f"axis_extent({a}, {sl[a]})")
        ctx.close(float(np.asarray(grid.cell_widths(a), dtype=np.float64)[sl[a][0]:sl[a][1]].sum()), ext,
                  tol=wt * (sl[a][1] - sl[a][0] + 1), scale=mag[a], msg=f"sum of widths vs axis_extent on axis {a}")
        ctx.close(grid.min_spacings[a], float(W[a].min()), tol=wt, scale=mag[a], msg=f"min_spacings[{a}]")
    ctx.close(grid.min_spacing, min(float(w.min()) for w in W), tol=wt, scale=max(mag), msg="min_spacing")
    ctx.close(np.asarray(grid.slice_extent(sl), dtype=np.float64),
              np.array([E[a][sl[a][1]] - E[a][sl[a][0]] for a in range(3)]), tol=wt, scale=max(mag), msg="slice_extent")
    # relative tolerance of products: each width carries wt*mag absolute error
    rel = sum(wt * mag[a] / float(W[a].min()) for a in range(3)) + ctx.tol(1e-13, 1e-6)
    ws = [W[a][sl[a][0]:sl[a][1]] for a in range(3)]
    vol = np.asarray(grid.cell_volume(sl), dtype=np.float64)
    exp = ws[0][:, None, None] * ws[1][None, :, None] * ws[2][None, None, :]
    ctx.check(vol.shape == exp.shape, f"cell_volume shape {vol.shape} != {exp.shape}", observed=list(vol.shape),
              expected=list(exp.shape))
    ctx.check(bool(np.all(np.abs(vol - exp) <= rel * exp)), "cell_volume differs from the product of the cell widths",
              observed=float(np.max(np.abs(vol - exp) / exp)), expected=0.0, tolerance=rel)
    a = case["axis"]
    tr = [b for b in range(3) if b != a]
    area = np.asarray(grid.face_area(a, sl), dtype=np.float64)
    shp = [1, 1, 1]
    shp[tr[0]], shp[tr[1]] = len(ws[tr[0]]), len(ws[tr[1]])
    expa = (ws[tr[0]][:, None] * ws[tr[1]][None, :]).reshape(shp)
    ctx.check(list(area.shape) == shp, f"face_area({a}) shape {area.shape} != {shp}", observed=list(area.shape),
              expected=shp)
    ctx.check(bool(np.all(np.abs(area - expa) <= rel * expa)),
              f"face_area({a}) differs from the product of the transverse cell widths",
              observed=float(np.max(np.abs(area - expa) / expa)), expected=0.0, tolerance=rel)
    # total volume / area are consistent with the extents
    ctx.close(float(vol.sum()), float(np.prod([E[b][sl[b][1]] - E[b][sl[b][0]] for b in range(3)])),
              tol=rel * 4 + 1e-6 * (not ctx.f64), msg="sum of cell volumes vs product of extents")
    sub = grid.subgrid(tuple(slice(lo, hi) for lo, hi in sl))
    for b in range(3):
        ctx.check(np.array_equal(np.asarray(sub.edges(b)).astype(np.float64), E[b][sl[b][0]:sl[b][1] + 1]),
                  f"subgrid edges on axis {b} are not the edges of the slice", observed=np.asarray(sub.edges(b)).tolist(),
                  expected=E[b][sl[b][0]:sl[b][1] + 1].tolist())
    ctx.nontrivial(stretched(case["grid"]))


# ----------------------------------------------------------------------------------------------------------------
# CFL
# ----------------------------------------------------------------------------------------------------------------
@st.composite
def cfl_case(draw, ctx):
    kind = draw(st.sampled_from(["rect", "rect", "uniform", "quasi"]))
    cf = draw(st.one_of(st.sampled_from([0.99, 1.0, 0.5, 0.9]), st.floats(0.05, 1.0, allow_nan=False)))
    if kind == "rect":
        return {"kind": kind, "cf": cf, "grid": draw(grid_strategy())}
    d = draw(st.sampled_from(SCALES + [3.7e-8, 1.2345678e-7]))
    f = [draw(st.sampled_from([1.0, 1.0, 0.5, 2.0, 0.3])) for _ in range(3)]
    return {"kind": kind, "cf": cf, "d": d, "f": f, "shape": [draw(st.sampled_from([2, 4, 6])) for _ in range(3)]}


def cfl_body(ctx, case):
    import fdtdx
    import jax.numpy as jnp

    cf = float(case["cf"])
    ctx.classify(case["kind"])
    dtype = jnp.float64 if ctx.f64 else jnp.float32
    tol = 2e-4

    def bound(dmin):
        return cf / (C0 * np.sqrt(sum(1.0 / float(x) ** 2 for x in dmin)))

    def check(dt, dmin, what):
        lim = bound(dmin)
        ctx.check(isinstance(dt, float) and np.isfinite(dt) and dt > 0, f"{what}: time step {dt!r}", observed=repr(dt))
        ctx.metric("cfl_ratio", dt / lim)
        ctx.check(dt <= lim * (1 + tol), f"{what}: dt = {dt!r} exceeds the CFL limit {lim!r} for courant factor {cf} "
                  f"(ratio {dt / lim:.6f})", observed=dt, expected=lim, tolerance=tol)
        ctx.classify("tight" if dt >= lim * (1 - 1e-3) else "conservative")

    if case["kind"] == "rect":
        grid, E, eps = make_grid(ctx, case["grid"])
        dmin = [float(np.diff(e).min()) for e in E]
        check(grid.cfl_time_step(cf), dmin, "RectilinearGrid.cfl_time_step")
        cfg = fdtdx.SimulationConfig(time=1e-12, grid=grid, backend="cpu", dtype=dtype, courant_factor=cf)
        check(cfg.time_step_duration, dmin, "SimulationConfig.time_step_duration (rectilinear)")
        ctx.nontrivial(stretched(case["grid"]))
        return
    d = case["d"]
    if case["kind"] == "uniform":
        pol = fdtdx.UniformGrid(spacing=d)
        dmin = [d, d, d]
    else:
        dmin = [d * x for x in case["f"]]
        pol = fdtdx.QuasiUniformGrid(dx=dmin[0], dy=dmin[1], dz=dmin[2])
    cfg = fdtdx.SimulationConfig(time=1e-12, grid=pol, backend="cpu", dtype=dtype, courant_factor=cf)
    check(cfg.time_step_duration, dmin, f"SimulationConfig.time_step_duration ({case['kind']} policy)")
    res = pol.resolve(tuple(case["shape"]))
    E = [np.asarray(res.edges(a)).astype(np.float64) for a in range(3)]
    dres = [float(np.diff(e).min()) for e in E]
    check(res.cfl_time_step(cf), dres, f"resolved {case['kind']} grid cfl_time_step")
    cfg2 = fdtdx.SimulationConfig(time=1e-12, grid=res, backend="cpu", dtype=dtype, courant_factor=cf)
    check(cfg2.time_step_duration, dres, f"SimulationConfig.time_step_duration (resolved {case['kind']})")
    ctx.nontrivial(True)


# ----------------------------------------------------------------------------------------------------------------
# uniform detection and policy resolution
# ----------------------------------------------------------------------------------------------------------------
@st.composite
def uniform_case(draw, ctx):
    kind = draw(st.sampled_from(["exact", "exact", "jitter", "bump", "bump", "resolve", "quasi"]))
    d = draw(st.sampled_from(SCALES + [3.7e-8]))
    n = [draw(st.sampled_from([1, 2, 5, 8, 64, 2000] if kind == "exact" else [2, 5, 8, 64])) for _ in range(3)]
    off = [draw(st.sampled_from([0.0, -0.5, 10.0, -1000.0, 1000.0])) for _ in range(3)]
    return {"kind": kind, "d": d, "n": n, "off": off, "axis": draw(st.integers(0, 2)),
            "cell": draw(st.integers(0, 63)), "dev": draw(st.sampled_from([0.01, -0.01, 0.05, 0.5, -0.3])),
            "seed": draw(st.integers(0, 2**31 - 1)),
            "f": [draw(st.sampled_from([1.0, 1.0, 0.5, 2.0])) for _ in range(3)],
            "centre": [draw(st.sampled_from([0.0, 0.0, 3.3, -7.25])) for _ in range(3)]}


def uniform_body(ctx, case):
    import fdtdx

    dt = np.float64 if ctx.f64 else np.float32
    eps = float(np.finfo(dt).eps)
    d, n, kind = case["d"], case["n"], case["kind"]
    ctx.classify(kind)
    if kind in ("resolve", "quasi"):
        c = [x * d for x in case["centre"]]
        if kind == "resolve":
            sp = [d] * 3
            res = fdtdx.UniformGrid(spacing=d, center=tuple(c)).resolve(tuple(n))
        else:
            sp = [d * x for x in case["f"]]
            pol = fdtdx.QuasiUniformGrid(dx=sp[0], dy=sp[1], dz=sp[2], center=tuple(c))
            ctx.check(pol.is_uniform == (sp[0] == sp[1] == sp[2]), "QuasiUniformGrid.is_uniform", observed=pol.is_uniform)
            ctx.close(pol.min_spacing, min(sp), tol=1e-15, msg="QuasiUniformGrid.min_spacing")
            if any(x % 2 for x in n):
                try:
                    pol.resolve(tuple(n))
                except ValueError:
                    ctx.classify("odd-shape-rejected")
                    ctx.nontrivial(True)
                    return
                ctx.check(False, f"QuasiUniformGrid.resolve accepted the odd shape {n}", observed=n, expected="ValueError")
            res = pol.resolve(tuple(n))
        ctx.check(tuple(res.shape) == tuple(n), f"resolved shape {res.shape} != {n}", observed=list(res.shape), expected=n)
        for a in range(3):
            e = np.asarray(res.edges(a)).astype(np.float64)
            exp = c[a] + (np.arange(n[a] + 1) - n[a] / 2.0) * sp[a]
            tol = 8 * float(np.finfo(np.asarray(res.edges(a)).dtype).eps)
            ctx.close(e, exp, tol=tol, scale=max(float(np.abs(exp).max()), sp[a]), msg=f"resolved edges on axis {a}")
        same = sp[0] == sp[1] == sp[2]
        ctx.check(res.is_uniform == same, f"resolved grid is_uniform = {res.is_uniform} for spacings {sp}",
                  observed=res.is_uniform, expected=same)
        if same:
            ctx.close(res.uniform_spacing, sp[0], tol=1e-4, msg="uniform_spacing of a resolved policy")
        ctx.nontrivial(True)
        return
    edges = []
    rng = np.random.default_rng(case["seed"])
    for a in range(3):
        if kind == "jitter":
            w = 1.0 + 1e-6 * rng.uniform(-1, 1, n[a])
            edges.append((case["off"][a] + np.concatenate([[0.0], np.cumsum(w)])) * d)
        else:
            edges.append((case["off"][a] + np.arange(n[a] + 1)) * d)
    if kind == "bump":
        a = case["axis"]
        w = np.diff(edges[a])
        w[case["cell"] % n[a]] *= 1.0 + case["dev"]
        edges[a] = edges[a][0] + np.concatenate([[0.0], np.cumsum(w)])
    st_e = [e.astype(dt) for e in edges]
    if any(np.any(np.diff(x) <= 0) for x in st_e):
        raise Skip()
    grid = fdtdx.RectilinearGrid(x_edges=st_e[0], y_edges=st_e[1], z_edges=st_e[2])
    if kind in ("exact", "jitter"):
        ctx.check(grid.is_uniform is True, f"a uniform grid (spacing {d}, shape {n}, origin offsets {case['off']} "
                  f"cells, {kind}) is reported non-uniform", observed=grid.is_uniform, expected=True)
        us = grid.uniform_spacing
        ctx.check(abs(us - d) <= 1e-4 * d + 8 * eps * max(float(np.abs(x).max()) for x in st_e) + 1e-14,
                  f"uniform_spacing {us!r} vs spacing {d!r}", observed=us, expected=d)
    else:
        ctx.check(grid.is_uniform is False, f"a grid with one cell {case['dev'] * 100:+.0f}% off (axis {case['axis']}, "
                  f"shape {n}, offsets {case['off']}) is reported uniform", observed=grid.is_uniform, expected=False)
        try:
            us = grid.uniform_spacing
        except ValueError:
            us = None
        ctx.check(us is None, f"uniform_spacing of a non-uniform grid returned {us!r} instead of raising ValueError",
                  observed=repr(us), expected="ValueError")
    ctx.nontrivial(kind != "exact" or any(o != 0 for o in case["off"]))


# ----------------------------------------------------------------------------------------------------------------
# symmetric reduction
# ----------------------------------------------------------------------------------------------------------------
@st.composite
def sym_case(draw, ctx):
    axes = []
    for _ in range(3):
        n = draw(st.sampled_from([2, 3, 4, 5, 6, 8, 1]))
        half = [draw(st.sampled_from(FACT[:6])) for _ in range((n + 1) // 2)]
        style = draw(st.sampled_from(["mirror", "mirror", "equal", "asym"]))
        axes.append({"n": n, "half": half, "style": style, "dev": draw(st.sampled_from([0.01, 0.2, -0.3])),
                     "shift": draw(st.sampled_from([0.0, 0.0, 3.3, -7.25]))})
    return {"scale": draw(st.sampled_from(SCALES)), "axes": axes,
            "sym": [draw(st.sampled_from([0, 0, 1, -1])) for _ in range(3)]}


def sym_body(ctx, case):
    import fdtdx

    dt = np.float64 if ctx.f64 else np.float32
    E, expect_err = [], False
    for ax, s in zip(case["axes"], case["sym"]):
        n = ax["n"]
        if ax["style"] == "equal":
            w = np.ones(n)
        else:
            h = np.asarray(ax["half"][: n // 2], dtype=np.float64)
            mid = [ax["half"][-1]] if n % 2 else []
            w = np.concatenate([h, mid, h[::-1]])
            if ax["style"] == "asym" and n >= 2:
                w[0] = w[0] * (1.0 + ax["dev"])
        e = np.concatenate([[0.0], np.cumsum(w)])
        e = (e - e[-1] / 2.0 + ax["shift"]) * case["scale"]
        E.append(e.astype(dt))
        if s != 0 and (n % 2 or n < 2 or (ax["style"] == "asym")):
            expect_err = True
    if any(np.any(np.diff(x) <= 0) for x in E):
        raise Skip()
    grid = fdtdx.RectilinearGrid(x_edges=E[0], y_edges=E[1], z_edges=E[2])
    sym = tuple(case["sym"])
    ctx.classify("sym=%d" % sum(s != 0 for s in sym), "expect-error" if expect_err else "reducible")
    try:
        red = grid.reduce_symmetric(sym)
    except ValueError as ex:
        ctx.check(expect_err, f"reduce_symmetric{sym} rejected a grid with even, mirror-symmetric axes: {ex}",
                  observed=str(ex)[:200], expected="reduced grid")
        ctx.nontrivial(any(sym))
        return
    ctx.check(not expect_err, f"reduce_symmetric{sym} accepted an axis with an odd cell count or >= 1% asymmetric "
              f"widths", observed=[list(map(float, np.diff(np.asarray(red.edges(a))))) for a in range(3)],
              expected="ValueError")
    for a in range(3):
        got = np.asarray(red.edges(a))
        exp = E[a] if sym[a] == 0 else E[a][case["axes"][a]["n"] // 2:]
        ctx.check(got.shape == exp.shape and np.array_equal(got, exp),
                  f"reduced edges on axis {a} (symmetry {sym[a]}) are not the kept upper half", observed=got.tolist(),
                  expected=exp.tolist())
    ctx.check(grid.shape == tuple(ax["n"] for ax in case["axes"]), "reduce_symmetric modified the original grid",
              observed=list(grid.shape))
    ctx.nontrivial(any(sym))


SUBS = [
    Sub(name="snap", body=snap_body, strategy=lambda ctx: snap_case(ctx), quick=400, thorough=40000,
        lanes=("f64", "f32"), f32_fraction=0.4, rule="12 coord_to_index queries per drawn rectilinear grid"),
    Sub(name="interval", body=interval_body, strategy=lambda ctx: interval_case(ctx), quick=400, thorough=40000,
        lanes=("f64", "f32"), f32_fraction=0.4,
        rule="10 bounds_for_center / bounds_for_anchor / anchor_coordinate / invalid-size queries per drawn grid"),
    Sub(name="metrics", body=metrics_body, strategy=lambda ctx: metrics_case(ctx), quick=150, thorough=8000,
        lanes=("f64", "f32"), f32_fraction=0.4, rule="extents, widths, centres, areas, volumes, sub-grid of a drawn slice"),
    Sub(name="policy", body=policy_body, strategy=lambda ctx: policy_case(ctx), quick=250, thorough=20000,
        lanes=("f64", "f32"), f32_fraction=0.3, rule="UniformGrid / QuasiUniformGrid policy helpers"),
    Sub(name="cfl", body=cfl_body, strategy=lambda ctx: cfl_case(ctx), quick=250, thorough=20000,
        lanes=("f64", "f32"), f32_fraction=0.4, rule="CFL bound of cfl_time_step / time_step_duration"),
    Sub(name="uniform", body=uniform_body, strategy=lambda ctx: uniform_case(ctx), quick=200, thorough=10000,
        lanes=("f64", "f32"), f32_fraction=0.5, rule="uniform detection away from its tolerance edge; policy resolution"),
    Sub(name="symmetric", body=sym_body, strategy=lambda ctx: sym_case(ctx), quick=250, thorough=10000,
        lanes=("f64", "f32"), f32_fraction=0.4, rule="reduce_symmetric against a slicing model incl. rejected inputs"),
]
KNOWN_CLASSES = {}
