"""C04 — time-reversal gradients equal exact checkpointed autodiff gradients outside the absorbing layers."""

from __future__ import annotations

import numpy as np
from hypothesis import strategies as st

from pbt import scenes
from pbt.engine import Sub

ID = "C04"
RULE = (
    "Hypothesis draws a lossless non-dispersive scene (PML with default grading on a random subset of faces, or none; "
    "PEC/PMC/periodic/zero-halo elsewhere; uniform or stretched grid; 1-2 sources with schedules/profiles; 1-2 "
    "detectors of kinds field/energy/Poynting/phasor with random options), per-cell random inverse permittivity (and "
    "permeability in magnetic scenes), random cotangent weights on every detector output (loss = sum w*state), a random "
    "number of reversible checkpoints 0..T-1 and a random number of autodiff checkpoints; a conductive variant uses a "
    "reversible checkpoint at every step. jax.grad of the loss w.r.t. inv_permittivities / inv_permeabilities is "
    "computed with GradientConfig(method='reversible') and with method='checkpointed' and compared on all cells outside "
    "the PML slices. Non-trivial = gradient non-zero on >= 10 such cells. float64 only (float32 gradients are too noisy "
    "to serve as an oracle)."
)
ASSUMPTIONS = [
    "detectors are generated outside the absorbing layers: a quadratic detector (energy, Poynting) reading cells inside a "
    "layer takes its cotangent from fields the reverse sweep cannot reconstruct there, which the property's 'outside the "
    "absorbing layers' scoping is read to exclude",
    "tolerance 1e-9 * max|gradient| (float64); the float32 lane is not run for this property",
    "checkpointed autodiff (eqxi checkpointed while loop) is the exact reference, as the property states",
]


@st.composite
def case_strategy(draw, ctx):
    lossy = draw(st.integers(0, 3)) == 0
    spec = draw(scenes.sim_scene_strategy(pml=True, steps=(6, 22), shape=(6, 9), n_sources=(1, 2), n_detectors=(1, 2),
                                          n_objects=(0, 2) if not lossy else (1, 2), material_tiers=("iso", "diag"),
                                          lossy=lossy, require_pml=draw(st.booleans()),
                                          detectors_outside_pml=True))
    if lossy and not any(("sigE" in o["material"] or "sigH" in o["material"]) for o in spec["objects"]):
        spec["background"]["sigE"] = 2e4
    T = spec["steps"]
    if draw(st.integers(0, 3)) > 0:  # most cases: make sure light reaches a detector while it records
        spec["sources"][0]["switch"] = {}
        if draw(st.booleans()):
            # a drive that is already non-zero at step 0 (the very first forward step then carries gradient)
            spec["sources"][0]["profile"] = {"kind": "custom", "dt_steps": draw(st.sampled_from([1.0, 2.5])),
                                             "signal": [draw(st.sampled_from([1.0, -0.7, 0.5]))] + [
                                                 round(draw(st.floats(-1, 1, allow_nan=False, width=32)), 3) for _ in range(6)]}
        elif spec["sources"][0]["profile"]["kind"] == "custom":
            spec["sources"][0]["profile"] = {"kind": "cw"}
        spec["detectors"][0]["switch"] = {} if draw(st.booleans()) else {"start_step": T // 2}
    if draw(st.booleans()) and "mu" not in spec["background"]:
        spec["background"]["mu"] = 1.5  # a magnetic scene: the inverse-permeability gradient is compared as well
    is_lossy = "sigE" in spec["background"] or any(("sigE" in o["material"] or "sigH" in o["material"]) for o in spec["objects"])
    ck = T - 1 if is_lossy else draw(st.sampled_from([0, 0, 1, 2, T - 1, draw(st.integers(0, T - 1))]))
    return {"scene": spec, "rev_ckpt": ck, "ad_ckpt": draw(st.integers(1, T)), "w_seed": draw(st.integers(0, 2**31 - 1)),
            "mat_seed": draw(st.integers(0, 2**31 - 1)), "percell": draw(st.booleans())}


def _grads(spec, case, gradient):
    import fdtdx
    import jax
    import jax.numpy as jnp

    b = scenes.build(spec, "f64", gradient=gradient)
    rng = np.random.default_rng(case["mat_seed"])
    ie0 = np.asarray(b.arrays.inv_permittivities)
    ie = ie0 * rng.uniform(0.6, 1.0, ie0.shape) if case["percell"] else ie0
    im0 = b.arrays.inv_permeabilities
    mag = getattr(im0, "ndim", 0) == 4
    im = np.asarray(im0) * rng.uniform(0.6, 1.0, im0.shape) if (mag and case["percell"]) else im0
    wr = np.random.default_rng(case["w_seed"])
    weights = {}
    for n in sorted(b.arrays.detector_states):
        for k in sorted(b.arrays.detector_states[n]):
            shp = b.arrays.detector_states[n][k].shape
            weights[(n, k)] = (jnp.asarray(wr.standard_normal(shp)), jnp.asarray(wr.standard_normal(shp)))

    def loss(inv_eps, inv_mu):
        arrays = b.arrays.aset("inv_permittivities", inv_eps)
        if mag:
            arrays = arrays.aset("inv_permeabilities", inv_mu)
        _, out = fdtdx.run_fdtd(arrays=arrays, objects=b.objects, config=b.config, key=b.key, show_progress=False)
        tot = 0.0
        for (n, k), (w1, w2) in weights.items():
            s = out.detector_states[n][k]
            tot = tot + jnp.sum(w1 * jnp.real(s)) + jnp.sum(w2 * jnp.imag(s))
        fmax = jnp.maximum(jnp.max(jnp.abs(out.fields.E)), jnp.max(jnp.abs(out.fields.H)))
        return tot, jax.lax.stop_gradient(fmax)

    if mag:
        (val, fmax), (ge, gm) = jax.value_and_grad(loss, argnums=(0, 1), has_aux=True)(jnp.asarray(ie), jnp.asarray(im))
        gm = np.asarray(gm)
    else:
        (val, fmax), ge = jax.value_and_grad(loss, argnums=0, has_aux=True)(jnp.asarray(ie), im)
        gm = None
    interior = np.ones(tuple(spec["shape"]), dtype=bool)
    for p in b.objects.pml_objects:
        interior[p.grid_slice] = False
    return float(val), np.asarray(ge), gm, interior, float(fmax)


def body(ctx, case):
    spec = case["scene"]
    T = spec["steps"]
    v_ad, ge_ad, gm_ad, interior, fmax = _grads(spec, case, {"method": "checkpointed", "n": case["ad_ckpt"]})
    v_rv, ge_rv, gm_rv, _, _ = _grads(spec, case, {"method": "reversible", "ckpt": case["rev_ckpt"]})
    npml = sum(1 for f in spec["faces"].values() if f["kind"] == "pml")
    lossy = "sigE" in spec["background"] or any(("sigE" in o["material"] or "sigH" in o["material"]) for o in spec["objects"])
    ctx.classify(f"pml_faces={min(npml, 3)}{'+' if npml > 3 else ''}", "lossy" if lossy else "lossless",
                 "magnetic" if gm_ad is not None else "non-magnetic",
                 "rev_ckpt=0" if case["rev_ckpt"] == 0 else ("rev_ckpt=T-1" if case["rev_ckpt"] == T - 1 else "rev_ckpt=mid"),
                 *("det=" + d["type"] for d in spec["detectors"]), "grid=" + spec["grid"]["kind"])
    ctx.close(np.asarray(v_rv), np.asarray(v_ad), tol=1e-10, msg="loss value differs between gradient strategies")
    g_ad = ge_ad[:, interior]
    g_rv = ge_rv[:, interior]
    gmax = float(np.abs(g_ad).max()) if g_ad.size else 0.0
    nz = int((np.abs(g_ad) > 1e-12 * max(gmax, 1e-300)).sum())
    # an identically zero exact gradient (detector never sees a field) vs. 1e-54 underflow residue of the reverse
    # sweep is not a disagreement: gradients below 1e-30 absolute are treated as zero on both sides
    # With unit-scale cotangent weights the natural size of d loss / d inv_eps is the field amplitude F (F^2 for the
    # quadratic detectors). When the exact gradient is identically zero (no field ever reaches a recording detector),
    # the reverse sweep's reconstruction round-off (1e-17 relative) times the cotangent still leaves ~1e-20 residues:
    # everything below 1e-9 * max(F, F^2) is treated as zero on both sides.
    FLOOR = max(1e-30, 1e-9 * max(fmax, fmax * fmax))
    ctx.nontrivial(gmax > FLOOR and nz >= 10)
    if gmax < FLOOR and float(np.abs(g_rv).max() if g_rv.size else 0.0) < FLOOR:
        ctx.classify("zero-gradient")
        return
    ctx.close(g_rv, g_ad, scale=max(gmax, float(np.abs(g_rv).max()), FLOOR), tol=1e-9,
              msg=f"d loss / d inv_permittivity outside PML: reversible(ckpt={case['rev_ckpt']}) != checkpointed autodiff",
              metric="grad_eps_err")
    if gm_ad is not None:
        a, r = gm_ad[:, interior], gm_rv[:, interior]
        sc = max(float(np.abs(a).max()), float(np.abs(r).max()), FLOOR)
        ctx.close(r, a, scale=sc, tol=1e-9,
                  msg=f"d loss / d inv_permeability outside PML: reversible(ckpt={case['rev_ckpt']}) != checkpointed autodiff",
                  metric="grad_mu_err")


SUBS = [
    Sub(name="gradients", body=body, strategy=lambda ctx: case_strategy(ctx), quick=8, thorough=400, lanes=("f64",),
        quick_shards=2, rule="reversible vs checkpointed jax.grad on interior cells", max_seconds_quick=400),
]
