"""C33 — electric-plane symmetry reduction is exact.

Differential oracle between two runs of the *same* model:

* reduced run : place_objects with ``symmetry[a] = -1`` on the drawn axes (fdtdx clips the model to the kept upper half and
  inserts its PEC symmetry wall), seeded with a random reduced state that has the parity of the plane
  (tangential E = 0 and normal H = 0 on the plane row);
* full twin   : the same model without ``symmetry``; its initial state is ``unfold_fields`` of the reduced initial state
  (the unfolding convention itself is C32's business).

Both are advanced ``s`` steps with ``forward`` from the seeded state.  On every cell whose index along each symmetric
axis is >= s + 2 (what the far-low boundary of the full domain — the one cell the unfolding cannot reconstruct and
the off-by-half-cell position of that boundary — cannot have reached), the evolved full-domain E and H must equal
the unfolded evolved reduced E and H, and every co-located FieldDetector record of a region touching the plane must
equal the unfolded reduced record.
"""

from __future__ import annotations

import numpy as np
from hypothesis import strategies as st

from pbt import scenes
from pbt.engine import Skip, Sub

ID = "C33"
RULE = (
    "Hypothesis draws the electric-symmetry axes (each single axis, sometimes two), a full shape with half-size n in "
    "5..8 on symmetric axes and 3..5 elsewhere, s in 1..n-4 steps, courant, boundary kinds (none/pec/pmc mirrored on "
    "the symmetric axes; none/pec/pmc/periodic elsewhere), material tier (isotropic or diagonal eps, optional mu, "
    "optional sigma_E) with values drawn per cell in the transverse plane from a seed and held constant along the "
    "symmetric axes, real or complex gaussian reduced fields projected onto the walls with normal H zeroed on the plane "
    "row, and 1..2 co-located FieldDetectors whose regions straddle the plane or start on it. Non-trivial = fields "
    "non-zero, material non-uniform in the transverse plane, the compared window contains mirrored-half cells and the "
    "plane row, and at least one detector touches a plane. Distinct = sha1 of the case JSON."
)
ASSUMPTIONS = [
    "'every cell the far boundary of the discarded half cannot yet influence' is read as index >= s+2 along each "
    "symmetric axis of the full domain after s steps (one cell per step from the two outermost rows, which is where "
    "the reconstruction and the boundary position differ)",
    "the full-domain twin's initial state is unfold_fields of the reduced initial state (convention checked by C32)",
    "f64 tolerance 1e-9, f32 2e-4, relative to the largest field / record magnitude",
    "co-located records = FieldDetector(exact_interpolation=True, reduce_volume=False)",
    "for a detector straddling an x or y plane the outermost row of the unfolded record is excluded: it is the "
    "documented partner-less sample that unfold_array fills by repeating its neighbour",
]

COMPS = ("Ex", "Ey", "Ez", "Hx", "Hy", "Hz")


@st.composite
def case_strategy(draw, ctx):
    # two electric planes at once in every other case (their shared corner halo is a path of its own); the x-y pair,
    # where co-located samples sit on both planes, is drawn as often as the other two pairs together
    two = draw(st.booleans())
    axes = (draw(st.sampled_from([[0, 1], [0, 1], [0, 2], [1, 2]])) if two
            else [draw(st.integers(0, 2))])
    half = {a: draw(st.integers(5, 6 if two else 8)) for a in axes}
    shape = [2 * half[a] if a in axes else draw(st.integers(3, 5)) for a in range(3)]
    steps = draw(st.integers(1, min(half.values()) - 4))
    faces = {}
    for a in range(3):
        nm = "xyz"[a]
        if a in axes:
            k = draw(st.sampled_from(["none", "none", "pec", "pmc"]))
            faces[f"min_{nm}"] = {"kind": k}
            faces[f"max_{nm}"] = {"kind": k}
        else:
            if draw(st.integers(0, 2)) == 0:
                faces[f"min_{nm}"] = {"kind": "periodic"}
                faces[f"max_{nm}"] = {"kind": "periodic"}
            else:
                faces[f"min_{nm}"] = {"kind": draw(st.sampled_from(["none", "pec", "pmc"]))}
                faces[f"max_{nm}"] = {"kind": draw(st.sampled_from(["none", "pec", "pmc"]))}
    dets = []
    for i in range(draw(st.integers(1, 2))):
        lo, hi = [0, 0, 0], [0, 0, 0]
        for a in range(3):
            if a in axes:
                m = half[a]
                rel = draw(st.sampled_from(["straddle", "start"]))
                if rel == "straddle":
                    k = draw(st.integers(2, m))
                    lo[a], hi[a] = m - k, m + k
                else:
                    lo[a], hi[a] = m, m + draw(st.integers(1, m))
            else:
                lo[a] = draw(st.integers(0, shape[a] - 1))
                hi[a] = draw(st.integers(lo[a] + 1, shape[a]))
        sel = draw(st.lists(st.sampled_from(COMPS), min_size=2, max_size=6, unique=True))
        dets.append({"type": "field", "name": f"det{i}", "lo": lo, "hi": hi, "reduce": False, "exact": True,
                     "components": [c for c in COMPS if c in sel]})
    return {
        "axes": axes,
        "shape": shape,
        "steps": steps,
        "courant": draw(st.sampled_from([0.5, 0.8, 0.99])),
        "faces": faces,
        "eps_tier": draw(st.sampled_from(["iso", "diag"])),
        "mu_tier": draw(st.sampled_from(["none", "iso", "diag"])),
        "lossy": draw(st.integers(0, 3)) == 0,
        "complex": False,  # FieldDetector records are real-typed in the shared builder; complex runs are C09/C12's business
        "mat_seed": draw(st.integers(0, 2**31 - 1)),
        "field_seed": draw(st.integers(0, 2**31 - 1)),
        "detectors": dets,
    }


def _spec(case, symmetric):
    bg = {"eps": 2.0 if case["eps_tier"] == "iso" else [2.0, 3.0, 4.0]}
    if case["mu_tier"] == "iso":
        bg["mu"] = 1.5
    elif case["mu_tier"] == "diag":
        bg["mu"] = [1.5, 2.0, 1.2]
    if case["lossy"]:
        bg["sigE"] = 1.0
    spec = {"shape": case["shape"], "steps": case["steps"], "courant": case["courant"], "faces": case["faces"],
            "background": bg, "detectors": case["detectors"], "complex": True if case["complex"] else None}
    if symmetric:
        spec["symmetry"] = [-1 if a in case["axes"] else 0 for a in range(3)]
    return spec


def _transverse(rng, ncomp, shape, axes, lo, hi):
    """Values drawn per cell of the transverse plane, constant along the symmetric axes (size-1 there)."""
    tshape = [1 if a in axes else shape[a] for a in range(3)]
    return rng.uniform(lo, hi, (ncomp, *tshape))


def _set_materials(case, b, full_shape):
    """Write the drawn materials into a built scene (reduced or full): broadcast along the symmetric axes."""
    import jax.numpy as jnp
    from fdtdx.constants import eta0

    arrays = b.arrays
    rng = np.random.default_rng(case["mat_seed"])
    ie = arrays.inv_permittivities
    tgt = tuple(ie.shape[1:])
    inv_eps_t = 1.0 / _transverse(rng, ie.shape[0], full_shape, case["axes"], 1.0, 12.0)
    arrays = arrays.aset("inv_permittivities", jnp.asarray(np.broadcast_to(inv_eps_t, (ie.shape[0], *tgt)), dtype=ie.dtype))
    im = arrays.inv_permeabilities
    if hasattr(im, "shape") and getattr(im, "ndim", 0) == 4:
        inv_mu_t = 1.0 / _transverse(rng, im.shape[0], full_shape, case["axes"], 1.0, 6.0)
        arrays = arrays.aset("inv_permeabilities", jnp.asarray(np.broadcast_to(inv_mu_t, (im.shape[0], *tgt)), dtype=im.dtype))
    sg = arrays.electric_conductivity
    if sg is not None:
        a = _transverse(rng, sg.shape[0], full_shape, case["axes"], 0.0, 0.3)
        sig_t = a * 2.0 / (b.config.courant_number * eta0 * inv_eps_t.mean(axis=0, keepdims=True))
        arrays = arrays.aset("electric_conductivity", jnp.asarray(np.broadcast_to(sig_t, (sg.shape[0], *tgt)), dtype=sg.dtype))
    return arrays, inv_eps_t


def body(ctx, case):
    import fdtdx
    import jax.numpy as jnp

    axes = case["axes"]
    shape = tuple(case["shape"])
    s = case["steps"]
    sym = tuple(-1 if a in axes else 0 for a in range(3))
    red_shape = tuple(shape[a] // 2 if a in axes else shape[a] for a in range(3))

    br = scenes.build(_spec(case, True), ctx.lane)
    bf = scenes.build(_spec(case, False), ctx.lane)
    if tuple(br.arrays.fields.E.shape[1:]) != red_shape or tuple(bf.arrays.fields.E.shape[1:]) != shape:
        ctx.check(False, "reduced / full field shapes are not (n, 2n) along the symmetric axes",
                  observed=[list(br.arrays.fields.E.shape), list(bf.arrays.fields.E.shape)],
                  expected=[[3, *red_shape], [3, *shape]])
    ar, inv_eps_t = _set_materials(case, br, shape)
    af, _ = _set_materials(case, bf, shape)

    # parity-consistent reduced state
    cplx = np.iscomplexobj(np.asarray(ar.fields.E))
    E0 = scenes.random_field(case["field_seed"], red_shape, cplx)
    H0 = scenes.random_field(case["field_seed"] + 1, red_shape, cplx)
    for a in axes:  # odd components sampled on the plane vanish there: tangential E and normal H
        idx = [slice(None)] * 3
        idx[a] = 0
        H0[(a, *idx)] = 0.0
        for c in range(3):
            if c != a:
                E0[(c, *idx)] = 0.0
    ar = scenes.set_fields(ar, E0, H0)
    ar = scenes.project_walls(ar, br.objects)  # far-side walls (and fdtdx's own symmetry wall)
    af = scenes.set_fields(af, fdtdx.unfold_fields(ar.fields.E, sym, "E"), fdtdx.unfold_fields(ar.fields.H, sym, "H"))

    st_r = (jnp.asarray(0, dtype=jnp.int32), ar)
    st_f = (jnp.asarray(0, dtype=jnp.int32), af)
    for _ in range(s):
        st_r = scenes.step(br, st_r, record_detectors=True)
        st_f = scenes.step(bf, st_f, record_detectors=True)
    Er, Hr = st_r[1].fields.E, st_r[1].fields.H
    Ef, Hf = np.asarray(st_f[1].fields.E), np.asarray(st_f[1].fields.H)
    EU = np.asarray(fdtdx.unfold_fields(Er, sym, "E"))
    HU = np.asarray(fdtdx.unfold_fields(Hr, sym, "H"))

    window = [slice(None)] * 3
    for a in axes:
        window[a] = slice(s + 2, None)
    w = (slice(None), *window)
    scale = max(float(np.abs(Ef).max()), 1e-300)
    scale_h = max(float(np.abs(Hf).max()), 1e-300)

    kinds = sorted({f["kind"] for f in case["faces"].values()})
    ctx.classify(f"axes={''.join('xyz'[a] for a in axes)}", f"steps={s}", "eps=" + case["eps_tier"], "mu=" + case["mu_tier"],
                 "lossy" if case["lossy"] else "lossless", "complex" if cplx else "real", *("face=" + k for k in kinds))
    if not (np.isfinite(Ef).all() and np.isfinite(Hf).all() and scale > 1e-12):
        raise Skip()
    moved = float(np.abs(Ef - np.asarray(af.fields.E)).max()) > 1e-6 * scale
    touching = [d for d in case["detectors"]]
    ctx.nontrivial(moved and float(np.ptp(inv_eps_t)) > 1e-3 and len(touching) >= 1
                   and all(s + 2 <= shape[a] // 2 - 1 for a in axes))

    tol = ctx.tol(1e-9, 2e-4)
    ctx.close(Ef[w], EU[w], tol=tol, scale=scale, metric="E_err",
              msg=f"E after {s} steps: full domain != unfolded reduced run (window index >= {s + 2} on axes {axes})")
    ctx.close(Hf[w], HU[w], tol=tol, scale=scale_h, metric="H_err",
              msg=f"H after {s} steps: full domain != unfolded reduced run (window index >= {s + 2} on axes {axes})")

    # how much of the margin was needed: first row (relative to s) from which everything agrees
    for a in axes:
        dE = np.abs(Ef - EU).max(axis=tuple(x for x in range(4) if x != a + 1)) / scale
        dH = np.abs(Hf - HU).max(axis=tuple(x for x in range(4) if x != a + 1)) / scale_h
        bad = np.nonzero((dE > tol) | (dH > tol))[0]
        ctx.metric("first_agreeing_row_minus_s", (int(bad.max()) + 1 if bad.size else 0) - s)

    # co-located detector records
    unf = fdtdx.unfold_detector_states(st_r[1], br.objects, br.config).detector_states
    for d in case["detectors"]:
        rec_f = np.asarray(st_f[1].detector_states[d["name"]]["fields"])
        rec_u = np.asarray(unf[d["name"]]["fields"])
        ctx.check(rec_f.shape == rec_u.shape,
                  f"{d['name']}: unfolded record shape {rec_u.shape} != full-domain record shape {rec_f.shape}",
                  observed=list(rec_u.shape), expected=list(rec_f.shape))
        dw = [slice(None)] * 3
        rels = []
        for a in axes:
            straddles = d["lo"][a] < shape[a] // 2
            first = max(0, s + 2 - d["lo"][a])
            if straddles and a in (0, 1):
                # co-located samples sit on an x / y plane: the outermost reconstructed row has no partner in the kept
                # half and is documented to repeat its neighbour (unfold_array) — not a statement about the field
                first = max(first, 1)
            dw[a] = slice(first, None)
            rels.append("straddle" if straddles else "start")
        ctx.classify(*("det=" + r for r in rels))
        dwin = (slice(None), slice(None), *dw)
        if rec_f[dwin].size == 0:
            continue
        # E and H records have different magnitudes: compare per component against its own field scale
        for ci, name in enumerate(d["components"]):
            sc = scale if name[0] == "E" else scale_h
            ctx.close(rec_f[dwin][:, ci], rec_u[dwin][:, ci], tol=tol, scale=sc, metric="det_err",
                      msg=f"{d['name']} ({'/'.join(rels)}, lo={d['lo']}, hi={d['hi']}) component {name}: full-domain "
                          f"record != unfolded reduced record over {s} steps")


SUBS = [
    Sub(name="reduction", body=body, strategy=lambda ctx: case_strategy(ctx), quick=12, thorough=640,
        lanes=("f64", "f32"), f32_fraction=0.25, quick_shards=2,
        rule="reduced run + unfold vs full-domain twin, fields and co-located detector records inside the light cone"),
]

KNOWN_CLASSES = {}
