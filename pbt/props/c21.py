"""C21 — design symmetry transforms produce symmetric designs.

For each transform T with group element G (a reflection, 180-degree rotation or (anti-)transposition, written here as
explicit numpy index maps from the class docstrings):
    G(T(x)) == T(x) bitwise;   T(s) == s bitwise for an independently constructed symmetric s;
    T(T(x)) == T(x) bitwise;   mean(T(x)) == mean(x) up to round-off.
"""

from __future__ import annotations

import numpy as np
from hypothesis import strategies as st

from pbt.engine import Sub

ID = "C21"
RULE = (
    "Hypothesis draws one of the eight transforms with its options (DiagonalSymmetry2D min_min_to_max_max, "
    "HorizontalSymmetry3D mirror_axis x/y, DiagonalSymmetry3D plane xy/xz/yz x main/anti diagonal), a shape (2-D "
    "classes: two axes in 2..6 with the singleton axis at position 0, 1 or 2, square for the diagonal; 3-D classes: "
    "axes in 1..5, the two swapped axes equal for the diagonal), an rng seed, a value distribution (uniform [0,1], "
    "normal*1e3, normal*1e-3, small integers) and drawn special cells (0, 1, -1, 1e6). Non-trivial = the input is "
    "not already invariant under the group element and holds at least two distinct values. Distinct = sha1 of the "
    "case JSON."
)
ASSUMPTIONS = [
    "'horizontal' = reflection of the first remaining (x) axis, 'vertical' = reflection of the second remaining axis "
    "(2-D) / of axis 2 (3-D), as the class docstrings say; 'point' = reversal of all (remaining) axes; diagonal "
    "main = transposition of the two plane axes, anti = transposition combined with reversal of both",
    "invariance, fixed-point and idempotence are compared bitwise (the average (a+b)/2 is commutative and (m+m)/2 "
    "is exact in IEEE arithmetic; overflow-range values are not generated); mean within 1e-12 (f64) / 1e-6 (f32) of "
    "max|x|",
    "the symmetric test input is max(x, G(x)), built in numpy without the transform",
]

CLASSES_2D = ["DiagonalSymmetry2D", "HorizontalSymmetry2D", "VerticalSymmetry2D", "PointSymmetry2D"]
CLASSES_3D = ["HorizontalSymmetry3D", "VerticalSymmetry3D", "PointSymmetry3D", "DiagonalSymmetry3D"]
PLANES = {"xy": (0, 1), "xz": (0, 2), "yz": (1, 2)}


@st.composite
def case_strategy(draw, ctx):
    cls = draw(st.sampled_from(CLASSES_2D + CLASSES_3D + ["DiagonalSymmetry2D", "DiagonalSymmetry3D"]))
    opts = {}
    if cls in CLASSES_2D:
        n, m = draw(st.integers(2, 6)), draw(st.integers(2, 6))
        if cls == "DiagonalSymmetry2D":
            m = n
            opts["min_min_to_max_max"] = draw(st.booleans())
        va = draw(st.integers(0, 2))
        shape = [n, m]
        shape.insert(va, 1)
    else:
        shape = [draw(st.integers(1, 5)) for _ in range(3)]
        if cls == "HorizontalSymmetry3D":
            opts["mirror_axis"] = draw(st.sampled_from(["x", "y"]))
        if cls == "DiagonalSymmetry3D":
            opts["diagonal_plane"] = draw(st.sampled_from(["xy", "xz", "yz"]))
            opts["min_min_to_max_max"] = draw(st.booleans())
            a, b = PLANES[opts["diagonal_plane"]]
            shape[a] = max(shape[a], 2)
            shape[b] = shape[a]
    n_cells = shape[0] * shape[1] * shape[2]
    specials = [[draw(st.integers(0, n_cells - 1)), draw(st.sampled_from([0.0, 1.0, -1.0, 1e6]))]
                for _ in range(draw(st.integers(0, 3)))]
    return {
        "cls": cls,
        "opts": opts,
        "shape": shape,
        "seed": draw(st.integers(0, 2**31 - 1)),
        "dist": draw(st.sampled_from(["uniform", "uniform", "normal1e3", "normal1e-3", "ints"])),
        "specials": specials,
    }


# ----------------------------------------------------------------------------------------------
# oracle: the group element as an explicit index map
# ----------------------------------------------------------------------------------------------
def group_element(cls, opts, shape):
    """-> function mapping an array of `shape` to G(array), via an index permutation built cell by cell."""
    shape = tuple(shape)
    src = np.empty(shape + (3,), dtype=np.int64)  # src[p] = index q with G(x)[p] = x[q]
    if cls in CLASSES_2D:
        va = shape.index(1)
        ax = [a for a in range(3) if a != va]  # first / second remaining axis
    for p in np.ndindex(*shape):
        q = list(p)
        if cls == "HorizontalSymmetry2D":
            q[ax[0]] = shape[ax[0]] - 1 - p[ax[0]]
        elif cls == "VerticalSymmetry2D":
            q[ax[1]] = shape[ax[1]] - 1 - p[ax[1]]
        elif cls == "PointSymmetry2D":
            q[ax[0]] = shape[ax[0]] - 1 - p[ax[0]]
            q[ax[1]] = shape[ax[1]] - 1 - p[ax[1]]
        elif cls == "DiagonalSymmetry2D":
            n = shape[ax[0]]
            if opts["min_min_to_max_max"]:
                q[ax[0]], q[ax[1]] = p[ax[1]], p[ax[0]]
            else:
                q[ax[0]], q[ax[1]] = n - 1 - p[ax[1]], n - 1 - p[ax[0]]
        elif cls == "HorizontalSymmetry3D":
            a = {"x": 0, "y": 1}[opts["mirror_axis"]]
            q[a] = shape[a] - 1 - p[a]
        elif cls == "VerticalSymmetry3D":
            q[2] = shape[2] - 1 - p[2]
        elif cls == "PointSymmetry3D":
            q = [shape[a] - 1 - p[a] for a in range(3)]
        elif cls == "DiagonalSymmetry3D":
            a, b = PLANES[opts["diagonal_plane"]]
            n = shape[a]
            if opts["min_min_to_max_max"]:
                q[a], q[b] = p[b], p[a]
            else:
                q[a], q[b] = n - 1 - p[b], n - 1 - p[a]
        else:
            raise AssertionError(cls)
        src[p] = q

    def G(x):
        return x[src[..., 0], src[..., 1], src[..., 2]]

    return G


_JIT_CACHE: dict = {}


def _transform_fn(ctx, case):
    """jitted (x, s) -> (T(x), T(T(x)), T(s)); cached per (class, options, shape) because T has no array fields."""
    import fdtdx
    import jax
    import jax.numpy as jnp
    from fdtdx.materials import Material
    from fdtdx.objects.device.parameters import symmetries
    from fdtdx.typing import ParameterType

    key = (case["cls"], tuple(sorted(case["opts"].items())), tuple(case["shape"]), ctx.lane)
    if key in _JIT_CACHE:
        return _JIT_CACHE[key]
    dtype = jnp.float64 if ctx.f64 else jnp.float32
    cfg = fdtdx.SimulationConfig(time=100e-15, grid=fdtdx.UniformGrid(spacing=50e-9), backend="cpu", dtype=dtype)
    mats = {"air": Material(permittivity=1.0), "si": Material(permittivity=12.25)}
    shape = tuple(case["shape"])
    t = getattr(symmetries, case["cls"])(**case["opts"])
    t = t.init_module(config=cfg, materials=mats, matrix_voxel_grid_shape=shape,
                      single_voxel_size=(50e-9, 50e-9, 50e-9), output_shape={"params": shape})
    t = t.init_type({"params": ParameterType.CONTINUOUS})

    def f(x, s):
        y = t({"params": x})["params"]
        yy = t({"params": y})["params"]
        ys = t({"params": s})["params"]
        return y, yy, ys

    fn = jax.jit(f)
    if len(_JIT_CACHE) > 4000:
        _JIT_CACHE.clear()
    _JIT_CACHE[key] = fn
    return fn


def _input(case, np_dtype):
    shape = tuple(case["shape"])
    rng = np.random.default_rng(case["seed"])
    d = case["dist"]
    if d == "uniform":
        x = rng.uniform(0, 1, shape)
    elif d == "normal1e3":
        x = rng.normal(0, 1e3, shape)
    elif d == "normal1e-3":
        x = rng.normal(0, 1e-3, shape)
    else:
        x = rng.integers(-3, 4, shape).astype(np.float64)
    flat = x.reshape(-1)
    for pos, val in case["specials"]:
        flat[pos] = val
    return x.astype(np_dtype)


def body(ctx, case):
    import jax.numpy as jnp

    np_dtype = np.float64 if ctx.f64 else np.float32
    x = _input(case, np_dtype)
    G = group_element(case["cls"], case["opts"], case["shape"])
    gx = G(x)
    assert np.array_equal(G(gx), x)  # the oracle's group element is an involution
    s = np.maximum(x, gx)  # independently constructed symmetric design
    assert np.array_equal(G(s), s)

    fn = _transform_fn(ctx, case)
    y, yy, ys = (np.asarray(a) for a in fn(jnp.asarray(x), jnp.asarray(s)))

    shape = tuple(case["shape"])
    opt = ",".join(f"{k}={v}" for k, v in sorted(case["opts"].items()))
    ctx.classify(case["cls"] + (f"[{opt}]" if opt else ""), "dist=" + case["dist"],
                 ("singleton@%d" % shape.index(1)) if 1 in shape else "no-singleton",
                 "input-symmetric" if np.array_equal(gx, x) else "input-asymmetric")
    ctx.nontrivial((not np.array_equal(gx, x)) and len(np.unique(x)) >= 2)

    name = case["cls"] + (f"({opt})" if opt else "")
    ctx.check(y.shape == x.shape, f"{name}: output shape {y.shape} != input shape {x.shape}", list(y.shape),
              list(x.shape))
    ctx.check(y.dtype == x.dtype, f"{name}: output dtype {y.dtype} != input dtype {x.dtype}", str(y.dtype),
              str(x.dtype))
    ctx.check(np.isfinite(y).all(), f"{name}: non-finite output")
    gy = G(y)
    if not np.array_equal(gy, y):
        idx = tuple(int(i) for i in np.argwhere(gy != y)[0])
        ctx.check(False, f"{name}: output is not invariant under its symmetry operation (first at {idx}, shape {shape})",
                  observed=float(y[idx]), expected=float(gy[idx]), tolerance=0)
    if not np.array_equal(ys, s):
        idx = tuple(int(i) for i in np.argwhere(ys != s)[0])
        ctx.check(False, f"{name}: an already symmetric input is changed (first at {idx}, shape {shape})",
                  observed=float(ys[idx]), expected=float(s[idx]), tolerance=0)
    if not np.array_equal(yy, y):
        idx = tuple(int(i) for i in np.argwhere(yy != y)[0])
        ctx.check(False, f"{name}: not idempotent (first at {idx}, shape {shape})",
                  observed=float(yy[idx]), expected=float(y[idx]), tolerance=0)
    scale = max(float(np.abs(x).max()), 1e-300)
    ctx.close(np.array(y.astype(np.float64).mean()), np.array(x.astype(np.float64).mean()),
              tol=ctx.tol(1e-12, 1e-6), scale=scale, msg=f"{name}: mean not preserved", metric="mean_err")


def all_option_cases(ctx):
    """Every class x option x singleton position (2-D) once per size/seed: the drawn sub-check may miss a combination."""
    combos = []
    for va in range(3):
        combos += [("DiagonalSymmetry2D", {"min_min_to_max_max": b}, va) for b in (True, False)]
        combos += [(c, {}, va) for c in ("HorizontalSymmetry2D", "VerticalSymmetry2D", "PointSymmetry2D")]
    combos += [("HorizontalSymmetry3D", {"mirror_axis": a}, None) for a in ("x", "y")]
    combos += [("VerticalSymmetry3D", {}, None), ("PointSymmetry3D", {}, None)]
    combos += [("DiagonalSymmetry3D", {"diagonal_plane": p, "min_min_to_max_max": b}, None)
               for p in ("xy", "xz", "yz") for b in (True, False)]
    sizes = [(3, 4, 2), (4, 2, 5)] if ctx.tier == "quick" else [(3, 4, 2), (4, 2, 5), (2, 2, 2), (5, 3, 3), (2, 5, 4)]
    for rep, (p, q, r) in enumerate(sizes):
        for ci, (cls, opts, va) in enumerate(combos):
            if va is not None:
                shape = [p, p if cls == "DiagonalSymmetry2D" else q]
                shape.insert(va, 1)
            else:
                shape = [p, q, r]
                if cls == "DiagonalSymmetry3D":
                    a, b = PLANES[opts["diagonal_plane"]]
                    shape[b] = shape[a]
            yield {"cls": cls, "opts": opts, "shape": shape, "seed": 1000 * ctx.seed + 37 * rep + ci,
                   "dist": ["uniform", "normal1e3", "ints"][(rep + ci) % 3], "specials": []}


SUBS = [
    Sub(name="all_options", body=body, cases=all_option_cases, lanes=("f64", "f32"), exhaustive=False,
        exhaustive_quick=False, rule="25 class/option/singleton-position combinations x 2 (quick) or 5 (thorough) sizes"),
    Sub(name="symmetry", body=body, strategy=lambda ctx: case_strategy(ctx), quick=260, thorough=40000,
        lanes=("f64", "f32"), f32_fraction=0.25,
        rule="eight transforms x options x shapes; invariance, fixed point, idempotence, mean"),
]
KNOWN_CLASSES = {}
