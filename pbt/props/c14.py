"""C14 — on/off schedules decide exactly when sources inject and detectors record.

Two sub-checks.

``rule`` (bounded-exhaustive, pure Python).  Every schedule of a finite grid is handed to
``OnOffSwitch.calculate_on_list`` and ``calculate_time_step_to_on_arr_idx`` for every step count T = 1..24 and
compared with an exact ``fractions.Fraction`` restatement of the documented window rule (DESIGN §9):

    start = start_time | start_after_periods*period | end - on_for | 0
    end   = end_time   | end_after_periods*period   | start + on_for | +inf
    on(t) = not always_off  and  start <= t*dt <= end  and  t mod interval == 0
    fixed_on_time_steps, when given, *is* the on-set (window fields and interval are then ignored)
    index(t) = number of on-steps before t if on(t) else -1
    more than one start / end / duration field, all three of start+end+duration, or a *_periods field
    without ``period``  ->  must raise

Times are either dyadic rationals (dt in {1, 0.375}; every product / sum / difference the code forms is then
exact in binary floating point, so window edges may coincide with sample times) or built on a realistic
non-dyadic dt with every window edge a quarter or half step away from the sample times.

``runs`` (Hypothesis, real runs).  A small closed scene with random initial fields, a subject source ``src0``
and one or two subject detectors carrying random schedules, an optional second source, and for every subject
detector an identical always-on twin.  The scene is stepped with the jitted public ``forward``; after every
step (i) at a step where ``src0`` is inactive the new E, H equal those of the same scene built without
``src0`` advanced from the same state; in "quiet" cases (zero initial fields, pulse profile, no other source) the
fields must differ at every active step, in "busy" cases a continuous-wave ``src0`` with >= 3 active steps must
change the fields at some active step; (ii) each subject detector's state has exactly #active rows, at an inactive step
it is bit-identical to the state before the step, at its i-th active step row i equals the row its always-on
twin recorded at that step and all other rows are bit-identical to before; the twin itself (schedule "all
steps") is checked the same way against its own history, and for raw (non-interpolated, non-reduced) field
detectors the row is compared with the fields read from the state after the step.
"""

from __future__ import annotations

import itertools
from fractions import Fraction

import numpy as np
from hypothesis import strategies as st

from pbt import scenes
from pbt.engine import Skip, Sub

ID = "C14"
TMAX = 24
REAL_DT = 9.629180438e-17  # a production-like, non-dyadic time step (50 nm cells, courant 0.99)

RULE = (
    "rule: enumeration of four families, each case evaluated for all step counts T=1..24. V-dyadic: every "
    "valid field structure (start in {none, start_time, start_after_periods}, end likewise, duration in {none, "
    "on_for_time, on_for_periods}, not all three) x 9/9/6 time values resp. 6/6/5 period counts (edges on and "
    "off the sample times, at 0, beyond the run) x period in {2, 2.5, 0.75}dt (or {None, 2dt} when unused) x "
    "interval 1..4 x dt in {1, 0.375} (+ always-off copies); V-real: the same structures on dt=9.629e-17 with "
    "edges at quarter/half steps; X: the full product of the six window fields over {None, v1, v2} x period "
    "{None, 2} x interval {1,3} x always_off (all over-specified / period-less patterns: must raise); F: fixed "
    "step lists (empty, single, unsorted, every step) x interval 1..4 x ignored window fields. Quick tier = "
    "every 7th member of each (family, structure) class (offset by the seed) plus the first member of each class; "
    "thorough = the whole grid. runs: Hypothesis draws a closed scene of one of four 5..8 cell shapes (none/pec/pmc/periodic faces), "
    "8..20 steps, src0 of a random kind/profile with a schedule from {window, interval, fixed list, always-off, "
    "always-on}, optional src1, 1..2 detectors from {field, energy, poynting} with their own schedules + "
    "always-on twins, 40 % 'quiet' cases (zero initial fields, src0 a Gaussian pulse and the only excitation, so that every injection is visible and must be present at every active step) and 60 % 'busy' cases (random initial fields, mostly continuous wave, optional src1), in half of the cases an extra never-on detector (always-off switch or empty step list), random initial fields. Non-trivial: rule = valid schedule whose 24-step on-list contains "
    "both values; runs = the source's or a detector's schedule has at least one on->off and one off->on "
    "transition inside the run. Distinct = sha1 of the case JSON."
)
ASSUMPTIONS = [
    "the documented window rule is the one restated in DESIGN §9 (inclusive at both edges, t*dt compared in exact "
    "arithmetic); OnOffSwitch itself only carries one-line field comments",
    "fixed_on_time_steps overrides the window fields and the interval (DESIGN §9); it is not combined with "
    "is_always_off or with invalid window fields (undefined), and only indices in [0, T) are generated",
    "with is_always_off=True an otherwise invalid field combination may either raise or give an all-off list "
    "(the code does not validate in that case; the docs do not say)",
    "a raise is any Exception from calculate_on_list / calculate_time_step_to_on_arr_idx (the constructor "
    "does not validate)",
    "runs: fields after an inactive step are compared with tolerance 1e-12 (f64) / 1e-6 (f32) relative to the "
    "largest field value, because the two scenes are different XLA programs; rows a detector must not touch "
    "are compared bit for bit; a written row is compared with the twin's row at 1e-12 / 1e-6",
    "PhasorDetector keeps one accumulated record instead of one record per step and is not part of the runs "
    "sub-check; 'an active source injects' is asserted per step only for a Gaussian pulse (never zero) that is "
    "the only excitation, and once per run for continuous-wave profiles with >= 3 active steps (a profile may "
    "legitimately be zero at a step, e.g. the ramp at its first active step)",
    "at a wrongly active step fdtdx evaluates the profile at time index -1, where continuous-wave and custom "
    "profiles are exactly zero; such an injection of zero is not a violation of 'adds nothing'",
]

WINDOW_FIELDS = ("start_time", "start_after_periods", "end_time", "end_after_periods", "on_for_time",
                 "on_for_periods")


# ----------------------------------------------------------------------------------------------
# (a) the rule: reference
# ----------------------------------------------------------------------------------------------
def ref_schedule(kw, dt, tmax):
    """-> ("raise", None) | ("on", [bool]*tmax) | ("off_or_raise", [False]*tmax) ; kw: OnOffSwitch kwargs."""
    fixed = kw.get("fixed_on_time_steps")
    if fixed is not None:
        s = set(fixed)
        return "on", [t in s for t in range(tmax)]
    S = [k for k in ("start_time", "start_after_periods") if kw.get(k) is not None]
    E = [k for k in ("end_time", "end_after_periods") if kw.get(k) is not None]
    D = [k for k in ("on_for_time", "on_for_periods") if kw.get(k) is not None]
    needs_period = any(k.endswith("periods") for k in S + E + D)
    invalid = (len(S) > 1 or len(E) > 1 or len(D) > 1 or (S and E and D)
               or (needs_period and kw.get("period") is None))
    if kw.get("is_always_off"):
        return ("off_or_raise" if invalid else "on"), [False] * tmax
    if invalid:
        return "raise", None
    per = Fraction(kw["period"]) if kw.get("period") is not None else None

    def val(keys):
        if not keys:
            return None
        k = keys[0]
        return Fraction(kw[k]) * per if k.endswith("periods") else Fraction(kw[k])

    s, e, d = val(S), val(E), val(D)
    if s is None:
        s = e - d if (e is not None and d is not None) else Fraction(0)
    if e is None and d is not None:
        e = s + d
    fdt = Fraction(dt)
    iv = kw.get("interval", 1)
    on = []
    for t in range(tmax):
        x = t * fdt
        on.append(bool(s <= x and (e is None or x <= e) and t % iv == 0))
    return "on", on, (s, e)


def edge_guard_ok(edges, dt, tmax, dyadic):
    """Non-dyadic inputs: every finite window edge must be an exact sample time only if it is 0, otherwise at
    least 1/16 step away from all sample times (so a last-bit rounding in the code cannot flip a sample)."""
    if dyadic:
        return True
    fdt = Fraction(dt)
    for x in edges:
        if x is None or x == 0:
            continue
        r = x / fdt
        if abs(r - round(r)) < Fraction(1, 16):
            return False
    return True


def index_map(on):
    out, c = [], 0
    for v in on:
        if v:
            out.append(c)
            c += 1
        else:
            out.append(-1)
    return out


# ----------------------------------------------------------------------------------------------
# (a) the rule: enumeration
# ----------------------------------------------------------------------------------------------
# values in units of dt
_DY = {
    "start_time": [0, 1, 3, 6.25, 7, 10.5, 12, 23, 30],
    "end_time": [0, 2, 5, 9, 11.75, 12, 17.5, 23, 40],
    "on_for_time": [0, 1, 4, 7.5, 12, 26],
    "start_after_periods": [0, 0.5, 1.25, 3, 5.25, 12],  # periods
    "end_after_periods": [0, 1, 2.5, 4.75, 8, 20],
    "on_for_periods": [0, 0.5, 2, 3.25, 10],
}
_DY_PERIODS = [2.0, 2.5, 0.75]
_RE = {
    "start_time": [0, 0.25, 2.25, 6.75, 11.25, 30.25],
    "end_time": [0.75, 4.75, 9.25, 12.75, 17.25, 40.75],
    "on_for_time": [0.5, 4.5, 7.5],
    "start_after_periods": [0, 0.125, 1.125, 3.375, 15.125],  # x period (2 dt) = 0, .25, 2.25, 6.75, 30.25 dt
    "end_after_periods": [0.375, 2.375, 4.625, 8.625, 20.375],
    "on_for_periods": [0.25, 2.25, 3.75],
}
_X = {
    "start_time": [None, 3, 6.25], "start_after_periods": [None, 1.25, 3], "end_time": [None, 9, 11.75],
    "end_after_periods": [None, 2.5, 8], "on_for_time": [None, 4, 7.5], "on_for_periods": [None, 2, 3.25],
}
_FIXED = [[], [0], [5], [23], [1, 3, 4], [0, 2, 4, 6, 8, 10], [5, 1, 3], [9, 0, 17, 4], list(range(12)),
          [2, 3, 11, 12, 13, 20]]


def _kw(fields, dt, period_units, interval, always_off=False):
    """fields: {name: value in dt units / period counts}. -> OnOffSwitch kwargs with real float values."""
    kw = {}
    for k, v in fields.items():
        if v is None:
            continue
        kw[k] = float(v) if k.endswith("periods") else float(v) * dt
    if period_units is not None:
        kw["period"] = float(period_units) * dt
    if interval != 1:
        kw["interval"] = interval
    if always_off:
        kw["is_always_off"] = True
    return kw


def _valid_structures():
    for sk, ek, dk in itertools.product((None, "start_time", "start_after_periods"),
                                        (None, "end_time", "end_after_periods"),
                                        (None, "on_for_time", "on_for_periods")):
        if sk and ek and dk:
            continue
        yield [k for k in (sk, ek, dk) if k]


def _all_rule_cases():
    """(class key, case) for the whole grid, deterministic order."""
    # V families ---------------------------------------------------------------------------------
    for fam, table, dts, periods in (("Vdy", _DY, (1.0, 0.375), _DY_PERIODS), ("Vre", _RE, (REAL_DT,), [2.0])):
        for keys in _valid_structures():
            needs = any(k.endswith("periods") for k in keys)
            pers = periods if needs else [None, 2.0]
            for vals in itertools.product(*[table[k] for k in keys]):
                fields = dict(zip(keys, vals))
                for pu in pers:
                    for iv in (1, 2, 3, 4):
                        for dt in dts:
                            yield (fam, "+".join(keys) or "default"), {
                                "family": fam, "dt": dt, "kw": _kw(fields, dt, pu, iv)}
                    if fam == "Vdy":  # always-off copy (interval 1, dt 1)
                        yield (fam + "-off", "+".join(keys) or "default"), {
                            "family": fam, "dt": 1.0, "kw": _kw(fields, 1.0, pu, 1, always_off=True)}
    # X family: the full structural product, mostly over-specified -----------------------------------
    for vals in itertools.product(*[_X[k] for k in WINDOW_FIELDS]):
        fields = dict(zip(WINDOW_FIELDS, vals))
        sig = "+".join(k for k in WINDOW_FIELDS if fields[k] is not None) or "default"
        for pu in (None, 2.0):
            for iv in (1, 3):
                for off in (False, True):
                    yield ("X" + ("-off" if off else ""), sig + ("" if pu is None else "|period")), {
                        "family": "X", "dt": 1.0, "kw": _kw(fields, 1.0, pu, iv, always_off=off)}
    # F family: fixed lists ---------------------------------------------------------------------
    for i, fx in enumerate(_FIXED):
        for iv in (1, 2, 3, 4):
            for extra in ({}, {"start_time": 3}, {"start_time": 3, "end_time": 9}, {"end_after_periods": 2.5}):
                kw = _kw(extra, 1.0, 2.0 if "end_after_periods" in extra else None, iv)
                kw["fixed_on_time_steps"] = list(fx)
                yield ("F", f"list{i}"), {"family": "F", "dt": 1.0, "kw": kw}


def rule_cases(ctx):
    stride = 7  # coprime with the inner (interval x dt) loops, so the slice cycles through them
    seen = {}
    for key, case in _all_rule_cases():
        n = seen.get(key, 0)
        seen[key] = n + 1
        if ctx.tier == "thorough" or n == 0 or (n + ctx.seed) % stride == 0:
            yield case


def rule_body(ctx, case):
    import fdtdx

    kw, dt = case["kw"], case["dt"]
    dyadic = case["family"] != "Vre"
    ref = ref_schedule(kw, dt, TMAX)
    mode, on = ref[0], ref[1]
    fixed = kw.get("fixed_on_time_steps")
    if mode == "on" and len(ref) > 2 and not edge_guard_ok(ref[2], dt, TMAX, dyadic):
        raise Skip()
    sw = fdtdx.OnOffSwitch(**kw)  # the constructor accepts every combination
    tmin = 1 if not fixed else max(fixed) + 1
    outcomes = set()
    for T in range(tmin, TMAX + 1):
        for fn_name in ("calculate_on_list", "calculate_time_step_to_on_arr_idx"):
            try:
                got = getattr(sw, fn_name)(num_total_time_steps=T, time_step_duration=dt)
                raised = None
            except Exception as e:  # noqa: BLE001 - the contract is "raises"
                got, raised = None, e
            if mode == "raise":
                ctx.check(raised is not None, f"{fn_name}(T={T}) accepted an over-specified / period-less schedule",
                          observed=got, expected="exception")
                outcomes.add("raised")
                continue
            if mode == "off_or_raise" and raised is not None:
                outcomes.add("raised")
                continue
            ctx.check(raised is None, f"{fn_name}(T={T}) raised on a valid schedule: {raised!r}", observed=repr(raised),
                      expected="a list")
            exp = on[:T] if fn_name == "calculate_on_list" else index_map(on[:T])
            ok = isinstance(got, list) and len(got) == T and all(
                (isinstance(g, (bool, np.bool_)) if fn_name == "calculate_on_list" else isinstance(g, (int, np.integer)))
                and g == x for g, x in zip(got, exp))
            if not ok:
                bad = [t for t in range(min(T, len(got) if isinstance(got, list) else 0)) if got[t] != exp[t]]
                ctx.check(False, f"{fn_name}(T={T}, dt={dt!r}) disagrees with the window rule at steps {bad[:6]}",
                          observed=got, expected=exp)
            outcomes.add("list")
    S = [k for k in WINDOW_FIELDS if k in kw]
    ctx.classify("family=" + case["family"], "mode=" + mode, f"interval={kw.get('interval', 1)}",
                 "fields=" + (",".join(k.replace("_after_periods", "P").replace("_for_periods", "P").replace("_time", "T")
                                       for k in S) or ("fixed" if fixed is not None else "none")),
                 *("outcome=" + o for o in sorted(outcomes)))
    if fixed is not None:
        ctx.classify("fixed_n=" + str(len(fixed)))
    if mode == "on":
        if any(on) and not all(on):
            # an edge exactly on a sample time is the class in which `<=` and `<` differ
            if len(ref) > 2:
                fdt = Fraction(dt)
                s, e = ref[2]
                ctx.classify(*(["edge_on_sample"] if any(
                    x is not None and x != 0 and (x / fdt).denominator == 1 and 0 < x / fdt < TMAX for x in (s, e))
                    else ["edges_off_sample"]))
            ctx.nontrivial(not kw.get("is_always_off"))
        else:
            ctx.classify("all_on" if all(on) else "all_off")


# ----------------------------------------------------------------------------------------------
# (b) real runs
# ----------------------------------------------------------------------------------------------
@st.composite
def schedule_strategy(draw, T):
    """JSON switch in the vocabulary of scenes._switch; mostly schedules with both kinds of transition."""
    kind = draw(st.sampled_from(["window", "window", "window", "interval", "interval", "fixed", "fixed", "fixed",
                                 "half", "off", "always", "duration", "duration"]))
    if kind == "always":
        return {}
    if kind == "duration":  # window given by a duration (seconds or periods), alone or anchored at one edge
        n = draw(st.integers(0, max(0, T - 4)))
        s = {"on_for_steps": n}
        edge = draw(st.sampled_from(["none", "none", "none", "start", "end"]))
        if edge == "start":
            s["start_step"] = draw(st.integers(1, max(1, T - 3 - n)))
        elif edge == "end":
            s["end_step"] = draw(st.integers(n, T - 2))
        if draw(st.booleans()):
            s["periods"] = True
        return s
    if kind == "off":
        return {"is_always_off": True}
    if kind == "fixed":
        n = draw(st.integers(1, min(6, T - 1)))
        steps = sorted(draw(st.sets(st.integers(0, T - 1), min_size=n, max_size=n)))
        order = draw(st.sampled_from(["sorted", "sorted", "reversed", "shuffled", "duplicated"]))
        if order == "reversed":
            steps = steps[::-1]
        elif order == "shuffled":
            steps = draw(st.permutations(steps))
        elif order == "duplicated":  # the list is a set of step indices: listing one twice changes nothing
            steps = steps + [steps[draw(st.integers(0, len(steps) - 1))]]
        return {"fixed_on_time_steps": list(steps)}
    if kind == "window":
        a = draw(st.integers(1, T - 3))
        b = draw(st.integers(a, T - 2))
        return {"start_step": a, "end_step": b}
    if kind == "half":  # a single transition
        if draw(st.booleans()):
            return {"start_step": draw(st.integers(1, T - 2))}
        return {"start_step": 0, "end_step": draw(st.integers(0, T - 3))}
    s = {"start_step": draw(st.integers(0, T // 2)), "interval": draw(st.integers(2, 4))}
    if draw(st.booleans()):
        s["end_step"] = draw(st.integers(s["start_step"], T))
    return s


def _transitions(on_steps, T):
    on = [t in set(on_steps) for t in range(T)]
    up = any((not on[t]) and on[t + 1] for t in range(T - 1))
    down = any(on[t] and (not on[t + 1]) for t in range(T - 1))
    return up, down


@st.composite
def runs_strategy(draw, ctx):
    # a handful of domain shapes only: fdtdx compiles its placement kernels per array shape, so a small set
    # lets one worker process reuse them; the schedule logic under test does not depend on the shape
    shape = list(draw(st.sampled_from([(6, 6, 6), (5, 7, 6), (7, 5, 8), (8, 6, 5)])))
    T = draw(st.integers(8, 20))
    faces = draw(scenes.faces_strategy(kinds=("none", "pec", "pmc", "periodic")))
    spec = {"shape": shape, "steps": T, "courant": draw(st.sampled_from([0.5, 0.99])), "grid": {"kind": "uniform"},
            "faces": faces, "background": {"eps": draw(st.sampled_from([1.0, 2.25]))}}
    kinds = draw(st.sampled_from([("dipole_e",), ("dipole_m",), ("dipole_e", "dipole_m"), ("uniform_plane",),
                                  ("gaussian_plane",)]))
    # dipoles stay out of the first / last cell of every axis: a PEC/PMC wall there would erase the injection
    inner = [(1, n - 1) for n in shape]
    src0 = draw(scenes.source_strategy(shape, T, faces, name="src0", switches=False, kinds=kinds, interior=inner))
    # "quiet": src0 is the only excitation, fields start at zero and the profile is a Gaussian pulse, which is
    # non-zero at every time (even before t=0) -> any injection, however small, is visible relative to the fields
    # present, at every step.  "busy": random fields, any profile (mostly continuous wave), maybe a second source.
    mode = draw(st.sampled_from(["quiet", "quiet", "busy", "busy", "busy"]))
    if mode == "quiet":
        src0["profile"] = {"kind": "pulse", "width_factor": draw(st.sampled_from([3.0, 5.0, 10.0]))}
    elif draw(st.integers(0, 2)) > 0:
        src0["profile"] = {"kind": "cw"}
    src0["switch"] = draw(schedule_strategy(T))
    sources = [src0]
    if mode == "busy" and draw(st.booleans()):
        s1 = draw(scenes.source_strategy(shape, T, faces, name="src1", switches=False,
                                         kinds=("dipole_e", "dipole_m", "dipole_e", "uniform_plane")))
        s1["switch"] = draw(schedule_strategy(T))
        sources.append(s1)
    dets = []
    for i in range(draw(st.integers(1, 2))):
        d = draw(scenes.detector_strategy(shape, T, name=f"det{i}", kinds=("field", "energy", "poynting"),
                                          switches=False))
        d["switch"] = draw(schedule_strategy(T))
        dets.append(d)
        tw = dict(d)
        tw["name"] = f"det{i}_on"
        tw["switch"] = {}
        dets.append(tw)
    if draw(st.booleans()):  # a detector that never records (zero-row state), no twin needed
        d = draw(scenes.detector_strategy(shape, T, name="detoff", kinds=("field", "energy", "poynting"),
                                          switches=False))
        d["switch"] = draw(st.sampled_from([{"is_always_off": True}, {"fixed_on_time_steps": []}]))
        dets.append(d)
    spec["sources"] = sources
    spec["detectors"] = dets
    return {"scene": spec, "mode": mode, "field_seed": draw(st.integers(0, 2**31 - 1)),
            "field_amp": 0.0 if mode == "quiet" else draw(st.sampled_from([0.02, 0.02, 1.0]))}


def _jit_step(b, record):
    import jax
    from fdtdx.fdtd.forward import forward

    return jax.jit(lambda state: forward(state, b.config, b.objects, b.key, record_detectors=record,
                                         record_boundaries=False, simulate_boundaries=True))


def _np_state(ds):
    return {name: {k: np.asarray(v) for k, v in st_.items()} for name, st_ in ds.items()}


def runs_body(ctx, case):
    import jax.numpy as jnp

    spec = case["scene"]
    T = spec["steps"]
    shape = tuple(spec["shape"])
    A = scenes.build(spec, ctx.lane)
    specB = dict(spec)
    specB["sources"] = [s for s in spec["sources"] if s["name"] != "src0"]
    B = scenes.build(specB, ctx.lane)
    stepA, stepB = _jit_step(A, True), _jit_step(B, False)

    cplx = np.iscomplexobj(np.asarray(A.arrays.fields.E))
    arrays = A.arrays
    if case["field_amp"] > 0:
        E0 = scenes.random_field(case["field_seed"], shape, cplx, dense=case["field_amp"])
        H0 = scenes.random_field(case["field_seed"] + 1, shape, cplx, dense=case["field_amp"])
        arrays = scenes.project_walls(scenes.set_fields(arrays, E0, H0), A.objects)

    src0 = next(s for s in spec["sources"] if s["name"] == "src0")
    on_src = scenes.switch_on_steps(src0["switch"], T)
    subj = [d for d in spec["detectors"] if not d["name"].endswith("_on") and d["name"] != "detoff"]
    has_off = any(d["name"] == "detoff" for d in spec["detectors"])
    on_det = {d["name"]: scenes.switch_on_steps(d["switch"], T) for d in subj}
    tol = ctx.tol(1e-12, 1e-6)

    # ---- before the first step: layout of every detector state -------------------------------------
    ds = _np_state(arrays.detector_states)
    ctx.check(set(ds) == {d["name"] for d in spec["detectors"]}, "detector states do not match the detectors",
              observed=sorted(ds), expected=sorted(d["name"] for d in spec["detectors"]))
    for d in subj:
        me, tw = ds[d["name"]], ds[d["name"] + "_on"]
        ctx.check(set(me) == set(tw), f"{d['name']}: state keys differ from its always-on twin", observed=sorted(me),
                  expected=sorted(tw))
        for k in tw:
            n_act = len(on_det[d["name"]])
            ctx.check(tw[k].shape[0] == T, f"{d['name']}_on: always-on detector has {tw[k].shape[0]} rows for {T} steps",
                      observed=list(tw[k].shape), expected=T)
            ctx.check(me[k].shape == (n_act, *tw[k].shape[1:]),
                      f"{d['name']}: state '{k}' has shape {me[k].shape}, schedule has {n_act} active steps",
                      observed=list(me[k].shape), expected=[n_act, *tw[k].shape[1:]])
            ctx.check(not me[k].any() and not tw[k].any(), f"{d['name']}: initial state is not zero")

    if has_off:
        ctx.check(all(v.shape[0] == 0 for v in ds["detoff"].values()) and len(ds["detoff"]) > 0,
                  "detoff: a detector that is never on must have a zero-row state",
                  observed={k: list(v.shape) for k, v in ds["detoff"].items()}, expected="0 rows")
    state = (jnp.asarray(0, dtype=jnp.int32), arrays)
    prev_ds = ds
    written = {d["name"]: 0 for d in subj}
    injected_steps = 0
    max_inactive_diff = 0.0
    for t in range(T):
        E_prev, H_prev = state[1].fields.E, state[1].fields.H
        new = stepA(state)
        ctx.check(int(new[0]) == t + 1, "forward did not advance the time step by one", observed=int(new[0]),
                  expected=t + 1)
        EA, HA = np.asarray(new[1].fields.E), np.asarray(new[1].fields.H)
        # ---- the same scene without src0, advanced from the same state -------------------------------
        sB = stepB((state[0], scenes.set_fields(B.arrays, E_prev, H_prev)))
        EB, HB = np.asarray(sB[1].fields.E), np.asarray(sB[1].fields.H)
        scale = max(float(np.abs(EA).max()), float(np.abs(HA).max()), float(np.abs(EB).max()),
                    float(np.abs(HB).max()), 1e-30)
        diff = max(float(np.abs(EA - EB).max()), float(np.abs(HA - HB).max())) / scale
        if t not in on_src:
            max_inactive_diff = max(max_inactive_diff, diff)
            ctx.check(np.isfinite(diff) and diff <= tol,
                      f"source src0 ({src0['type']}) is inactive at step {t} but the fields differ from the run "
                      f"without it by {diff:.3e} (relative)", observed=diff, expected=0.0, tolerance=tol)
        else:
            if diff > tol:
                injected_steps += 1
            if case["mode"] == "quiet":
                ctx.check(diff > 0.0, f"source src0 ({src0['type']}, Gaussian pulse, the only excitation) is active at "
                          f"step {t} but the fields equal those of the run without it", observed=diff, expected="> 0")
        # ---- detectors ---------------------------------------------------------------------------
        now = _np_state(new[1].detector_states)
        for d in subj:
            name = d["name"]
            me, me_prev = now[name], prev_ds[name]
            tw, tw_prev = now[name + "_on"], prev_ds[name + "_on"]
            for k in tw:
                # the always-on twin: row t written, everything else untouched
                keep = np.ones(T, dtype=bool)
                keep[t] = False
                ctx.check(tw[k].shape == tw_prev[k].shape and np.array_equal(tw[k][keep], tw_prev[k][keep], equal_nan=True),
                          f"{name}_on (always on): step {t} changed rows other than row {t}")
                row = tw[k][t]
                rscale = max(float(np.abs(row).max()), 1e-30)
                if d["type"] == "field" and not d.get("exact", True) and not d.get("reduce", False) and k == "fields":
                    reg = tuple(slice(a, b) for a, b in zip(d["lo"], d["hi"]))
                    comp = {"Ex": EA[0], "Ey": EA[1], "Ez": EA[2], "Hx": HA[0], "Hy": HA[1], "Hz": HA[2]}
                    raw = np.stack([comp[c][reg] for c in d["components"]])
                    ctx.close(row, raw.real if not np.iscomplexobj(row) else raw, tol=tol, scale=max(rscale, scale * 1e-3),
                              msg=f"{name}_on: row {t} is not the field after step {t}")
                ctx.check(me[k].shape == me_prev[k].shape, f"{name}: state '{k}' changed shape at step {t}",
                          observed=list(me[k].shape), expected=list(me_prev[k].shape))
                if t not in on_det[name]:
                    ctx.check(np.array_equal(me[k], me_prev[k], equal_nan=True),
                              f"{name} ({d['type']}): inactive at step {t} but its state '{k}' changed",
                              observed=_first_diff(me[k], me_prev[k]), expected="unchanged")
                else:
                    i = written[name]
                    ctx.check(i < me[k].shape[0], f"{name}: active step {t} is number {i + 1} but the state has only "
                              f"{me[k].shape[0]} rows", observed=me[k].shape[0], expected=len(on_det[name]))
                    keep = np.ones(me[k].shape[0], dtype=bool)
                    keep[i] = False
                    ctx.check(np.array_equal(me[k][keep], me_prev[k][keep], equal_nan=True),
                              f"{name} ({d['type']}): active step {t} (record {i}) changed other rows of '{k}'",
                              observed=_first_diff(me[k], me_prev[k]), expected=f"only row {i}")
                    ctx.close(me[k][i], row, tol=tol, scale=rscale,
                              msg=f"{name} ({d['type']}): record {i} is not the value observed at its active step {t}")
            if t in on_det[name]:
                written[name] += 1
        if has_off:
            ctx.check(set(now["detoff"]) == set(ds["detoff"]) and all(
                now["detoff"][k].shape == ds["detoff"][k].shape for k in ds["detoff"]),
                f"detoff: the state of a never-on detector changed at step {t}",
                observed={k: list(v.shape) for k, v in now["detoff"].items()}, expected="0 rows")
        prev_ds = now
        state = new
    for d in subj:
        ctx.check(written[d["name"]] == len(on_det[d["name"]]), "bookkeeping")  # harness sanity
    ctx.metric("inactive_step_diff", max_inactive_diff)

    prof = src0.get("profile", {"kind": "cw"})["kind"]
    if prof == "cw" and len(on_src) >= 3:
        ctx.check(injected_steps >= 1, f"source src0 ({src0['type']}, continuous wave) has {len(on_src)} active steps "
                  f"{on_src[:8]} but never changed the fields", observed=injected_steps, expected=">= 1")
    # ---- bookkeeping for the evidence -------------------------------------------------------------
    up, down = _transitions(on_src, T)
    src_nt = up and down
    det_nt = False
    for d in subj:
        u, dn = _transitions(on_det[d["name"]], T)
        det_nt = det_nt or (u and dn)
        ctx.classify("det=" + d["type"], "det_sched=" + _sched_kind(d["switch"]),
                     "det_rows=0" if not on_det[d["name"]] else "det_rows>0",
                     "det_exact" if d.get("exact", True) else "det_raw")
    ctx.classify("src=" + src0["type"], "src_sched=" + _sched_kind(src0["switch"]), "src_profile=" + prof,
                 "src_both_transitions" if src_nt else "src_simple", "det_both_transitions" if det_nt else "det_simple",
                 "two_sources" if len(spec["sources"]) > 1 else "one_source",
                 "mode=" + case["mode"],
                 "src_injected" if injected_steps else "src_never_visible",
                 "with_never_on_detector" if has_off else "no_never_on_detector")
    ctx.nontrivial(src_nt or det_nt)


def _sched_kind(sw):
    if not sw:
        return "always"
    if sw.get("is_always_off"):
        return "off"
    if "fixed_on_time_steps" in sw:
        return "fixed"
    if "on_for_steps" in sw:
        return "duration"
    if "interval" in sw:
        return "interval"
    return "window" if "end_step" in sw and sw.get("start_step", 0) > 0 else "half"


def _first_diff(a, b):
    if a.shape != b.shape:
        return f"shape {a.shape} vs {b.shape}"
    idx = np.argwhere(~((a == b) | (np.isnan(a) & np.isnan(b))))
    if not len(idx):
        return None
    i = tuple(int(x) for x in idx[0])
    return {"index": list(i), "now": repr(a[i]), "before": repr(b[i]), "rows": sorted({int(x[0]) for x in idx})[:8]}


SUBS = [
    Sub(name="rule", body=rule_body, cases=rule_cases, lanes=("f64",), exhaustive=True, exhaustive_quick=False,
        rule="finite grid of schedules x all step counts 1..24 against the exact-rational window rule; "
             "over-specified schedules must raise"),
    Sub(name="runs", body=runs_body, strategy=lambda ctx: runs_strategy(ctx), quick=24, thorough=640,
        lanes=("f64", "f32"), f32_fraction=0.4, quick_shards=2, max_seconds_quick=240.0,
        rule="small runs with scheduled sources/detectors: source-free twin scene at inactive steps, always-on "
             "twin detectors, row-by-row state model"),
]
KNOWN_CLASSES = {}
