"""C27 — placement does not depend on the order of the object list or of the constraint list.

Metamorphic check on ``fdtdx.fdtd.initialization.resolve_object_constraints``: the same constraint system is solved
in the generation order and in several drawn (or all) permutations of the objects and of the constraints; the success
flag must be the same and, when placement succeeds, every object's resolved slice must be identical.
"""

from __future__ import annotations

import itertools
import os

from hypothesis import strategies as st

from pbt.engine import Sub
from pbt.oracles import placement as P

ID = "C27"
RULE = (
    "The constraint systems of C26 (planted-solution, perturbed = one source in eight inconsistent, free = unplanted "
    "with cycles/contradictions; 1..8 objects, uniform / quasi-uniform / stretched rectilinear grids, every "
    "constraint class and builder spelling, static shapes/positions, extension to infinity) are each solved in the "
    "generation order and under 3..5 independently drawn permutations of the object list (volume anywhere) and of the "
    "flattened constraint list. 'small': every 2-object system on one 6-cell axis with <= 2+2 items of an 18-item "
    "palette under ALL permutations of its constraints (<= 24) and both object orders. Non-trivial = at least 4 "
    "objects including the volume, some bound left to extension-to-infinity, >= 2 constraints and at least one "
    "non-identity order (small family: >= 2 constraints). Distinct = sha1 of the case JSON."
)
ASSUMPTIONS = [
    "success = no entry of the returned error dict is set; an exception escaping the solver counts as a failed "
    "placement (and must then occur under every order)",
    "'the resolved grid slice of any object' is compared only between orders that both succeed (a failed placement "
    "has no resolved slices; its partial bookkeeping legitimately depends on which conflicting constraint came first)",
    "error messages are not compared",
]


def _sys_with_orders(noise):
    @st.composite
    def strat(draw):
        sysm = draw(P.system_strategy(noise=noise))
        k = draw(st.integers(3, 5))
        return {"system": sysm, "orders": draw(P.orders_strategy(sysm, k))}

    return strat()


def _slices_json(sl):
    return {k: [list(x) for x in v] for k, v in sl.items()}


def body(ctx, case):
    sysm = case["system"]
    n_obj = len(sysm["objects"]) + 1
    n_con = P.n_flat_constraints(sysm)
    ident = [list(range(n_obj)), list(range(n_con))]
    orders = [ident] + [o for o in case["orders"]]
    base = None
    n_distinct = 0
    for op, cp in orders:
        ok, sl, err, _ed = P.solve(sysm, ctx.lane, list(op), list(cp))
        if base is None:
            base = (ok, sl, err, op, cp)
            continue
        n_distinct += [list(op), list(cp)] != ident
        if ok != base[0]:
            good, bad = ((op, cp, sl), base) if ok else ((base[3], base[4], base[1]), (ok, sl, err, op, cp))
            msg = next((f"{k}: {v}" for k, v in bad[2].items() if v), "")
            ctx.check(False, f"placement succeeds for object order {list(good[0])} / constraint order {list(good[1])} "
                      f"but fails for object order {list(bad[3])} / constraint order {list(bad[4])} ({msg[:160]})",
                      observed={"succeeds": _slices_json(good[2])}, expected="same success flag under every order")
        if ok and sl != base[1]:
            diff = {k: [_slices_json(base[1])[k], _slices_json(sl)[k]] for k in sl if sl[k] != base[1].get(k)}
            ctx.check(False, f"resolved slices differ between object/constraint order {list(base[3])}/{list(base[4])} "
                      f"and {list(op)}/{list(cp)}: {diff}", observed=diff, expected="identical slices")
    ok = base[0]
    g = sysm["grid"]
    ctx.classify("grid=" + g["kind"], "objects=%d" % len(sysm["objects"]), "success" if ok else "failed",
                 "orders=%d" % len(orders))
    if "<raised>" in base[2]:
        ctx.classify("failed-by-exception")
    inf = P.has_inf_extension(sysm)
    if inf:
        ctx.classify("extension-to-infinity")
    if case.get("small"):
        ctx.nontrivial(n_con >= 2 and n_distinct >= 1)
    else:
        ctx.nontrivial(n_obj >= 4 and inf and n_con >= 2 and n_distinct >= 1)


def small_cases(ctx):
    full = ctx.tier == "thorough"
    stride = 1 if full else 61
    if full and float(os.environ.get("VERIF_SCALE", "1")) < 1:  # development aid of the driver: thinned, not exhaustive
        stride = max(1, round(1 / float(os.environ["VERIF_SCALE"])))
    for i, sysm in enumerate(P.small_systems(2, 2)):
        if i % stride:
            continue
        n = P.n_flat_constraints(sysm)
        perms = [list(p) for p in itertools.permutations(range(n))][1:]
        orders = [[[0, 1, 2], p] for p in perms] + [[[2, 1, 0], list(range(n))], [[1, 2, 0], list(range(n))[::-1]]]
        yield {"system": sysm, "orders": orders, "small": True}


SUBS = [
    Sub(name="planted", body=body, strategy=lambda ctx: _sys_with_orders("none"), quick=300, thorough=20000,
        lanes=("f64",), quick_shards=3, rule="planted-solution systems under 3..5 drawn object/constraint orders"),
    Sub(name="perturbed", body=body, strategy=lambda ctx: _sys_with_orders("some"), quick=600, thorough=30000,
        lanes=("f64",), quick_shards=3, rule="partly inconsistent systems under 3..5 drawn orders"),
    Sub(name="free", body=body, strategy=lambda ctx: _sys_with_orders("all"), quick=450, thorough=20000,
        lanes=("f64",), quick_shards=3, rule="unplanted systems under 3..5 drawn orders"),
    Sub(name="small", body=body, cases=small_cases, lanes=("f64",), exhaustive=True, exhaustive_quick=False,
        quick_shards=3,
        rule="every 2-object one-axis system with <= 2+2 palette items under all constraint permutations and both "
             "object orders; quick tier: every 61st system"),
]


def _spurious_successes(case):
    """F9: the orders disagree only because some of them end through the solver's 'everything is resolved' early exit
    without having applied/verified every constraint: once each success is discounted whose slices violate the C26
    predicate *and* are rejected by the solver itself when pinned (pbt.oracles.placement.verified_verdict), all orders
    agree (same flag, same slices)."""
    sysm = case["system"]
    n_obj = len(sysm["objects"]) + 1
    n_con = P.n_flat_constraints(sysm)
    orders = [[list(range(n_obj)), list(range(n_con))]] + [o for o in case["orders"]]
    plain, verified = [], []
    for op, cp in orders:
        ok, sl, _probs, ver = P.verified_verdict(sysm, "f64", list(op), list(cp))
        plain.append((ok, sl if ok else None))
        verified.append((ok and ver, sl if (ok and ver) else None))
    return any(p != plain[0] for p in plain) and all(v == verified[0] for v in verified)


KNOWN_CLASSES = {"F9": _spurious_successes}
