"""C02 — one backward step exactly undoes one forward step (no PML, no dispersion)."""

from __future__ import annotations

import numpy as np
from hypothesis import strategies as st

from pbt import scenes
from pbt.engine import Sub

ID = "C02"
RULE = (
    "Hypothesis draws a scene without absorbing layers: faces from {zero halo, PEC, PMC, periodic pairs, Bloch pairs "
    "(complex fields)}, uniform or stretched grid, 0-2 material boxes from {isotropic, diagonal} x {lossless, sigma_E, "
    "sigma_H} or fully anisotropic lossless tensors, 0-3 public sources (uniform/Gaussian plane, electric/magnetic "
    "dipole incl. tilted, TFSF box region) each with a random on/off schedule, temporal profile and amplitude factor; a "
    "wall-consistent random field state (dense gaussian from a drawn seed + drawn impulses); a random step index t of the "
    "run. forward() then backward() must return E and H (and t). Non-trivial = a source active at step t, or a lossy or "
    "anisotropic cell. Distinct = sha1 of the case JSON."
)
ASSUMPTIONS = [
    "float64 tolerance 1e-9 * max|field|; float32 5e-4 (lossy cells divide by 1-a with a <= 0.5)",
    "plane / TFSF source faces are generated in locally isotropic cells (documented NotImplementedError otherwise)",
    "'satisfies the wall conditions' = projected with the boundaries' own post-update hooks",
]


@st.composite
def case_strategy(draw, ctx):
    tier = draw(st.sampled_from(["iso", "diag", "full"]))
    lossy = tier != "full" and draw(st.booleans())
    allow_bloch = draw(st.integers(0, 3)) == 0
    sh = [draw(st.integers(5, 9)) for _ in range(3)]
    faces = draw(scenes.faces_strategy(kinds=("none", "pec", "pmc", "periodic"), allow_bloch=allow_bloch))
    has_bloch = any(f["kind"] == "bloch" for f in faces.values())
    T = draw(st.integers(4, 24))
    grid = draw(scenes.grid_strategy(sh, faces))
    spec = {"shape": sh, "steps": T, "courant": draw(st.sampled_from([0.6, 0.9, 0.99])), "grid": grid, "faces": faces,
            "background": {}, "objects": [], "sources": [], "detectors": [],
            "gradient": {"method": "reversible", "ckpt": 0}}
    if has_bloch:
        spec["bloch_phase"] = [draw(st.sampled_from([0.0, 0.9, -2.1, 3.0])) for _ in range(3)]
    interior = scenes.interior_range(sh, faces)
    # half of the full-tensor cases make the *background* fully anisotropic (every cell takes the tensor branch with its
    # neighbour averages); plane / TFSF sources need isotropic faces, so those cases use dipoles only
    full_bg = tier == "full" and draw(st.booleans())
    if full_bg:
        val = st.floats(1.0, 6.0, width=32).map(lambda x: round(x, 3))
        which = draw(st.sampled_from(["eps", "eps", "mu", "both"]))
        if which in ("eps", "both"):
            spec["background"]["eps"] = scenes.spd_tensor(draw, val)
        if which in ("mu", "both"):
            spec["background"]["mu"] = scenes.spd_tensor(draw, val)
    use_region = (not full_bg) and draw(st.integers(0, 3)) == 0 and min(sh) >= 7
    blocked = []  # (axis, lo, hi) index ranges that material boxes must avoid (source faces +- 1)
    if use_region:
        ax = draw(st.integers(0, 2))
        lo = [draw(st.integers(2, 2)) for _ in range(3)]
        hi = [sh[a] - 2 for a in range(3)]
        # wrap axes of a TFSF box must be plain periodic (a phase-shifted Bloch wrap axis is rejected at placement)
        per_axes = [a for a in range(3) if a != ax and faces[f"min_{scenes.AXNAME[a]}"]["kind"] == "periodic"
                    and draw(st.booleans())]
        for a in per_axes:
            lo[a], hi[a] = 0, sh[a]
        wl = draw(st.sampled_from([8.0, 12.5]))
        spec["sources"].append({"type": "tfsf_region", "name": "region", "axis": ax, "direction": draw(st.sampled_from("+-")),
                                "pol": scenes.transverse_pol(draw, ax), "lo": lo, "hi": hi, "periodic_axes": per_axes,
                                "wl_cells": wl, "amp": draw(st.sampled_from([1.0, 0.5, -2.0])),
                                "profile": draw(scenes.profile_strategy(wl)), "switch": draw(scenes.switch_strategy(T))})
        inner = [(lo[a] + 2, hi[a] - 2) for a in range(3)]
    for i in range(draw(st.integers(0, 2))):
        s = draw(scenes.source_strategy(sh, T, faces, name=f"src{i}", interior=interior,
                                        kinds=("dipole_e", "dipole_m") if full_bg else
                                        ("uniform_plane", "gaussian_plane", "dipole_e", "dipole_m")))
        spec["sources"].append(s)
        if s["type"] in ("uniform_plane", "gaussian_plane"):
            blocked.append((s["axis"], s["pos"] - 1, s["pos"] + 2))
    for i in range(draw(st.integers(0, 2))):
        if use_region:
            if any(b - a < 1 for a, b in inner):
                break
            lo = [draw(st.integers(inner[a][0], inner[a][1] - 1)) for a in range(3)]
            hi = [draw(st.integers(lo[a] + 1, inner[a][1])) for a in range(3)]
        else:
            lo, hi = draw(scenes.box_strategy(sh))
        if any(lo[ax] < b and hi[ax] > a for ax, a, b in blocked):
            continue
        mat = draw(scenes.material_strategy(tiers=(tier,) if tier != "full" else ("iso", "diag", "full"), lossy=lossy))
        if tier == "full" and not any(isinstance(mat.get(k), list) and len(mat[k]) == 9 for k in ("eps", "mu")):
            mat["eps"] = scenes.spd_tensor(draw, st.floats(1.0, 6.0, width=32).map(lambda x: round(x, 3)))
        spec["objects"].append({"name": f"box{i}", "lo": lo, "hi": hi, "material": mat, "order": i})
    n_imp = draw(st.integers(0, 2))
    imp = [[draw(st.integers(0, 5)), draw(st.integers(0, 8)), draw(st.integers(0, 8)), draw(st.integers(0, 8)),
            draw(st.sampled_from([1.0, -3.0]))] for _ in range(n_imp)]
    return {"scene": spec, "t": draw(st.integers(0, T - 1)), "field_seed": draw(st.integers(0, 2**31 - 1)),
            "impulses": imp, "dense": draw(st.sampled_from([1, 1, 0])) if n_imp else 1,
            "reset_fields": draw(st.booleans())}


def body(ctx, case):
    import jax.numpy as jnp
    from fdtdx.fdtd.backward import backward

    spec = case["scene"]
    sh = tuple(spec["shape"])
    b = scenes.build(spec, ctx.lane)
    arrays = b.arrays
    cplx = np.iscomplexobj(np.asarray(arrays.fields.E))
    imp = case["impulses"]
    E0 = scenes.random_field(case["field_seed"], sh, cplx, [i for i in imp if i[0] < 3], case["dense"])
    H0 = scenes.random_field(case["field_seed"] + 1, sh, cplx, [[i[0] - 3, *i[1:]] for i in imp if i[0] >= 3], case["dense"])
    arrays = scenes.project_walls(scenes.set_fields(arrays, E0, H0), b.objects)
    E0, H0 = np.asarray(arrays.fields.E), np.asarray(arrays.fields.H)
    t = case["t"]
    s0 = (jnp.asarray(t, dtype=jnp.int32), arrays)
    s1 = scenes.step(b, s0)
    s2 = backward(s1, b.config, b.objects, b.key, record_detectors=False, reset_fields=case["reset_fields"])
    E2, H2 = np.asarray(s2[1].fields.E), np.asarray(s2[1].fields.H)
    E1, H1 = np.asarray(s1[1].fields.E), np.asarray(s1[1].fields.H)

    active = []
    for s in spec["sources"]:
        on = scenes.switch_on_steps(s.get("switch", {}), spec["steps"])
        if t in on:
            active.append(s["type"])
    lossy = arrays.electric_conductivity is not None or arrays.magnetic_conductivity is not None
    aniso = any(getattr(x, "ndim", 0) == 4 and x.shape[0] > 1 for x in (arrays.inv_permittivities, arrays.inv_permeabilities))
    full = any(getattr(x, "ndim", 0) == 4 and x.shape[0] == 9 for x in (arrays.inv_permittivities, arrays.inv_permeabilities))
    ctx.classify("grid=" + spec["grid"]["kind"], "complex" if cplx else "real", "lossy" if lossy else "lossless",
                 "full-tensor" if full else ("diag" if aniso else "iso"), f"active_sources={len(active)}",
                 *("active:" + a for a in sorted(set(active))), *("face=" + k for k in sorted({f["kind"] for f in spec["faces"].values()})))
    ctx.nontrivial(bool(active) or lossy or aniso)
    ctx.check(int(s2[0]) == t, "time step not restored", int(s2[0]), t)
    ctx.check(np.isfinite(E1).all() and np.isfinite(H1).all(), "forward step produced non-finite fields")
    scale = max(np.abs(E0).max(), np.abs(H0).max(), np.abs(E1).max(), np.abs(H1).max(), 1e-30)
    tol = ctx.tol(1e-9, 5e-4)
    ctx.close(E2, E0, scale=scale, tol=tol, msg=f"backward(forward(state_t)) != state_t for E at t={t}", metric="E_err")
    ctx.close(H2, H0, scale=scale, tol=tol, msg=f"backward(forward(state_t)) != state_t for H at t={t}", metric="H_err")
    # guard against a vacuous round trip: the forward step must have changed the state
    ctx.classify("changed" if (np.abs(E1 - E0).max() + np.abs(H1 - H0).max()) > 1e-6 * scale else "unchanged")


SUBS = [
    Sub(name="roundtrip", body=body, strategy=lambda ctx: case_strategy(ctx), quick=40, thorough=3200,
        lanes=("f64", "f32"), f32_fraction=0.25, quick_shards=2, rule="backward(forward(s_t)) == s_t"),
]
