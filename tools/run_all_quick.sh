#!/bin/bash
# runs every claimed check's quick tier (writes evidence), logs summary lines
cd /verif
for p in $(python3 -c "import json; print(' '.join(c['property_id'] for c in json.load(open('MANIFEST.json'))['checks']))"); do
  s=$(date +%s); out=$(./check $p --tier quick 2>&1); rc=$?
  echo "$p rc=$rc $(( $(date +%s) - s ))s :: $(echo "$out" | grep '^\[' | tail -1 | cut -c1-220)"
  [ $rc -ne 0 ] && echo "$out" | grep -A1 "^VIOLATION\|HARNESS" | head -8
done
