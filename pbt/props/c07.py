"""C07 — stopping conditions stop exactly where documented and the state equals a plain run of that length."""

from __future__ import annotations

import numpy as np
from hypothesis import strategies as st

from pbt import scenes
from pbt.engine import Skip, Sub

ID = "C07"
RULE = (
    "Hypothesis draws a small scene (6..9 cells per axis; PML / PEC / PMC / periodic / zero-halo faces, optional material "
    "box) with a pulsed or CW dipole source and a volume-reduced always-on detector, 50..110 total steps, and a stopping "
    "condition: EnergyThresholdCondition(threshold, min_steps, max_steps) or DetectorConvergenceCondition(detector, "
    "prev_periods, threshold, min_steps, max_steps) with min/max drawn below, at and above the total step count. A "
    "plain step-by-step run (jit of the public forward step) yields the reference trace; the documented rule is "
    "evaluated on it in numpy and gives the predicted stop step (threshold placed in a gap of the trace, >= 2 % away "
    "from every sample, so round-off cannot flip the decision). run_fdtd(stopping_condition=...) must stop exactly "
    "there with fields and detector rows equal to the plain run's. Non-trivial = predicted stop strictly between "
    "min_steps and the cap, or at a cap (max_steps) that is below the total."
)
ASSUMPTIONS = [
    "EnergyThresholdCondition: continue iff t < max_steps and (t < min_steps or sum(0.5 eps|E|^2 + 0.5 mu|H|^2) >= threshold), "
    "as its docstring states; the loop itself caps at time_steps_total",
    "DetectorConvergenceCondition: for t >= min_steps stop when ||abs(rfft(mean of prev periods)) - abs(rfft(last period))||_2 "
    "< threshold; hard cutoff at max_steps (docstring) and at time_steps_total",
    "min_steps <= max_steps is generated (the contradictory order is undefined by the docs)",
]


@st.composite
def case_strategy(draw, ctx, kinds=("energy", "detector")):
    sh = [draw(st.integers(6, 9)) for _ in range(3)]
    faces = draw(scenes.faces_strategy(kinds=("none", "pec", "pmc", "pml", "periodic"), pml_thickness=(2, 3)))
    for ax in range(3):
        tot = sum(faces[f"{s}_{scenes.AXNAME[ax]}"].get("thickness", 0) for s in ("min", "max"))
        if sh[ax] - tot < 3:
            sh[ax] = tot + 3
    kind = draw(st.sampled_from(list(kinds)))
    # the convergence condition needs (prev_periods + 1) periods of ~14-18 steps inside the run
    T = draw(st.integers(50, 110)) if kind == "energy" else draw(st.integers(76, 120))
    if not any(f["kind"] == "pml" for f in faces.values()) and draw(st.integers(0, 3)) > 0:
        ax = draw(st.integers(0, 2))
        for side in ("min", "max"):
            faces[f"{side}_{scenes.AXNAME[ax]}"] = {"kind": "pml", "thickness": 3}
        sh[ax] = max(sh[ax], 9)
    wl = draw(st.sampled_from([8.0, 10.0]))
    interior = scenes.interior_range(sh, faces)
    pos = [draw(st.integers(interior[a][0], interior[a][1] - 1)) for a in range(3)]
    prof = {"kind": "pulse", "width_factor": draw(st.sampled_from([3.0, 5.0]))} if (
        kind == "energy" or draw(st.booleans())) else {"kind": "cw"}
    spec = {"shape": sh, "steps": T, "courant": draw(st.sampled_from([0.9, 0.99])), "grid": {"kind": "uniform"},
            "faces": faces, "background": {}, "objects": [], "detectors": [],
            "sources": [{"type": draw(st.sampled_from(["dipole_e", "dipole_m"])), "name": "src", "wl_cells": wl,
                         "amp": 1.0, "profile": prof, "switch": {}, "pos": pos, "pol": draw(st.integers(0, 2))}]}
    if draw(st.booleans()):
        lo, hi = draw(scenes.box_strategy(sh))
        spec["objects"].append({"name": "box0", "lo": lo, "hi": hi,
                                "material": draw(scenes.material_strategy(tiers=("iso", "diag"))), "order": 0})
    dlo, dhi = draw(scenes.box_strategy(sh, min_size=2))
    det_comps = ["Ez"]
    if kind == "detector":
        # the convergence condition needs a reading that is not a cancelling mean: record the driven field component in
        # a small box around an electric dipole
        spec["sources"][0]["type"] = "dipole_e"
        pol = spec["sources"][0]["pol"]
        det_comps = ["E" + "xyz"[pol]]
        dlo = [max(0, pos[a] - draw(st.integers(0, 1))) for a in range(3)]
        dhi = [min(sh[a], pos[a] + 1 + draw(st.integers(0, 1))) for a in range(3)]
    # field readings are O(1e-3..1); energy readings are ~1e-20 (SI), where float32 squares underflow inside the
    # condition's own norm -> not a decidable domain for a float32 oracle
    spec["detectors"].append({"type": "field" if kind == "detector" else draw(st.sampled_from(["energy", "field"])), "name": "det", "exact": draw(st.booleans()),
                              "switch": {}, "lo": dlo, "hi": dhi, "reduce": True, "components": det_comps})
    case = {"scene": spec, "kind": kind, "thr_rank": draw(st.floats(0, 1, allow_nan=False, width=32)),
            "min_mode": draw(st.sampled_from(["default", "default", "zero", "mid", "after_peak", "after_peak", "after_peak"])),
            "max_mode": draw(st.sampled_from(["default", "mid", "late", "total", "above"])),
            "min_frac": draw(st.floats(0.0625, 0.875, width=32)), "max_frac": draw(st.floats(0.125, 1.0, width=32))}
    if kind == "detector":
        case["prev_periods"] = draw(st.sampled_from([1, 2, 2, 3]))
    return case


def _gap_threshold(values, rank, first=None):
    """A threshold strictly inside a gap of the positive sample values, >= 2 % from both neighbours. Three times out
    of four the gap is taken below the first sample the condition will look at (`first`), so that the run does not
    stop at min_steps straight away but somewhere inside the window (or at its cap)."""
    v = np.sort(np.unique(np.asarray([x for x in values if np.isfinite(x) and x > 0], dtype=np.float64)))
    if v.size == 0:
        return None
    gaps = [(v[i], v[i + 1]) for i in range(v.size - 1) if v[i + 1] / v[i] > 1.1]
    gaps.append((v[-1], v[-1] * 4.0))
    gaps.insert(0, (v[0] / 4.0, v[0]))
    low = [g for g in gaps if first is not None and first > 0 and g[1] <= first * (1 + 1e-9)]
    if low and rank < 0.75:
        a, b = low[min(int(rank / 0.75 * len(low)), len(low) - 1)]
    else:
        a, b = gaps[min(int(rank * len(gaps)), len(gaps) - 1)]
    return float(np.sqrt(a * b))


def body(ctx, case):
    import fdtdx
    import jax
    import jax.numpy as jnp
    from fdtdx.fdtd.forward import forward
    from fdtdx.fdtd.stop_conditions import DetectorConvergenceCondition, EnergyThresholdCondition

    spec = case["scene"]
    T = spec["steps"]
    b = scenes.build(spec, ctx.lane)
    d = spec.get("d", 5e-8)

    # ---- reference: plain step-by-step run ----------------------------------------------------
    stepf = jax.jit(lambda s: forward(s, b.config, b.objects, b.key, record_detectors=True, record_boundaries=False,
                                      simulate_boundaries=True))
    arrays0 = b.arrays.reset()
    state = (jnp.asarray(0, dtype=jnp.int32), arrays0)
    eps = 1.0 / np.asarray(arrays0.inv_permittivities, dtype=np.float64)
    im = arrays0.inv_permeabilities
    mu = 1.0 / np.asarray(im, dtype=np.float64) if getattr(im, "ndim", 0) == 4 else 1.0 / float(im)
    snaps, energy = [], []
    for t in range(T + 1):
        E, H = np.asarray(state[1].fields.E), np.asarray(state[1].fields.H)
        snaps.append((E, H))
        energy.append(float((0.5 * eps * np.abs(E) ** 2).sum() + (0.5 * mu * np.abs(H) ** 2).sum()))
        if t < T:
            state = stepf(state)
    det_full = {k: np.asarray(v) for k, v in state[1].detector_states["det"].items()}
    dkey = next(iter(det_full))
    readings = det_full[dkey][:, 0].astype(np.float64)

    def pick(mode, frac, lo, hi, default):
        if mode == "default":
            return None, default
        if mode == "zero":
            return 0, 0
        if mode == "total":
            return T, T
        if mode == "above":
            return T + 17, T + 17
        v = int(round(lo + frac * (hi - lo)))
        return v, v

    if case["kind"] == "energy":
        t_peak = int(np.argmax(energy))
        if case["min_mode"] == "after_peak":
            min_arg = min_steps = min(T, t_peak + 1 + int(case["min_frac"] * (T - t_peak) / 2))
        else:
            min_arg, min_steps = pick(case["min_mode"], case["min_frac"], 0, T // 2, round(T * 0.1))
        max_arg, max_steps = pick(case["max_mode"], case["max_frac"], max(min_steps, 1), T, T)
        if max_steps < min_steps:
            max_arg = max_steps = min_steps
        thr = _gap_threshold(energy[min_steps:min(max_steps, T) + 1] or energy, case["thr_rank"],
                             first=energy[min(min_steps, T)])
        if thr is None:
            raise Skip()
        pred = None
        for t in range(T + 1):
            cont = (t < max_steps) and (t < min_steps or not (energy[t] < thr))
            if t >= T or not cont:
                pred = t
                break
        cond = EnergyThresholdCondition(threshold=thr, min_steps=min_arg, max_steps=max_arg)
        trace_margin = min(abs(np.log(max(e, 1e-300) / thr)) for e in energy[min_steps:T + 1]) if energy[min_steps:T + 1] else 1.0
    else:
        p = case["prev_periods"]
        period = spec["sources"][0]["wl_cells"] * d / 299792458.0
        spp = int(round(period / b.config.time_step_duration))
        need = (p + 1) * spp
        if need > T:
            raise Skip()
        min_arg, min_steps = pick("mid" if case["min_mode"] == "after_peak" else case["min_mode"], case["min_frac"], need,
                                  max(need, (T + need) // 2), need)
        if min_steps < need:
            min_arg, min_steps = need, need
        max_arg, max_steps = pick(case["max_mode"], case["max_frac"], min_steps, T, T)
        if max_steps < min_steps:
            max_arg = max_steps = min_steps
        dist = {}
        for t in range(min_steps, T + 1):
            r = np.where(np.arange(T) < t, readings, 0.0)  # rows written so far
            ref = r[t - need:t - spp].reshape(p, spp).mean(axis=0)
            last = r[t - spp:t]
            dist[t] = float(np.linalg.norm(np.abs(np.fft.rfft(ref, n=spp)) - np.abs(np.fft.rfft(last, n=spp))))
        thr = _gap_threshold(list(dist.values()), case["thr_rank"], first=dist.get(min_steps))
        if thr is None or thr < 1e-12 * max(float(np.abs(readings).max()), 1e-30) or thr < 1e-15:
            raise Skip()
        pred = None
        for t in range(T + 1):
            stop = t >= T or t >= max_steps and t >= min_steps or (t >= min_steps and dist[t] < thr)
            if stop:
                pred = t
                break
        wave = fdtdx.WaveCharacter(wavelength=spec["sources"][0]["wl_cells"] * d)
        cond = DetectorConvergenceCondition(detector_name="det", wave_character=wave, prev_periods=p, threshold=thr,
                                            min_steps=min_arg, max_steps=max_arg)
        trace_margin = min(abs(np.log(max(v, 1e-300) / thr)) for v in dist.values())
        # float32 readings: a distance within the rfft round-off of the threshold is undecidable -> out of domain
        # A volume-mean that cancels analytically is pure round-off (and differs between the stepwise reference and the
        # while-loop run): such a trace, or a distance within the float32 noise of the threshold, is undecidable.
        fscale = max(max(float(np.abs(E).max()), float(np.abs(H).max())) for E, H in snaps)
        if float(np.abs(readings).max()) < 1e-3 * fscale:
            raise Skip()
        noise = max(1e-5 * float(np.abs(readings).max()), 3e-6 * fscale) * spp
        if any(abs(v - thr) <= noise for v in dist.values()):
            raise Skip()

    cap = min(max_steps, T)
    ctx.classify("kind=" + case["kind"], "min=" + case["min_mode"], "max=" + case["max_mode"],
                 "stop=cap" if pred == cap else ("stop=min" if pred == min_steps else "stop=inside"),
                 "cap<total" if cap < T else "cap=total")
    ctx.nontrivial((min_steps < pred < cap) or (pred == cap and cap < T))
    ctx.metric("log_margin_min", -trace_margin)

    t_stop, arrays = fdtdx.run_fdtd(arrays=b.arrays, objects=b.objects, config=b.config, key=b.key,
                                    stopping_condition=cond, show_progress=False)
    t_stop = int(t_stop)
    msg = (f"{case['kind']} condition (threshold={thr:.6g}, min_steps={min_steps}, max_steps={max_steps}, total={T}): "
           f"run stopped at step {t_stop}, documented rule stops at {pred}")
    ctx.check(t_stop <= T, msg + " (later than the total step count)", t_stop, pred)
    ctx.check(t_stop <= max(max_steps, min_steps) or t_stop == pred, msg + " (later than max_steps)", t_stop, pred)
    ctx.check(t_stop == pred, msg, t_stop, pred)
    scale = max(max(np.abs(E).max(), np.abs(H).max()) for E, H in snaps) or 1.0
    tol = ctx.tol(1e-10, 1e-4)
    ctx.close(np.asarray(arrays.fields.E), snaps[pred][0], scale=scale, tol=tol, msg="E at the stop differs from a plain run of that length")
    ctx.close(np.asarray(arrays.fields.H), snaps[pred][1], scale=scale, tol=tol, msg="H at the stop differs from a plain run of that length")
    got = np.asarray(arrays.detector_states["det"][dkey])
    want = det_full[dkey].copy()
    want[pred:] = 0
    # a field mean can be pure round-off noise (symmetric scene): compare relative to the field scale then
    dscale = scale if spec["detectors"][0]["type"] == "field" else None
    ctx.close(got, want, scale=dscale, tol=tol, msg="detector rows at the stop differ from a plain run of that length")


SUBS = [
    Sub(name="energy_stop", body=body, strategy=lambda ctx: case_strategy(ctx, kinds=("energy",)), quick=14, thorough=400,
        lanes=("f64", "f32"), f32_fraction=0.4, quick_shards=1,
        rule="EnergyThresholdCondition: predicted stop step from a reference energy trace"),
    # DetectorConvergenceCondition mixes int32/int64 indices in lax.dynamic_slice when jax_enable_x64 is on (an x64-only
    # incompatibility, DESIGN §10) -> production float32 lane only.
    Sub(name="detector_stop", body=body, strategy=lambda ctx: case_strategy(ctx, kinds=("detector",)), quick=6,
        thorough=240, lanes=("f32",), quick_shards=1,
        rule="DetectorConvergenceCondition: predicted stop step from a reference detector trace"),
]
