"""C41 — wave descriptions and temporal profiles are self-consistent.

Four pure-function sub-checks (no time loop):

* ``wave``    WaveCharacter built from exactly one of period / wavelength / frequency:
              period*frequency = 1, wavelength = c*period (c = 299 792 458 m/s written here, not imported),
              and the quantity that was given comes back unchanged.
* ``custom``  CustomTimeSignalProfile(interpolation="linear"): exact at the sample times, linear between
              neighbouring samples, ``outside_value`` before the first sample and from one sample spacing
              after the last sample on.  Expected values come from exact ``fractions.Fraction`` arithmetic
              on the very floats handed to fdtdx.
* ``cw``      SingleFrequencyProfile: |a(t)| <= ramp(t) <= 1 with ramp(t) = clip(t / (num_startup_periods *
              period), 0, 1); at carrier crests |a| = ramp (so the ramp really goes from 0 up to 1).
* ``pulse``   GaussianPulseProfile: |a(t)| <= 1 for all t, with queries at carrier crests next to the
              envelope centre so that the bound is tight.

``get_amplitude`` is called the way the sources call it: ``time`` is a jax array in the lane's float
dtype, ``period = WaveCharacter.get_period()`` and ``phase_shift = WaveCharacter.phase_shift`` are Python floats.
"""

from __future__ import annotations

import math
from fractions import Fraction

import numpy as np
from hypothesis import strategies as st

from pbt.engine import Sub

ID = "C41"
C_LIGHT = 299792458.0  # SI definition; deliberately not imported from fdtdx

RULE = (
    "Hypothesis draws (wave) which of period/wavelength/frequency is given, its value log-uniformly over 12 "
    "decades (mantissa in [1,10) x 10^k; 8 decades, periods >= 1e-17 s, in the float32 lane) and a phase shift; (custom) 2..12 samples in [-3,3], a sample spacing "
    "(arbitrary float in the f64 lane, m*2^e in both lanes so that float32 arithmetic is exact), a start time "
    "within +-20 spacings, an outside value, and query times at every sample, at drawn fractions j/64 between "
    "every pair of neighbours and at drawn distances before / after the window; (cw) period, the profile's "
    "and the wave's phase shifts, num_startup_periods 1..8, 12 drawn times over the ramp and 4 periods beyond "
    "plus 8 carrier-crest times; (pulse) centre frequency, spectral width = centre/r with r in [1.5,40] given "
    "as period/wavelength/frequency, phase, 12 drawn times in [t0-6 sigma, t0+12 sigma] plus the 5 carrier "
    "crests nearest to t0. Non-trivial: wave always; custom = non-constant signal; cw = some query inside the "
    "ramp where the bare carrier would exceed the ramp; pulse = some query with |a| > 0.8 (bound is tight). "
    "Distinct = sha1 of the case JSON."
)
ASSUMPTIONS = [
    "c = 299792458 m/s exactly; relative tolerance 1e-12 on the two wave identities (pure Python floats)",
    "'whichever one was given' is also read as: the given quantity is returned unchanged (1e-12 relative)",
    "custom signal: 'between them' = between two neighbouring samples; the stretch between the last sample and "
    "one spacing after it (where the code holds the last sample) is neither 'between samples' nor clearly "
    "'outside the sampled window' and is not asserted; outside_value is asserted for t < start and "
    "t >= start + n*spacing, each at least 1/64 spacing away from those edges",
    "'ramp up' is read with the documented shape: linear from 0 to 1 over num_startup_periods periods, "
    "observed at carrier crests; elsewhere only |a| <= ramp <= 1 is asserted",
    "tolerances: 1e-9 (float64 lane) / 2e-4 (float32 lane), absolute on amplitudes of order one, "
    "relative to max|signal| for the custom profile",
]


# ----------------------------------------------------------------------------------------------
# shared pieces
# ----------------------------------------------------------------------------------------------
def _logfloat(draw, lo_exp, hi_exp):
    m = draw(st.floats(1.0, 9.999, allow_nan=False, allow_infinity=False))
    e = draw(st.integers(lo_exp, hi_exp))
    return float(m) * 10.0 ** e


@st.composite
def _wave_spec(draw, narrow=False, phase=True):
    """JSON description of a WaveCharacter: exactly one of the three quantities, visible light +- 6 decades
    (narrow: periods >= 1e-17 s only, so that squared times stay normal float32 numbers)."""
    which = draw(st.sampled_from(["period", "wavelength", "frequency"]))
    cut = 4 if narrow else 0
    if which == "period":
        v = _logfloat(draw, -21 + cut, -10)
    elif which == "wavelength":
        v = _logfloat(draw, -12 + cut, -1)
    else:
        v = _logfloat(draw, 9, 20 - cut)
    w = {"which": which, "value": v}
    if phase:
        w["phase"] = draw(st.sampled_from([0.0, 0.0, 0.5, -1.25, math.pi, 2.0, -3.0, 6.0]))
    return w


def _make_wave(w):
    import fdtdx

    kw = {w["which"]: w["value"]}
    if "phase" in w:
        kw["phase_shift"] = w["phase"]
    return fdtdx.WaveCharacter(**kw)


def _ref_period(w):
    """Independent conversion to a period (float64)."""
    if w["which"] == "period":
        return w["value"]
    if w["which"] == "wavelength":
        return w["value"] / C_LIGHT
    return 1.0 / w["value"]


def _times(ctx, values):
    """Python floats -> (jax array in the lane dtype, the same values as float64 numpy after the cast)."""
    import jax.numpy as jnp

    dt = np.float64 if ctx.f64 else np.float32
    arr = np.asarray(values, dtype=np.float64).astype(dt)
    return jnp.asarray(arr), arr.astype(np.float64)


# ----------------------------------------------------------------------------------------------
# wave
# ----------------------------------------------------------------------------------------------
def wave_strategy(ctx):
    return _wave_spec()


def wave_body(ctx, case):
    wc = _make_wave(case)
    P, F, L = wc.get_period(), wc.get_frequency(), wc.get_wavelength()
    ctx.classify("given=" + case["which"])
    ctx.nontrivial(True)
    for name, v in (("period", P), ("frequency", F), ("wavelength", L)):
        ctx.check(isinstance(v, (int, float)) and math.isfinite(v) and v > 0, f"{name} is not a positive finite float",
                  observed=repr(v))
    tol = 1e-12
    e1 = abs(P * F - 1.0)
    ctx.metric("pf_err", e1)
    ctx.check(e1 <= tol, f"period*frequency = {P * F!r} != 1 (given {case['which']})", observed=P * F, expected=1.0,
              tolerance=tol)
    e2 = abs(L - C_LIGHT * P) / L
    ctx.metric("lcp_err", e2)
    ctx.check(e2 <= tol, f"wavelength {L!r} != c*period {C_LIGHT * P!r} (given {case['which']})", observed=L,
              expected=C_LIGHT * P, tolerance=tol)
    got = {"period": P, "frequency": F, "wavelength": L}[case["which"]]
    ctx.check(abs(got - case["value"]) <= tol * case["value"], f"the given {case['which']} is not returned unchanged",
              observed=got, expected=case["value"], tolerance=tol)


# ----------------------------------------------------------------------------------------------
# custom sampled signal
# ----------------------------------------------------------------------------------------------
@st.composite
def custom_strategy(draw, ctx):
    n = draw(st.integers(2, 12))
    sig = [draw(st.integers(-3000, 3000)) / 1000.0 for _ in range(n)]
    if draw(st.integers(0, 4)) == 0:  # a signal given as plain integers (integer dtype array) is a sampled signal too
        sig = [draw(st.integers(-5, 5)) for _ in range(n)]
    dyadic = (not ctx.f64) or draw(st.booleans())
    if dyadic:
        spacing = float(draw(st.sampled_from([1, 3, 5, 7]))) * 2.0 ** draw(st.integers(-62, -36))
        start_units = draw(st.sampled_from([0, 0, 64, -64, 200, -333, 1280, -1280, 37, -5])) / 64.0
    else:
        spacing = _logfloat(draw, -19, -12)
        start_units = draw(st.one_of(st.just(0.0), st.floats(-20.0, 20.0, allow_nan=False)))
    between = [[k, draw(st.integers(1, 63))] for k in range(n - 1)]
    extra = draw(st.lists(st.tuples(st.integers(0, n - 2), st.integers(1, 63)).map(list), max_size=6))
    before = [draw(st.integers(1, 64 * 6)) for _ in range(3)]  # distance before the first sample, in spacing/64
    after = [draw(st.integers(1, 64 * 6)) for _ in range(3)]  # distance after start + n*spacing, in spacing/64
    after[0] = draw(st.sampled_from([0, after[0]]))  # exactly one spacing after the last sample
    return {
        "signal": sig, "spacing": spacing, "start_units": start_units, "dyadic": dyadic,
        "outside": draw(st.sampled_from([0.0, 0.0, 0.5, -2.0, 7.0])),
        "default_start": draw(st.booleans()) if start_units == 0 else False,
        "between": between + extra, "before": before, "after": after,
    }


_CUSTOM_PAD = 12 + 11 + 6 + 6 + 1  # samples + between + extra + before/after, rounded up


def custom_body(ctx, case):
    import fdtdx
    import jax.numpy as jnp

    sig = case["signal"]
    n = len(sig)
    sp = case["spacing"]
    start = case["start_units"] * sp
    kw = dict(signal=jnp.asarray(sig), time_step_duration=sp, interpolation="linear")
    if not case["default_start"]:
        kw["start_time"] = start
    if case["outside"] != 0.0 or len(sig) % 2:
        kw["outside_value"] = case["outside"]
    prof = fdtdx.CustomTimeSignalProfile(**kw)

    q = []  # (kind, time)
    for k in range(n):
        q.append(("sample", start + k * sp))
    for k, j in case["between"]:
        q.append(("between", start + (k + j / 64.0) * sp))
    for j in case["before"]:
        q.append(("before", start - (j / 64.0) * sp))
    for j in case["after"]:
        q.append(("after", start + (n + j / 64.0) * sp))
    nq = len(q)
    # fixed array length (one XLA shape for all cases); the padding repeats the first sample time
    tj, t64 = _times(ctx, [t for _, t in q] + [start] * (_CUSTOM_PAD - nq))
    # period / phase_shift are ignored by this profile; pass what a source would pass
    got = np.asarray(prof.get_amplitude(time=tj, period=1e-15, phase_shift=0.3), dtype=np.float64)
    ctx.check(got.shape == (_CUSTOM_PAD,), "amplitude shape differs from the time shape", observed=list(got.shape),
              expected=[_CUSTOM_PAD])

    fs, fst, fsig = Fraction(sp), Fraction(start), [Fraction(s) for s in sig]
    scale = max(1.0, max(abs(s) for s in sig), abs(case["outside"]))
    tol = ctx.tol(1e-9, 2e-4)
    guard = Fraction(1, 128)
    worst = 0.0
    for (kind, _), t, g in zip(q, t64, got):
        idx = (Fraction(float(t)) - fst) / fs  # exact position in units of the sample spacing
        if kind == "sample":
            k = round(idx)
            if abs(idx - k) > Fraction(1, 10**5):  # cannot happen by construction; keep the oracle honest
                continue
            exp = float(fsig[k])
            what = f"sample {k} is not reproduced"
        elif kind == "between":
            k = math.floor(idx)
            th = idx - k
            if not (0 <= k <= n - 2 and guard <= th <= 1 - guard):
                continue
            exp = float((1 - th) * fsig[k] + th * fsig[k + 1])
            what = f"not linear between samples {k} and {k + 1} (fraction {float(th):.4f})"
        else:
            # exactly one spacing after the last sample (idx == n) is only queried with dyadic inputs, where the
            # float arithmetic is exact; with arbitrary floats keep 1/128 spacing away from that edge
            if not (idx <= -guard or idx >= n + guard or (case["dyadic"] and idx == n)):
                continue
            exp = case["outside"]
            what = f"outside_value not returned {kind} the sampled window (position {float(idx):.4f} of {n} samples)"
        err = abs(g - exp) / scale
        worst = max(worst, err if math.isfinite(err) else math.inf)
        ctx.check(err <= tol, f"custom signal: {what}: got {g!r}, expected {exp!r}", observed=float(g), expected=exp,
                  tolerance=tol)
    ctx.metric("custom_err", worst)
    ctx.classify("dyadic" if case["dyadic"] else "general", "start=0" if start == 0 else "start!=0",
                 "outside=0" if case["outside"] == 0 else "outside!=0", f"n={'2' if n == 2 else '3-12'}")
    ctx.nontrivial(len(set(sig)) > 1)


# ----------------------------------------------------------------------------------------------
# continuous wave
# ----------------------------------------------------------------------------------------------
@st.composite
def cw_strategy(draw, ctx):
    w = draw(_wave_spec(narrow=not ctx.f64))
    m = draw(st.sampled_from([None, 1, 2, 3, 4, 5, 8]))
    prof_phase = draw(st.sampled_from([None, 0.0, 0.5, -1.0, math.pi / 2, 2.5, -math.pi]))
    us = [draw(st.floats(0.0, 1.0, allow_nan=False)) for _ in range(12)]
    crests = sorted(draw(st.sets(st.integers(0, 2 * ((m or 4) + 3)), min_size=8, max_size=8)))
    return {"wave": w, "startup": m, "profile_phase": prof_phase, "u": us, "crests": crests}


def cw_body(ctx, case):
    import fdtdx

    w = case["wave"]
    wc = _make_wave(w)
    kw = {}
    if case["startup"] is not None:
        kw["num_startup_periods"] = case["startup"]
    if case["profile_phase"] is not None:
        kw["phase_shift"] = case["profile_phase"]
    prof = fdtdx.SingleFrequencyProfile(**kw)
    m = case["startup"] if case["startup"] is not None else 4  # documented default
    pphase = case["profile_phase"] if case["profile_phase"] is not None else math.pi  # documented default
    T = _ref_period(w)
    phi = w.get("phase", 0.0) + pphase
    span = (m + 4) * T
    ts = [0.0] + [u * span for u in case["u"]]
    kinds = ["any"] * len(ts)
    for k in case["crests"]:  # carrier phase 2 pi t / T + phi = j*pi  ->  |cos| = 1
        j0 = math.ceil(phi / math.pi)
        ts.append(((j0 + k) * math.pi - phi) * T / (2 * math.pi))
        kinds.append("crest")
    tj, t64 = _times(ctx, ts)
    a = np.asarray(prof.get_amplitude(time=tj, period=wc.get_period(), phase_shift=wc.phase_shift), dtype=np.float64)
    ctx.check(a.shape == t64.shape and np.isrealobj(a), "amplitude is not a real array of the time shape",
              observed=[list(a.shape), str(a.dtype)])
    ramp = np.clip(t64 / (m * T), 0.0, 1.0)
    tol = ctx.tol(1e-9, 2e-4)
    over = np.abs(a) - 1.0
    i = int(np.argmax(over))
    ctx.metric("cw_over_unit", float(over.max()))
    ctx.check(over.max() <= tol and np.isfinite(a).all(),
              f"continuous wave exceeds unit amplitude: |a| = {abs(a[i])!r} at t = {t64[i] / T:.4f} periods",
              observed=float(abs(a[i])), expected="<= 1", tolerance=tol)
    over = np.abs(a) - ramp
    i = int(np.argmax(over))
    ctx.metric("cw_over_ramp", float(over.max()))
    ctx.check(over.max() <= tol,
              f"no ramp-up: |a| = {abs(a[i])!r} exceeds the ramp {ramp[i]!r} at t = {t64[i] / T:.4f} periods "
              f"({m} startup periods)", observed=float(abs(a[i])), expected=float(ramp[i]), tolerance=tol)
    cr = np.array([k == "crest" for k in kinds])
    under = (ramp - np.abs(a))[cr]
    i = int(np.argmax(under))
    ctx.metric("cw_crest_gap", float(under.max()))
    ctx.check(under.max() <= tol,
              f"carrier crest below the ramp: |a| = {np.abs(a)[cr][i]!r}, ramp {ramp[cr][i]!r} at "
              f"t = {t64[cr][i] / T:.4f} periods ({m} startup periods)", observed=float(np.abs(a)[cr][i]),
              expected=float(ramp[cr][i]), tolerance=tol)
    ctx.check(abs(a[0]) <= tol, "amplitude at t=0 is not zero", observed=float(a[0]), expected=0.0, tolerance=tol)
    carrier = np.abs(np.cos(2 * np.pi * t64 / T + phi))
    in_ramp = (ramp < 1.0) & (carrier > ramp + 0.05)
    ctx.classify("given=" + w["which"], "startup=default" if case["startup"] is None else f"startup={m}",
                 "phase=default" if case["profile_phase"] is None else "phase=set",
                 "reaches_full" if (np.abs(a) > 0.999).any() else "below_full")
    ctx.nontrivial(bool(in_ramp.any()))


# ----------------------------------------------------------------------------------------------
# Gaussian pulse
# ----------------------------------------------------------------------------------------------
@st.composite
def pulse_strategy(draw, ctx):
    centre = draw(_wave_spec(narrow=not ctx.f64))
    ratio = draw(st.floats(1.5, 40.0, allow_nan=False))
    width_kind = draw(st.sampled_from(["period", "wavelength", "frequency"]))
    vs = [draw(st.floats(-6.0, 12.0, allow_nan=False)) for _ in range(12)]
    return {"centre": centre, "ratio": ratio, "width_kind": width_kind, "v": vs,
            "carrier_phase": draw(st.sampled_from([0.0, 0.0, 0.7, -2.0, math.pi]))}


def pulse_body(ctx, case):
    import fdtdx

    cw = case["centre"]
    fc = 1.0 / _ref_period(cw)
    fw = fc / case["ratio"]
    wk = case["width_kind"]
    wv = {"period": 1.0 / fw, "wavelength": C_LIGHT / fw, "frequency": fw}[wk]
    centre = _make_wave(cw)
    prof = fdtdx.GaussianPulseProfile(spectral_width=fdtdx.WaveCharacter(**{wk: wv}), center_wave=centre)
    sigma = 1.0 / (2 * math.pi * fw)  # documented: temporal width from the spectral width
    t0 = 6 * sigma
    phi = case["carrier_phase"] + cw.get("phase", 0.0)
    ts = [0.0, t0] + [max(0.0, t0 + v * sigma) for v in case["v"]]
    j0 = round((2 * math.pi * fc * t0 + phi) / math.pi)
    for j in range(j0 - 2, j0 + 3):  # carrier crests next to the envelope centre
        ts.append(max(0.0, (j * math.pi - phi) / (2 * math.pi * fc)))
    tj, t64 = _times(ctx, ts)
    # `period` is what the source would pass (its own wave character); the profile documents that it uses
    # center_wave instead
    a = np.asarray(prof.get_amplitude(time=tj, period=_ref_period(cw), phase_shift=case["carrier_phase"]),
                   dtype=np.float64)
    ctx.check(a.shape == t64.shape and np.isrealobj(a), "amplitude is not a real array of the time shape",
              observed=[list(a.shape), str(a.dtype)])
    tol = ctx.tol(1e-9, 2e-4)
    over = np.abs(a) - 1.0
    i = int(np.argmax(over))
    ctx.metric("pulse_over_unit", float(over.max()))
    ctx.metric("pulse_peak", float(np.abs(a).max()))
    ctx.check(np.isfinite(a).all() and over.max() <= tol,
              f"Gaussian pulse exceeds unit amplitude: |a| = {abs(a[i])!r} at (t - t0)/sigma = "
              f"{(t64[i] - t0) / sigma:.4f}", observed=float(abs(a[i])), expected="<= 1", tolerance=tol)
    ctx.classify("centre=" + cw["which"], "width=" + wk, "ratio<4" if case["ratio"] < 4 else "ratio>=4",
                 "tight" if np.abs(a).max() > 0.8 else "loose")
    ctx.nontrivial(bool(np.abs(a).max() > 0.8))


SUBS = [
    Sub(name="wave", body=wave_body, strategy=wave_strategy, quick=2000, thorough=200000, lanes=("f64",),
        rule="one of period/wavelength/frequency given over 12 decades; the two identities + the given value"),
    Sub(name="custom", body=custom_body, strategy=lambda ctx: custom_strategy(ctx), quick=800, thorough=80000,
        lanes=("f64", "f32"), f32_fraction=0.25,
        rule="sampled signal queried at samples, between neighbours, before and after the window; Fraction oracle"),
    Sub(name="cw", body=cw_body, strategy=lambda ctx: cw_strategy(ctx), quick=800, thorough=80000,
        lanes=("f64", "f32"), f32_fraction=0.25,
        rule="|a| <= ramp <= 1 at drawn times, |a| = ramp at carrier crests"),
    Sub(name="pulse", body=pulse_body, strategy=lambda ctx: pulse_strategy(ctx), quick=800, thorough=80000,
        lanes=("f64", "f32"), f32_fraction=0.25,
        rule="|a| <= 1 at drawn times and at the carrier crests next to the envelope centre"),
]
KNOWN_CLASSES = {}
