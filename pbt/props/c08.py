"""C08 — the solver is equivariant under cyclic permutation of the axes (x -> y, y -> z, z -> x).

A scene spec is run in its three cyclic orientations spec, pi(spec), pi(pi(spec)).  `permute_spec` relabels
everything the property lists: volume shape, cell widths, the six boundary faces (incl. PML thickness and
grading parameters), the Bloch phases, material tensors (diagonal lists rotate, 9-tensors
eps'_{pi(i)pi(j)} = eps_{ij}), object boxes, plane sources (axis, extent, polarisation vector; the tilt angles are
defined relative to the cyclically oriented (horizontal, vertical, propagation) triple and stay), point dipoles
(position, polarisation axis), detectors without co-location (box, component names, flux axis).  Random initial
fields and per-cell material factors are permuted with the same map.

Oracle (metamorphic, plain numpy): fields of orientation k+1 == roll of the component axis + spatial transpose
of the fields of orientation k; every raw detector record likewise (component axis re-ordered by name).
"""

from __future__ import annotations

import copy

import numpy as np
from hypothesis import strategies as st

from pbt import scenes
from pbt.engine import Skip, Sub

ID = "C08"
RULE = (
    "Hypothesis draws a scene: interior 3..5 cells per axis plus PML layers (half of the scenes cubic overall); the "
    "three axes take, in random assignment, the roles periodic/Bloch pair (random phase), PML-backed axis (PML 2..3 "
    "cells, default or kappa/alpha-graded, opposite face PML/PEC/PMC/zero halo) and wall axis (PEC/PMC/zero halo), "
    "one scene in five without a periodic axis; uniform or rectilinear grid; background + 0..2 boxes with isotropic / diagonal / full "
    "SPD-tensor eps and mu and optional scalar/diagonal/full sigma_E, sigma_H (cells under a plane source stay "
    "isotropic, as fdtdx requires); optional per-cell material factor field; 1..2 sources from {uniform plane, "
    "Gaussian plane (random axis, direction, in-plane polarisation, optional tilt, optional partial extent), "
    "electric / magnetic point dipole (random axis, optional tilt)} with random amplitude, temporal profile and "
    "on/off switch; 1..3 detectors without co-location from {field, phasor (random component subsets), energy "
    "(volume, reduced, slices), Poynting flux (random axis, direction, reduced or not)} with random switches. The "
    "three orientations are run either with fdtdx.run_fdtd from zero fields or step by step (jit(scan(forward)), "
    "detectors recording) from permuted wall-consistent random fields, 6..14 steps. Non-trivial = (a plane source "
    "and >= 1 PML face) or a full 3x3 tensor material, and non-zero fields. Distinct = sha1 of the case JSON."
)
ASSUMPTIONS = [
    "'detectors without co-location' = exact_interpolation=False (raw Yee samples); Poynting detectors get their "
    "flux axis fixed explicitly and keep_all_components=False (keep_all_components=True cannot be placed on a "
    "plane at all in this tree: jnp.stack of differently shaped face-area arrays raises)",
    "source tilt angles are relative to the source's own (horizontal, vertical, propagation) axes, which fdtdx "
    "defines cyclically (get_oriented_transverse_axes), so they are left unchanged by the relabelling",
    "differences are measured relative to max(|record|, floor) where the floor is the natural magnitude of the "
    "quantity built from the largest |E|, |H| seen in the run (so a component that is analytically zero and "
    "numerically 1e-17 noise is not compared against itself); tolerance 1e-9 (f64) / 2e-4 (f32)",
    "plane sources sit on cells that are isotropic in eps and mu (fdtdx raises otherwise)",
]

COMPS = ["Ex", "Ey", "Ez", "Hx", "Hy", "Hz"]
AX = "xyz"


# ----------------------------------------------------------------------------------------------
# the relabelling pi: axis a -> (a+1) % 3                         (plain python / numpy)
# ----------------------------------------------------------------------------------------------
def pl(v):
    """per-axis list: new[(a+1)%3] = old[a]"""
    return [v[2], v[0], v[1]]


def pt9(t):
    """row-major 3x3 tensor: new[pi(i), pi(j)] = old[i, j]"""
    T = np.asarray(t, dtype=object).reshape(3, 3)
    idx = [2, 0, 1]
    return [T[idx[i], idx[j]] for i in range(3) for j in range(3)]


def pmat(m):
    out = {}
    for k, v in m.items():
        if isinstance(v, (list, tuple)):
            out[k] = pl(list(v)) if len(v) == 3 else pt9(list(v))
        else:
            out[k] = v
    return out


def pcomp(name):
    return name[0] + AX[(AX.index(name[1]) + 1) % 3]


def permute_spec(spec):
    s = copy.deepcopy(spec)
    s["shape"] = pl(spec["shape"])
    g = spec.get("grid", {"kind": "uniform"})
    if g["kind"] == "rect":
        s["grid"] = {"kind": "rect", "widths": pl([list(w) for w in g["widths"]])}
    s["faces"] = {}
    for fname, f in spec["faces"].items():
        side, an = fname.split("_")
        s["faces"][f"{side}_{AX[(AX.index(an) + 1) % 3]}"] = copy.deepcopy(f)
    if "bloch_phase" in spec:
        s["bloch_phase"] = pl(spec["bloch_phase"])
    s["background"] = pmat(spec.get("background", {}))
    s["objects"] = []
    for o in spec.get("objects", []):
        o2 = copy.deepcopy(o)
        o2["lo"], o2["hi"], o2["material"] = pl(o["lo"]), pl(o["hi"]), pmat(o["material"])
        s["objects"].append(o2)
    s["sources"] = []
    for src in spec.get("sources", []):
        s2 = copy.deepcopy(src)
        if src["type"] in ("uniform_plane", "gaussian_plane"):
            s2["axis"] = (src["axis"] + 1) % 3
            s2["pol"] = pl(src["pol"])
            if "lo" in src:
                s2["lo"], s2["hi"] = pl(src["lo"]), pl(src["hi"])
        else:
            s2["pos"] = pl(src["pos"])
            s2["pol"] = (src["pol"] + 1) % 3
        s["sources"].append(s2)
    s["detectors"] = []
    for d in spec.get("detectors", []):
        d2 = copy.deepcopy(d)
        d2["lo"], d2["hi"] = pl(d["lo"]), pl(d["hi"])
        if "components" in d:
            mapped = {pcomp(c) for c in d["components"]}
            d2["components"] = [c for c in COMPS if c in mapped]
        if d.get("fixed_axis") is not None:
            d2["fixed_axis"] = (d["fixed_axis"] + 1) % 3
        s["detectors"].append(d2)
    return s


def psp(a, lead):
    """spatial transpose of the three axes following `lead` leading axes: new[x', y', z'] = old[y', z', x']."""
    a = np.asarray(a)
    return np.transpose(a, (*range(lead), lead + 2, lead, lead + 1))


def pvec(F):
    """(3, nx, ny, nz) vector field: roll the component axis, transpose space."""
    return np.roll(psp(F, 1), 1, axis=0)


def precord(det, key, arr):
    """Expected raw record of the permuted detector from the record `arr` (state entry `key`) of `det`."""
    arr = np.asarray(arr)
    t = det["type"]
    if t in ("field", "phasor"):
        cax = 1 if t == "field" else 2
        base = [c for c in COMPS if c in det["components"]]
        new = [c for c in COMPS if c in {pcomp(b) for b in base}]
        sp = arr if det.get("reduce") else psp(arr, cax + 1)
        order = [base.index(next(b for b in base if pcomp(b) == n)) for n in new]
        return key, np.take(sp, order, axis=cax)
    if t == "energy" and det.get("as_slices"):
        # planes of the permuted box: (x',y') = old (z,x); (x',z') = old (z,y); (y',z') = old (x,y)
        return {"XZ Plane": ("XY Plane", np.swapaxes(arr, 1, 2)), "YZ Plane": ("XZ Plane", np.swapaxes(arr, 1, 2)),
                "XY Plane": ("YZ Plane", arr)}[key]
    if det.get("reduce"):
        return key, arr
    return key, psp(arr, 1)


# ----------------------------------------------------------------------------------------------
# generator
# ----------------------------------------------------------------------------------------------
VAL = st.sampled_from([1.0, 1.5, 2.25, 3.0, 4.0, 5.5])


def _material(draw, tier, mu_tier, lossy):
    def one(t):
        if t == "iso":
            return draw(VAL)
        if t == "diag":
            return [draw(VAL) for _ in range(3)]
        return scenes.spd_tensor(draw, VAL)

    m = {"eps": one(tier)}
    if mu_tier != "none":
        m["mu"] = one(mu_tier)
    if lossy:
        kind = draw(st.sampled_from(["E", "E", "H", "EH"]))
        if "E" in kind:
            t = draw(st.sampled_from(["iso", "diag", "full"] if tier == "full" else ["iso", "diag"]))
            base = draw(st.sampled_from([1e3, 1e4, 5e4]))
            v = one(t)
            m["sigE"] = [round(x * base, 6) for x in v] if isinstance(v, list) else v * base
        if "H" in kind:
            t = draw(st.sampled_from(["iso", "diag"]))
            base = draw(st.sampled_from([1e8, 1e9]))
            v = one(t)
            m["sigH"] = [x * base for x in v] if isinstance(v, list) else v * base
    return m


def _rot(ctx, salt):
    """Worker-dependent rotation of a few top-level choices: Hypothesis always starts with the all-minimal example,
    which would otherwise be the same scene in every worker process (seed, shard and lane are fixed per worker)."""
    return (getattr(ctx, "seed", 0) * 7 + getattr(ctx, "shard", 0) * 3 + (1 if ctx.lane == "f32" else 0)) * salt


@st.composite
def case_strategy(draw, ctx):
    def pick(options, salt):
        return options[(draw(st.integers(0, len(options) - 1)) + _rot(ctx, salt)) % len(options)]

    flavour = pick(["plane_pml", "tensor"] * 4 + ["free"] * 2, 1)
    want_plane = flavour == "plane_pml" or (flavour != "tensor" and draw(st.booleans())) or (
        flavour == "tensor" and draw(st.integers(0, 3)) == 0)
    # ---- boundaries and shape -------------------------------------------------------------------
    # Every scene is dense in axis-specific code paths: the three axes get three different roles (in random
    # assignment): a periodic/Bloch pair, a PML-backed axis, and an axis closed by walls / zero halo.
    roles = list(pick([["pair", "absorb", "walls"], ["absorb", "walls", "pair"], ["walls", "pair", "absorb"],
                       ["pair", "walls", "absorb"], ["walls", "absorb", "pair"], ["absorb", "pair", "walls"]], 1))
    if draw(st.integers(0, 4)) == 0:  # sometimes no periodic axis at all
        roles = [r if r != "pair" else draw(st.sampled_from(["absorb", "walls"])) for r in roles]
    faces = {}
    for ax in range(3):
        lo_name, hi_name = f"min_{AX[ax]}", f"max_{AX[ax]}"
        if roles[ax] == "pair":
            kind = draw(st.sampled_from(["bloch", "bloch", "bloch", "periodic"]))
            faces[lo_name], faces[hi_name] = {"kind": kind}, {"kind": kind}
            continue
        if roles[ax] == "absorb":
            pair = [{"kind": "pml"}, {"kind": draw(st.sampled_from(["pml", "pec", "pmc", "none"]))}]
        else:
            pair = [{"kind": draw(st.sampled_from(["pec", "pmc"]))},
                    {"kind": draw(st.sampled_from(["pec", "pmc", "none", "none"]))}]
        if draw(st.booleans()):
            pair.reverse()
        faces[lo_name], faces[hi_name] = pair
    if flavour == "plane_pml" and not any(f["kind"] == "pml" for f in faces.values()):
        ax = next(a for a in range(3) if roles[a] != "pair")
        faces[f"{draw(st.sampled_from(['min', 'max']))}_{AX[ax]}"] = {"kind": "pml"}
    for f in faces.values():
        if f["kind"] == "pml":
            f["thickness"] = draw(st.sampled_from([2, 2, 3]))
            if draw(st.integers(0, 2)) == 0:
                f["pml_kwargs"] = draw(st.sampled_from([
                    {"kappa_end": 3.0}, {"kappa_start": 1.0, "kappa_end": 2.0, "kappa_order": 2.0},
                    {"alpha_start": 0.05, "alpha_end": 0.0, "sigma_order": 2.0}]))
    thick = [sum(faces[f"{sd}_{AX[ax]}"].get("thickness", 0) for sd in ("min", "max")) for ax in range(3)]
    if draw(st.booleans()):
        # cube: the three orientations share all full-array shapes (their eager placement ops then hit the in-process
        # compile cache, ~2x cheaper); boxes, layers, sources and detectors still have unequal extents
        n = max(thick) + draw(st.integers(3, 4))
        shape = [n, n, n]
    else:
        shape = [draw(st.integers(3, 5)) + thick[ax] for ax in range(3)]
    interior = scenes.interior_range(shape, faces)
    has_bloch = any(f["kind"] == "bloch" for f in faces.values())
    grid = draw(scenes.grid_strategy(shape, faces, kinds=("uniform", "uniform", "uniform", "uniform", "rect")))
    steps = draw(st.integers(6, 14))

    # ---- sources --------------------------------------------------------------------------------
    n_src = draw(st.sampled_from([1, 1, 1, 2]))
    sources = []
    for i in range(n_src):
        if i == 0 and want_plane:
            kinds = ("uniform_plane", "uniform_plane", "uniform_plane", "gaussian_plane")
        elif flavour == "tensor":
            kinds = ("dipole_e", "dipole_m")
        else:
            kinds = ("uniform_plane", "gaussian_plane", "dipole_e", "dipole_m")
        s = draw(scenes.source_strategy(shape, steps, faces, kinds=kinds, name=f"src{i}", interior=interior))
        if s["type"] in ("uniform_plane", "gaussian_plane"):
            if draw(st.integers(0, 2)) == 0:  # tilt (scenes' dipoles draw their own az/el)
                s["az"] = draw(st.sampled_from([0.0, 10.0, 25.0]))
                s["el"] = draw(st.sampled_from([0.0, -15.0, 20.0]))
            if draw(st.integers(0, 3)) == 0:  # partial plane, transverse extent >= 2 cells
                lo, hi = [0, 0, 0], list(shape)
                for a in range(3):
                    if a != s["axis"]:
                        lo[a] = draw(st.integers(0, shape[a] - 2))
                        hi[a] = draw(st.integers(lo[a] + 2, shape[a]))
                s["lo"], s["hi"] = lo, hi
        sources.append(s)
    planes = [(s["axis"], s["pos"]) for s in sources if s["type"] in ("uniform_plane", "gaussian_plane")]

    # ---- materials ------------------------------------------------------------------------------
    def tiers(iso_only):
        if iso_only:
            return "iso", draw(st.sampled_from(["none", "iso"]))
        if flavour == "tensor":
            t = draw(st.sampled_from(["full", "full", "diag"]))
            mt = draw(st.sampled_from(["none", "none", "diag", "full"]))
        else:
            t = draw(st.sampled_from(["iso", "diag", "diag"]))
            mt = draw(st.sampled_from(["none", "none", "iso", "diag"]))
        return t, mt

    bt, bmt = tiers(bool(planes))
    if flavour == "tensor" and not planes:
        bt = "full"
    # lossy tensor media exercise the loss-coupled off-diagonal averages of the 9-component kernels: half of the
    # full-tensor materials are lossy, a quarter of the others
    background = _material(draw, bt, bmt, draw(st.integers(0, 1 if bt == "full" else 3)) == 0)
    objects = []
    n_obj = draw(st.integers(1, 2)) if (flavour == "tensor" and planes) else draw(st.integers(0, 2))
    for i in range(n_obj):
        lo, hi = draw(scenes.box_strategy(shape))
        iso_only = False
        for ax, pos in planes:  # keep anisotropic boxes off the source planes (else: isotropic box)
            if lo[ax] <= pos < hi[ax]:
                if pos + 1 < shape[ax] and draw(st.booleans()):
                    lo[ax] = draw(st.integers(pos + 1, shape[ax] - 1))
                    hi[ax] = draw(st.integers(lo[ax] + 1, shape[ax]))
                elif pos > 0:
                    hi[ax] = draw(st.integers(1, pos))
                    lo[ax] = draw(st.integers(0, hi[ax] - 1))
                else:
                    iso_only = True
        if any(lo[ax] <= pos < hi[ax] for ax, pos in planes):  # a second plane may have been re-entered
            iso_only = True
        t, mt = tiers(iso_only)
        if flavour == "tensor" and planes and not iso_only and i == 0:
            t = "full"
        objects.append({"name": f"box{i}", "lo": lo, "hi": hi, "order": draw(st.integers(0, 1)),
                        "material": _material(draw, t, mt, draw(st.integers(0, 1 if t == "full" else 3)) == 0)})

    # ---- detectors ------------------------------------------------------------------------------
    detectors = []
    for i in range(draw(st.sampled_from([1, 1, 2, 2, 3]))):
        d = draw(scenes.detector_strategy(shape, steps, name=f"det{i}", exact=(False,)))
        if d["type"] == "poynting":
            d["keep_all"] = False
            d["fixed_axis"] = _thin(d)
        if d["type"] == "phasor" and not scenes.switch_on_steps(d["switch"], steps):
            d["switch"] = {}  # a phasor detector that never records is rejected at placement (documented)
        if d["type"] == "energy" and not d["reduce"] and draw(st.booleans()):
            d["as_slices"] = True
        detectors.append(d)

    spec = {"shape": shape, "steps": steps, "courant": draw(st.sampled_from([0.5, 0.8, 0.99])), "grid": grid,
            "faces": faces, "background": background, "objects": objects, "sources": sources,
            "detectors": detectors}
    if has_bloch:
        spec["bloch_phase"] = [draw(st.sampled_from([0.7, 1.9, -2.4, 3.14159, 0.7, -1.1, 0.0])) for _ in range(3)]
    mode = pick(["stepped", "run_fdtd", "stepped"], 1)
    if mode == "run_fdtd":  # zero initial fields: make sure the first source actually radiates
        sources[0]["switch"] = {}
        if sources[0]["profile"]["kind"] == "custom":
            sources[0]["profile"] = {"kind": "cw"}
        if sources[0]["type"] in ("dipole_e", "dipole_m"):
            sources[0]["amp"] = abs(sources[0]["amp"])
    return {"scene": spec, "mode": mode, "field_seed": draw(st.integers(0, 2**31 - 1)) + _rot(ctx, 1),
            "percell_seed": draw(st.one_of(st.none(), st.integers(0, 2**31 - 1))),
            "dense": draw(st.sampled_from([1.0, 1.0, 0.1]))}


def _thin(d):
    """the axis the scenes strategy made one cell thick for a Poynting detector (first thin axis)"""
    return next(a for a in range(3) if d["hi"][a] - d["lo"][a] == 1)


# ----------------------------------------------------------------------------------------------
# running one orientation
# ----------------------------------------------------------------------------------------------
def simulate(ctx, spec, mode, E0, H0, factor):
    """-> dict(E, H final, maxE, maxH over the run, records {det: {key: array}})"""
    import fdtdx
    import jax
    import jax.numpy as jnp
    from fdtdx.fdtd.forward import forward

    b = scenes.build(spec, ctx.lane)
    arrays = b.arrays
    if factor is not None:
        ie = arrays.inv_permittivities
        arrays = arrays.aset("inv_permittivities", jnp.asarray(np.asarray(ie) * factor[None], dtype=ie.dtype))
        im = arrays.inv_permeabilities
        if hasattr(im, "shape") and getattr(im, "ndim", 0) == 4:
            arrays = arrays.aset("inv_permeabilities", jnp.asarray(np.asarray(im) * factor[None] ** 0.5, dtype=im.dtype))
    if mode == "run_fdtd":
        _, out = fdtdx.run_fdtd(arrays=arrays, objects=b.objects, config=b.config, key=b.key, show_progress=False)
        E, H = np.asarray(out.fields.E), np.asarray(out.fields.H)
        mE, mH = float(np.abs(E).max()), float(np.abs(H).max())
    else:
        arrays = scenes.project_walls(scenes.set_fields(arrays, E0, H0), b.objects)
        mE0, mH0 = float(np.abs(np.asarray(arrays.fields.E)).max()), float(np.abs(np.asarray(arrays.fields.H)).max())

        def one(state, _):
            new = forward(state, b.config, b.objects, b.key, record_detectors=True, record_boundaries=False,
                          simulate_boundaries=True)
            return new, (jnp.abs(new[1].fields.E).max(), jnp.abs(new[1].fields.H).max())

        (_, out), (hE, hH) = jax.jit(lambda s: jax.lax.scan(one, s, None, length=spec["steps"]))(
            (jnp.asarray(0, dtype=jnp.int32), arrays))
        E, H = np.asarray(out.fields.E), np.asarray(out.fields.H)
        mE, mH = max(mE0, float(np.asarray(hE).max())), max(mH0, float(np.asarray(hH).max()))
    rec = {name: {k: np.asarray(v) for k, v in stt.items()} for name, stt in out.detector_states.items()}
    return {"E": E, "H": H, "maxE": mE, "maxH": mH, "rec": rec, "complex": np.iscomplexobj(E)}


def _extent(spec, lo, hi):
    d = spec.get("d", 5e-8)
    g = spec.get("grid", {"kind": "uniform"})
    if g["kind"] == "rect":
        return [float(np.sum(g["widths"][a][lo[a]:hi[a]])) * d for a in range(3)]
    return [(hi[a] - lo[a]) * d for a in range(3)]


def _max_material(spec):
    vals = [1.0]
    for m in [spec.get("background", {})] + [o["material"] for o in spec.get("objects", [])]:
        for k in ("eps", "mu"):
            v = m.get(k)
            if v is not None:
                vals.append(float(np.max(np.abs(np.asarray(v, dtype=float)))))
    return max(vals)


def record_floor(spec, det, mE, mH):
    """Natural magnitude of a detector's record given the largest field values of the run."""
    t = det["type"]
    ext = _extent(spec, det["lo"], det["hi"])
    if t == "field":
        return max(mE, mH)
    if t == "phasor":
        return 2.0 * max(mE, mH)
    if t == "energy":
        e = 0.5 * 1.5 * _max_material(spec) * (mE**2 + mH**2)
        return e * (ext[0] * ext[1] * ext[2] if det.get("reduce") else 1.0)
    if t == "poynting":
        s = 2.0 * mE * mH
        if det.get("reduce"):
            a = det["fixed_axis"]
            s *= np.prod([ext[k] for k in range(3) if k != a])
        return float(s)
    raise ValueError(t)


def body(ctx, case):
    spec0 = case["scene"]
    shape = tuple(spec0["shape"])
    specs = [spec0, permute_spec(spec0)]
    specs.append(permute_spec(specs[1]))
    assert permute_spec(specs[2]) == _normalise(spec0), "pi^3 != id (harness bug)"

    kinds = sorted({f["kind"] for f in spec0["faces"].values()})
    has_pml = "pml" in kinds
    has_plane = any(s["type"] in ("uniform_plane", "gaussian_plane") for s in spec0["sources"])
    mats = [spec0["background"]] + [o["material"] for o in spec0["objects"]]
    has_full = any(isinstance(v, list) and len(v) == 9 for m in mats for v in m.values())
    tilted = any(s.get("az", 0.0) or s.get("el", 0.0) for s in spec0["sources"])
    ctx.classify("mode=" + case["mode"], "grid=" + spec0["grid"]["kind"], "plane" if has_plane else "no-plane",
                 "full-tensor" if has_full else "diag/iso", "tilted" if tilted else "untilted",
                 "percell" if case["percell_seed"] is not None else "boxes-only",
                 "plane+pml" if (has_plane and has_pml) else "not(plane+pml)",
                 *("face=" + k for k in kinds), *("src=" + s["type"] for s in spec0["sources"]),
                 *("det=" + d["type"] for d in spec0["detectors"]))

    cplx = any(f["kind"] == "bloch" for f in spec0["faces"].values()) and any(
        spec0.get("bloch_phase", [0, 0, 0])[a] != 0.0 and spec0["faces"][f"min_{AX[a]}"]["kind"] == "bloch"
        for a in range(3))
    E0 = H0 = None
    if case["mode"] == "stepped":
        E0 = scenes.random_field(case["field_seed"], shape, cplx, (), case["dense"])
        H0 = scenes.random_field(case["field_seed"] + 1, shape, cplx, (), case["dense"])
    factor = None
    if case["percell_seed"] is not None:
        factor = np.random.default_rng(case["percell_seed"]).uniform(0.7, 1.3, shape)

    runs = []
    for k in range(3):
        runs.append(simulate(ctx, specs[k], case["mode"], E0, H0, factor))
        assert runs[k]["complex"] == cplx, "harness: complex-storage rule of the generator is wrong"
        if E0 is not None:
            E0, H0 = pvec(E0), pvec(H0)
        if factor is not None:
            factor = psp(factor, 0)

    mE = max(r["maxE"] for r in runs)
    mH = max(r["maxH"] for r in runs)
    if not (mE > 0 or mH > 0) or not np.isfinite([mE, mH]).all():
        ctx.check(bool(np.isfinite([mE, mH]).all()), "non-finite fields")
        raise Skip()
    ctx.nontrivial((has_plane and has_pml) or has_full)

    tol = ctx.tol(1e-9, 2e-4)
    for k in range(2):
        a, b = runs[k], runs[k + 1]
        tag = f"orientation {k + 1} vs pi(orientation {k})"
        ctx.close(b["E"], pvec(a["E"]), tol=tol, scale=max(mE, 1e-300), msg=f"E not permuted, {tag}", metric="E_err")
        ctx.close(b["H"], pvec(a["H"]), tol=tol, scale=max(mH, 1e-300), msg=f"H not permuted, {tag}", metric="H_err")
        for det in specs[k]["detectors"]:
            ra, rb = a["rec"][det["name"]], b["rec"][det["name"]]
            ctx.check(len(ra) == len(rb), f"detector {det['name']} record keys differ", observed=sorted(rb),
                      expected=sorted(ra))
            floor = record_floor(specs[k], det, mE, mH)
            for key, arr in ra.items():
                nkey, expected = precord(det, key, arr)
                ctx.check(nkey in rb, f"detector {det['name']}: missing record {nkey}", observed=sorted(rb))
                got = rb[nkey]
                scale = max(float(np.abs(got).max()) if got.size else 0.0,
                            float(np.abs(expected).max()) if expected.size else 0.0, floor, 1e-300)
                ctx.close(got, expected, tol=tol, scale=scale,
                          msg=f"{det['type']} detector {det['name']}[{nkey}] not permuted, {tag}",
                          metric=f"{det['type']}_err")


def _normalise(spec):
    """spec after a deep copy through permute_spec's own conventions (component lists sorted canonically)."""
    s = copy.deepcopy(spec)
    for d in s.get("detectors", []):
        if "components" in d:
            d["components"] = [c for c in COMPS if c in d["components"]]
    s["background"] = {k: (list(v) if isinstance(v, (list, tuple)) else v) for k, v in s.get("background", {}).items()}
    s.setdefault("objects", [])
    s.setdefault("sources", [])
    s.setdefault("detectors", [])
    return s


SUBS = [
    Sub(name="orientations", body=body, strategy=lambda ctx: case_strategy(ctx), quick=10, thorough=320,
        lanes=("f64", "f32"), f32_fraction=0.25, quick_shards=2, max_seconds_quick=600.0,
        rule="three cyclic orientations of a random scene; fields and raw detector records permute"),
]
