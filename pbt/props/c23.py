"""C23 — fabrication clean-up keeps exactly the connected material.

Oracle: plain breadth-first flood fill over face-adjacent (6-connected) cells, written from the property text.

* ``RemoveFloatingMaterial``: output == (material cells reachable from the material cells of the bottom layer
  z = 0 through face-adjacent material) as material, every other cell background — compared cell by cell.
* ``ConnectHolesAndStructures``: the output is a post-condition only: (1) every material cell of the output is
  reachable from the output's bottom-layer material, (2) every background cell of the output is reachable through
  background from a background cell on one of the four side faces or on the top face.
"""

from __future__ import annotations

from collections import deque

import numpy as np
from hypothesis import strategies as st

from pbt.engine import Skip, Sub

ID = "C23"
RULE = (
    "Hypothesis draws a binary design (two materials; background = the lower-permittivity one by default or the "
    "higher one when named explicitly; int32 or float index arrays) of shape 3..16 x 3..16 x 3..12 (or depth 1 "
    "in its own sub-check; connect: up to 12 x 10 x 5): iid random volumes from a drawn seed and density, explicitly drawn small bit volumes, "
    "and constructed adversaries whose geodesic length from the bottom layer is much larger than max(shape) — "
    "xy serpentines / square spirals / combs in a layer z >= 1 standing on a one-cell foot, vertical serpentines in "
    "the xz or yz plane, and 3-D stacked serpentines linked at alternating ends — each optionally mirrored, "
    "transposed, inverted (material <-> background, giving winding air channels) and perturbed by a few drawn "
    "cell flips. Shapes come from a palette (6 in the quick tier, 16 in the thorough tier; 3 depth-1 shapes; 2/10 for "
    "connect) so that one jit compilation serves many cases; 5 % of the thorough remove cases run eagerly. "
    "Non-trivial (remove) = the expected output keeps material above the bottom layer and either "
    "removes some floating material or has a kept cell at geodesic distance > max(shape); non-trivial (connect) = "
    "the input itself violates the post-condition (floating material or enclosed background present); non-trivial "
    "(depth 1) = material and background both present. "
    "Distinct = sha1 of the case JSON."
)
ASSUMPTIONS = [
    "'bottom layer' = index 0 of the last (z) axis; its material cells are the seeds; 'sides and top' = the four "
    "x/y boundary faces and the z = -1 face; connectivity is 6-neighbour (face adjacency) for material and background",
    "a depth-1 design consists of its bottom layer only, so RemoveFloatingMaterial must keep all of it",
    "ConnectHolesAndStructures is only asked for the stated post-condition (which cells it adds/removes is free)",
    "shapes with an axis of length 2 (or 1 other than depth) make the library's 2-D convolution raise and are not generated",
]

NEIGH = ((1, 0, 0), (-1, 0, 0), (0, 1, 0), (0, -1, 0), (0, 0, 1), (0, 0, -1))


# ------------------------------------------------------------------------------------------------
# oracle: BFS
# ------------------------------------------------------------------------------------------------
def bfs_dist(mask: np.ndarray, seeds: np.ndarray) -> np.ndarray:
    """Geodesic face-step distance inside ``mask`` from the cells ``seeds & mask``; -1 = unreachable."""
    nx, ny, nz = mask.shape
    dist = np.full(mask.shape, -1, dtype=np.int64)
    q = deque()
    for c in zip(*np.nonzero(seeds & mask)):
        c = tuple(int(v) for v in c)
        dist[c] = 0
        q.append(c)
    while q:
        x, y, z = q.popleft()
        d = dist[x, y, z] + 1
        for dx, dy, dz in NEIGH:
            a, b, c = x + dx, y + dy, z + dz
            if 0 <= a < nx and 0 <= b < ny and 0 <= c < nz and mask[a, b, c] and dist[a, b, c] < 0:
                dist[a, b, c] = d
                q.append((a, b, c))
    return dist


def bottom_seeds(shape):
    s = np.zeros(shape, dtype=bool)
    s[:, :, 0] = True
    return s


def outside_seeds(shape):
    s = np.zeros(shape, dtype=bool)
    s[0, :, :] = True
    s[-1, :, :] = True
    s[:, 0, :] = True
    s[:, -1, :] = True
    s[:, :, -1] = True
    return s


def sweeps_needed(mask: np.ndarray) -> int:
    """Classification helper only (never used as an oracle): number of rounds of three consecutive masked
    plane dilations (xy, then xz, then yz) needed before the bottom-seeded fill stops growing."""
    cur = mask & bottom_seeds(mask.shape)

    def dil(a, axes):
        out = a.copy()
        for ax in axes:
            sl_hi = [slice(None)] * 3
            sl_lo = [slice(None)] * 3
            sl_hi[ax] = slice(1, None)
            sl_lo[ax] = slice(None, -1)
            out[tuple(sl_hi)] |= a[tuple(sl_lo)]
            out[tuple(sl_lo)] |= a[tuple(sl_hi)]
        return out & mask

    rounds = 0
    while True:
        nxt = dil(dil(dil(cur, (0, 1)), (0, 2)), (1, 2))
        if (nxt == cur).all():
            return rounds
        cur = nxt
        rounds += 1


# ------------------------------------------------------------------------------------------------
# constructed designs
# ------------------------------------------------------------------------------------------------
def serpentine2d(n0: int, n1: int, gap: int = 1) -> tuple[np.ndarray, tuple[int, int]]:
    """Rows along axis 1 at rows 0, gap+1, 2(gap+1), ... joined at alternating ends; start cell (0, 0)."""
    a = np.zeros((n0, n1), dtype=bool)
    step = gap + 1
    right = True
    for r in range(0, n0, step):
        a[r, :] = True
        if r + step < n0:
            a[r : r + step, n1 - 1 if right else 0] = True
        right = not right
    return a, (0, 0)


def spiral2d(n0: int, n1: int) -> tuple[np.ndarray, tuple[int, int], tuple[int, int]]:
    """Square spiral with one-cell walls and one-cell gaps; returns (mask, outer end, inner end)."""
    a = np.zeros((n0, n1), dtype=bool)
    r, c = 0, 0
    dr, dc = 0, 1
    a[r, c] = True
    last = (r, c)
    turns_without_move = 0
    while turns_without_move < 2:
        moved = False
        while True:
            r2, c2 = r + dr, c + dc
            r3, c3 = r + 2 * dr, c + 2 * dc
            if not (0 <= r2 < n0 and 0 <= c2 < n1) or a[r2, c2]:
                break
            if 0 <= r3 < n0 and 0 <= c3 < n1 and a[r3, c3]:
                break
            r, c = r2, c2
            a[r, c] = True
            last = (r, c)
            moved = True
        dr, dc = dc, -dr
        turns_without_move = 0 if moved else turns_without_move + 1
    return a, (0, 0), last


def comb2d(n0: int, n1: int) -> tuple[np.ndarray, tuple[int, int]]:
    a = np.zeros((n0, n1), dtype=bool)
    a[:, 0] = True
    a[::2, :] = True
    return a, (n0 - 1, 0)


def build_design(case: dict) -> np.ndarray:
    nx, ny, nz = case["shape"]
    kind = case["kind"]
    m = np.zeros((nx, ny, nz), dtype=bool)
    if kind == "bits":
        m = np.array(case["bits"], dtype=bool).reshape(nx, ny, nz)
    elif kind == "random":
        rng = np.random.default_rng(int(case["seed"]))
        m = rng.random((nx, ny, nz)) < case["density"]
    elif kind in ("serp_xy", "spiral_xy", "comb_xy"):
        z0 = min(case.get("z0", 1), nz - 1)
        if kind == "serp_xy":
            layer, foot = serpentine2d(nx, ny, case.get("gap", 1))
        elif kind == "spiral_xy":
            layer, outer, inner = spiral2d(nx, ny)
            foot = inner if case.get("foot_inner") else outer
        else:
            layer, foot = comb2d(nx, ny)
        m[:, :, z0] = layer
        m[foot[0], foot[1], : z0 + 1] = True
    elif kind == "serp_vert":
        # serpentine in the (x, z) plane: runs along x at z = 0, gap+1, ...; optionally only on a few y rows
        plane, _ = serpentine2d(nz, nx, case.get("gap", 1))  # (z, x)
        ys = range(ny) if case.get("thick") else [case.get("y0", 0) % ny]
        for y in ys:
            m[:, y, :] = plane.T
    elif kind == "stack3d":
        # serpentines in the layers z = 1, 3, 5, ..., linked through the even layers at alternating ends
        layer, start = serpentine2d(nx, ny, case.get("gap", 1))
        # end cell of the 2-D serpentine
        step = case.get("gap", 1) + 1
        rows = list(range(0, nx, step))
        end = (rows[-1], 0 if len(rows) % 2 == 0 else ny - 1)
        at_start = True
        m[start[0], start[1], 0] = True
        for z in range(1, nz, 2):
            m[:, :, z] = layer
            at_start = not at_start  # after walking the layer we are at the other end
            if z + 2 < nz:
                p = end if not at_start else start
                m[p[0], p[1], z + 1] = True
    else:
        raise ValueError(kind)
    if case.get("transpose") and nx == ny:
        m = m.transpose(1, 0, 2)
    if case.get("swap_xy") and kind != "bits" and kind != "random":
        # rebuild with x and y exchanged: build for (ny, nx, nz) then transpose
        sub = dict(case, shape=[ny, nx, nz], swap_xy=False, transpose=False, flips=[], invert=False,
                   flip_x=False, flip_y=False)
        m = build_design(sub).transpose(1, 0, 2)
    if case.get("flip_x"):
        m = m[::-1]
    if case.get("flip_y"):
        m = m[:, ::-1]
    m = np.ascontiguousarray(m)
    if case.get("invert"):
        m = ~m
    for x, y, z in case.get("flips", []):
        m[x % nx, y % ny, z % nz] ^= True
    return m


# ------------------------------------------------------------------------------------------------
# strategies
# ------------------------------------------------------------------------------------------------
# Shapes come from a palette so that the jit-compiled transform (one compilation per shape/background/dtype
# combination and worker) is reused by many cases; eager execution costs 0.3-1 s (remove) or 3-15 s (connect) per
# case because every call re-traces its fori_loop, compiled execution a few ms.
REMOVE_SHAPES_QUICK = [(3, 3, 3), (5, 4, 3), (9, 9, 3), (7, 12, 5), (16, 16, 6), (10, 8, 12)]
REMOVE_SHAPES_MORE = [(4, 4, 4), (3, 3, 9), (16, 3, 3), (3, 16, 4), (12, 12, 12), (16, 11, 8), (6, 6, 6), (13, 16, 4),
                      (4, 3, 3), (8, 8, 3)]
DEPTH1_SHAPES = [(3, 3, 1), (6, 5, 1), (12, 9, 1)]
CONNECT_SHAPES_QUICK = [(4, 3, 3), (8, 7, 4)]  # compilation dominates: ~6 * nz * max(nx, ny) unrolled convolutions
CONNECT_SHAPES_MORE = [(3, 3, 3), (4, 4, 4), (3, 3, 6), (12, 3, 3), (5, 12, 4), (9, 9, 3), (6, 5, 4), (12, 10, 5)]
VARIANTS = [("default", "int32"), ("explicit_high", "float"), ("default", "float"), ("explicit_low", "int32"),
            ("explicit_high", "int32"), ("explicit_low", "float")]
ADVERSARIES = ["serp_xy", "serp_xy", "spiral_xy", "comb_xy", "serp_vert", "serp_vert", "stack3d"]


@st.composite
def design_case(draw, ctx, op: str, depth1: bool = False):
    quick = ctx.tier == "quick"
    if depth1:
        palette = DEPTH1_SHAPES
    elif op == "remove":
        palette = REMOVE_SHAPES_QUICK + ([] if quick else REMOVE_SHAPES_MORE)
    else:
        palette = CONNECT_SHAPES_QUICK + ([] if quick else CONNECT_SHAPES_MORE)
    si = draw(st.integers(0, len(palette) - 1))
    shape = list(palette[si])
    nx, ny, nz = shape
    kinds = ["random", "random", "random"]
    if nx * ny * nz <= 64:
        kinds += ["bits", "bits", "bits"]
    if not depth1:
        kinds += ADVERSARIES
    kind = draw(st.sampled_from(kinds))
    case = {"op": op, "shape": shape, "kind": kind}
    if kind == "bits":
        case["bits"] = draw(st.lists(st.integers(0, 1), min_size=nx * ny * nz, max_size=nx * ny * nz))
    elif kind == "random":
        case["seed"] = draw(st.integers(0, 2**31 - 1))
        case["density"] = draw(st.sampled_from([0.15, 0.3, 0.45, 0.6, 0.75, 0.9]))
    else:
        case["gap"] = draw(st.sampled_from([1, 1, 1, 2]))
        if kind in ("serp_xy", "spiral_xy", "comb_xy"):
            case["z0"] = draw(st.integers(1, nz - 1))
        if kind == "spiral_xy":
            case["foot_inner"] = draw(st.booleans())
        if kind == "serp_vert":
            case["thick"] = draw(st.booleans())
            case["y0"] = draw(st.integers(0, ny - 1))
        case["swap_xy"] = draw(st.booleans())
        case["flip_x"] = draw(st.booleans())
        case["flip_y"] = draw(st.booleans())
        case["invert"] = draw(st.sampled_from([False, False, False, True]))
        nflip = draw(st.sampled_from([0, 0, 0, 1, 2, 3]))
        case["flips"] = [
            [draw(st.integers(0, nx - 1)), draw(st.integers(0, ny - 1)), draw(st.integers(0, nz - 1))]
            for _ in range(nflip)
        ]
    if quick:  # one background/dtype variant per shape bounds the number of compilations
        case["bg"], case["dtype"] = VARIANTS[si % len(VARIANTS)]
        case["exec"] = "jit"
    elif op == "connect":  # compilation is expensive (5-30 s): two variants per shape
        case["bg"], case["dtype"] = VARIANTS[(si + 3 * draw(st.integers(0, 1))) % len(VARIANTS)]
        case["exec"] = "jit"
    else:
        case["bg"], case["dtype"] = draw(st.sampled_from(VARIANTS))
        case["exec"] = draw(st.sampled_from(["jit"] * 19 + ["eager"]))
    return case


def remove_strategy(ctx):
    return design_case(ctx, "remove")


def remove_depth1_strategy(ctx):
    return design_case(ctx, "remove", depth1=True)


def connect_strategy(ctx):
    return design_case(ctx, "connect")


# ------------------------------------------------------------------------------------------------
# running the transforms standalone
# ------------------------------------------------------------------------------------------------
_JIT_CACHE: dict = {}


def _run_transform(ctx, case, cls_name):
    """Initialises the transform the way Device does (init_module + init_type) and applies it to the design."""
    import jax
    import jax.numpy as jnp
    import fdtdx
    from fdtdx.objects.device.parameters import discrete
    from fdtdx.typing import ParameterType

    bg = case["bg"]
    bg_name = {"default": None, "explicit_low": "air", "explicit_high": "poly"}[bg]
    bg_idx = 1 if bg == "explicit_high" else 0  # index in the permittivity-sorted material list [air, poly]
    shape = tuple(case["shape"])
    fdt = jnp.float64 if ctx.f64 else jnp.float32
    key = (cls_name, shape, bg, case["dtype"], ctx.lane)
    if key not in _JIT_CACHE:
        # dict order deliberately differs from the permittivity order
        materials = {"poly": fdtdx.Material(permittivity=2.4), "air": fdtdx.Material(permittivity=1.0)}
        cfg = fdtdx.SimulationConfig(time=100e-15, grid=fdtdx.UniformGrid(spacing=500e-9), backend="cpu", dtype=fdt)
        t = getattr(discrete, cls_name)(background_material=bg_name)
        t = t.init_module(config=cfg, materials=materials, matrix_voxel_grid_shape=shape,
                          single_voxel_size=(5e-7, 5e-7, 5e-7), output_shape={"params": shape})
        t = t.init_type({"params": ParameterType.BINARY})

        def call(a, t=t):
            return t({"params": a})["params"]

        _JIT_CACHE[key] = (call, jax.jit(call))
    eager, jitted = _JIT_CACHE[key]
    mat = build_design(case)
    idx = np.where(mat, 1 - bg_idx, bg_idx)
    arr = jnp.asarray(idx, dtype=jnp.int32 if case["dtype"] == "int32" else fdt)
    out = (jitted if case.get("exec", "jit") == "jit" else eager)(arr)
    return mat, np.asarray(out), bg_idx


def _common_labels(ctx, case, mat):
    ctx.classify("kind=" + case["kind"], "bg=" + case["bg"], "dtype=" + case["dtype"], "exec=" + case.get("exec", "jit"),
                 "shape=" + "x".join(str(v) for v in mat.shape))
    if case.get("invert"):
        ctx.classify("inverted")
    if case.get("flips"):
        ctx.classify("perturbed")


def body_remove(ctx, case):
    mat, out, bg_idx = _run_transform(ctx, case, "RemoveFloatingMaterial")
    shape = mat.shape
    dist = bfs_dist(mat, bottom_seeds(shape))
    keep = dist >= 0
    expected = np.where(keep, 1 - bg_idx, bg_idx)

    n = max(shape)
    dmax = int(dist.max()) if keep.any() else -1
    floating = int((mat & ~keep).sum())
    above = bool(keep[:, :, 1:].any()) if shape[2] > 1 else bool(keep.any())
    _common_labels(ctx, case, mat)
    ctx.classify("geodesic>max(shape)" if dmax > n else "geodesic<=max(shape)")
    if dmax > 2 * n:
        ctx.classify("geodesic>2*max(shape)")
    if floating:
        ctx.classify("has_floating")
    if shape[2] == 1:
        ctx.classify("depth1")
    ctx.metric("max_geodesic_over_maxshape", dmax / n)
    if shape[2] == 1:
        ctx.nontrivial(bool(mat.any() and not mat.all()))
    else:
        ctx.nontrivial(above and (floating > 0 or dmax > n))

    ctx.check(out.shape == tuple(shape), "output shape differs", observed=list(out.shape), expected=list(shape))
    got = np.asarray(out, dtype=np.float64)
    bad = got != expected
    if bad.any():
        lost = int((bad & keep).sum())
        kept_wrong = int((bad & ~keep).sum())
        i = tuple(int(v) for v in np.argwhere(bad)[0])
        ctx.check(
            False,
            f"RemoveFloatingMaterial differs from the flood fill in {int(bad.sum())} cells: {lost} connected material "
            f"cells turned into background, {kept_wrong} other cells wrong (first at {i}, geodesic distance "
            f"{int(dist[i])}); max geodesic distance {dmax}, max(shape) {n}, material cells {int(mat.sum())}, "
            f"expected kept {int(keep.sum())}, kept {int((got == 1 - bg_idx).sum())}",
            observed=float(got[i]), expected=int(expected[i]),
        )


def body_connect(ctx, case):
    mat, out, bg_idx = _run_transform(ctx, case, "ConnectHolesAndStructures")
    shape = mat.shape
    out = np.asarray(out, dtype=np.float64)
    ctx.check(out.shape == tuple(shape), "output shape differs", observed=list(out.shape), expected=list(shape))
    ok_values = np.isin(out, [0.0, 1.0])
    ctx.check(bool(ok_values.all()), "output is not a binary index array", observed=np.unique(out).tolist()[:6],
              expected=[0, 1])
    omat = out != bg_idx

    in_float = mat & (bfs_dist(mat, bottom_seeds(shape)) < 0)
    in_encl = ~mat & (bfs_dist(~mat, outside_seeds(shape)) < 0)
    _common_labels(ctx, case, mat)
    if in_float.any():
        ctx.classify("input_has_floating")
    if in_encl.any():
        ctx.classify("input_has_enclosed_background")
    ctx.classify("output_changed" if (omat != mat).any() else "output_unchanged")
    ctx.nontrivial(bool(in_float.any() or in_encl.any()))

    dist = bfs_dist(omat, bottom_seeds(shape))
    floating = omat & (dist < 0)
    if floating.any():
        i = tuple(int(v) for v in np.argwhere(floating)[0])
        ctx.check(False, f"output has {int(floating.sum())} floating material cells (not face-connected to the bottom "
                         f"layer), first at {i}", observed=int(floating.sum()), expected=0)
    adist = bfs_dist(~omat, outside_seeds(shape))
    enclosed = ~omat & (adist < 0)
    if enclosed.any():
        i = tuple(int(v) for v in np.argwhere(enclosed)[0])
        ctx.check(False, f"output has {int(enclosed.sum())} background cells enclosed away from the sides and top, "
                         f"first at {i}", observed=int(enclosed.sum()), expected=0)


SUBS = [
    Sub(name="remove_floating", body=body_remove, strategy=remove_strategy, quick=400, thorough=40000,
        lanes=("f64",), rule="output == BFS component of the bottom layer, cell by cell"),
    Sub(name="remove_floating_depth1", body=body_remove, strategy=remove_depth1_strategy, quick=40, thorough=1500,
        lanes=("f64",), rule="depth-1 designs: the only layer is the bottom layer, everything is kept"),
    Sub(name="connect", body=body_connect, strategy=connect_strategy, quick=160, thorough=8000,
        lanes=("f64",), rule="post-condition: no floating material, no enclosed background (BFS on the output)"),
]


# ------------------------------------------------------------------------------------------------
# known-finding classes (predicates on the case alone)
# ------------------------------------------------------------------------------------------------
def _is_remove_case_needing_more_sweeps(case) -> bool:
    if case.get("op") != "remove":
        return False
    mat = build_design(case)
    if mat.shape[2] == 1:
        return False
    return sweeps_needed(mat) > max(mat.shape)


def _is_depth1_with_material(case) -> bool:
    if case.get("op") != "remove":
        return False
    mat = build_design(case)
    return mat.shape[2] == 1 and bool(mat.any())


KNOWN_CLASSES = {
    "F6": _is_remove_case_needing_more_sweeps,
    "F6b": _is_depth1_with_material,
}
