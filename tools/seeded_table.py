#!/usr/bin/env python3
"""Prints the markdown table of seeded changes (from seeded/*/meta.json) for DESIGN.md §14."""
import json, glob, os
rows = []
for f in sorted(glob.glob(os.path.join(os.path.dirname(__file__), "..", "seeded", "*", "meta.json"))):
    m = json.load(open(f))
    d = m["detection"]
    rows.append(f"| {m['property']} | {m['needs_to_manifest']} | {d['result']} | {d['detail']} |")
print("| property | what the seeded change needs in order to manifest | caught by `./check <ID> --tier quick` | detail |")
print("|---|---|---|---|")
print("\n".join(rows))
