"""C03 — the backward pass reconstructs the forward-run fields outside the absorbing layers at every step."""

from __future__ import annotations

import numpy as np
from hypothesis import strategies as st

from pbt import scenes
from pbt.engine import Sub

ID = "C03"
RULE = (
    "Hypothesis draws a lossless non-dispersive scene with PML (default grading, thickness 2..4) on a random non-empty "
    "subset of faces and PEC/PMC/periodic/zero-halo on the others, uniform or stretched grid, 0-2 sources with "
    "schedules/profiles, 0-2 isotropic/diagonal material boxes, random wall-consistent initial fields on the cells "
    "outside the layers, a lossless recorder (no compression modules), T in 6..28 steps. The run is stepped forward "
    "with record_boundaries=True while snapshotting E,H; then backward(reset_fields=True) is applied step by step "
    "(what full_backward loops over) and the state is compared with the snapshot at EVERY earlier step on all cells "
    "outside every PML slice; full_backward itself is also called once and compared at step 0 (or a drawn start step). "
    "Non-trivial = the peak field on some PML interface row exceeds 1e-6 of the peak field (the interface is exercised) "
    "and T >= max thickness + 2."
)
ASSUMPTIONS = [
    "float64 tolerance 1e-9 * peak field, float32 2e-3 (reverse sweeps accumulate round-off over up to 28 steps)",
    "initial fields are drawn on the cells outside the layers only (the property speaks of interior fields)",
]


@st.composite
def case_strategy(draw, ctx):
    spec = draw(scenes.sim_scene_strategy(require_pml=True, steps=(6, 28), n_sources=(0, 2), n_detectors=(0, 0),
                                          n_objects=(0, 2), material_tiers=("iso", "diag"), lossy=False, shape=(6, 10)))
    spec["gradient"] = {"method": "reversible", "ckpt": 0}
    return {"scene": spec, "field_seed": draw(st.integers(0, 2**31 - 1)),
            "init": draw(st.sampled_from(["dense", "dense", "zero", "impulse"])),
            "impulse": [draw(st.integers(0, 5)), draw(st.integers(0, 9)), draw(st.integers(0, 9)), draw(st.integers(0, 9))],
            "start": draw(st.sampled_from([0, 0, 1, 3]))}


def body(ctx, case):
    import jax.numpy as jnp
    from fdtdx.fdtd.backward import backward, full_backward

    spec = case["scene"]
    sh = tuple(spec["shape"])
    T = spec["steps"]
    b = scenes.build(spec, ctx.lane)
    interior = np.ones(sh, dtype=bool)
    thick = []
    iface = np.zeros(sh, dtype=bool)
    for p in b.objects.pml_objects:
        interior[p.grid_slice] = False
        iface[p.interface_slice()] = True
        thick.append(p.grid_shape[p.axis])
    arrays = b.arrays
    if case["init"] == "dense":
        E0 = scenes.random_field(case["field_seed"], sh) * interior
        H0 = scenes.random_field(case["field_seed"] + 1, sh) * interior
    else:
        E0 = np.zeros((3, *sh))
        H0 = np.zeros((3, *sh))
        if case["init"] == "impulse":
            c, i, j, k = case["impulse"]
            idx = np.argwhere(interior)
            i, j, k = idx[(i * 97 + j * 13 + k) % len(idx)]
            (E0 if c < 3 else H0)[c % 3, i, j, k] = 1.0
    arrays = scenes.project_walls(scenes.set_fields(arrays, E0, H0), b.objects)
    have_src = any(scenes.switch_on_steps(s.get("switch", {}), T) for s in spec["sources"])
    state = (jnp.asarray(0, dtype=jnp.int32), arrays)
    snaps = []
    peak_iface = 0.0
    for _ in range(T):
        E, H = np.asarray(state[1].fields.E), np.asarray(state[1].fields.H)
        snaps.append((E, H))
        peak_iface = max(peak_iface, float(np.abs(E[:, iface]).max()), float(np.abs(H[:, iface]).max()))
        state = scenes.step(b, state, record_boundaries=True)
    final = state
    peak = max(max(np.abs(E).max(), np.abs(H).max()) for E, H in snaps)
    peak = max(peak, float(np.abs(np.asarray(final[1].fields.E)).max()))
    ctx.classify(f"pml_faces={len(thick)}", "grid=" + spec["grid"]["kind"], "init=" + case["init"],
                 "sources" if have_src else "no-sources",
                 *("face=" + k for k in sorted({f["kind"] for f in spec["faces"].values()})))
    if not (peak > 0 and np.isfinite(peak)):
        ctx.check(np.isfinite(peak), "forward run produced non-finite fields")
        ctx.classify("all-zero")
        return
    ctx.nontrivial(peak_iface > 1e-6 * peak and T >= max(thick) + 2)
    tol = ctx.tol(1e-9, 2e-3)
    for t in range(T - 1, -1, -1):
        state = backward(state, b.config, b.objects, b.key, record_detectors=False, reset_fields=True)
        ctx.check(int(state[0]) == t, "backward did not decrement the time step", int(state[0]), t)
        E, H = np.asarray(state[1].fields.E), np.asarray(state[1].fields.H)
        ctx.close(E[:, interior], snaps[t][0][:, interior], scale=peak, tol=tol,
                  msg=f"reverse sweep: interior E at step {t} (of {T}) differs from the forward run", metric="E_err")
        ctx.close(H[:, interior], snaps[t][1][:, interior], scale=peak, tol=tol,
                  msg=f"reverse sweep: interior H at step {t} (of {T}) differs from the forward run", metric="H_err")
    s0 = min(case["start"], T - 1)
    fb = full_backward(final, b.objects, b.config, b.key, record_detectors=False, reset_fields=True, start_time_step=s0)
    ctx.check(int(fb[0]) == s0, "full_backward stopped at the wrong step", int(fb[0]), s0)
    ctx.close(np.asarray(fb[1].fields.E)[:, interior], snaps[s0][0][:, interior], scale=peak, tol=tol,
              msg=f"full_backward: interior E at step {s0} differs from the forward run", metric="E_err_full")
    ctx.close(np.asarray(fb[1].fields.H)[:, interior], snaps[s0][1][:, interior], scale=peak, tol=tol,
              msg=f"full_backward: interior H at step {s0} differs from the forward run", metric="H_err_full")


SUBS = [
    Sub(name="reverse_sweep", body=body, strategy=lambda ctx: case_strategy(ctx), quick=14, thorough=1200,
        lanes=("f64", "f32"), f32_fraction=0.25, quick_shards=2,
        rule="forward with interface recording, then backward step by step vs snapshots"),
]
