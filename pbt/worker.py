"""One worker process = one (property, lane, shard).  Runs committed replays first, then every sub."""

from __future__ import annotations

import argparse
import importlib
import json
import os
import sys
import time

sys.path.insert(0, os.path.dirname(os.path.dirname(os.path.abspath(__file__))))

from pbt import engine  # noqa: E402
from pbt.engine import Ctx, SubResult  # noqa: E402


def load_known(prop_id):
    path = os.path.join(engine.VERIF_DIR, "known_findings.json")
    if not os.path.exists(path):
        return []
    with open(path) as f:
        return [e for e in json.load(f)["findings"] if e["property"] == prop_id]


def main():
    ap = argparse.ArgumentParser()
    ap.add_argument("--prop", required=True)
    ap.add_argument("--tier", required=True)
    ap.add_argument("--lane", required=True)
    ap.add_argument("--seed", type=int, required=True)
    ap.add_argument("--shard", type=int, default=0)
    ap.add_argument("--nshards", type=int, default=1)
    ap.add_argument("--plan", required=True, help="json: {sub name: n examples}")
    ap.add_argument("--out", required=True)
    ap.add_argument("--replay", default=None)
    ap.add_argument("--run-replays", action="store_true")
    a = ap.parse_args()

    out = {"lane": a.lane, "shard": a.shard, "subs": [], "replays": [], "fatal": None}
    t0 = time.time()
    try:
        engine.bootstrap(a.lane)
        mod = importlib.import_module(f"pbt.props.{a.prop.lower()}")
        subs = {s.name: s for s in mod.SUBS}
        known = load_known(a.prop)
        classes = getattr(mod, "KNOWN_CLASSES", {})
        active = {e["id"]: classes[e["id"]] for e in known if e["status"] == "known" and e["id"] in classes}
        ctx = Ctx(a.prop, a.tier, a.lane, a.seed, a.shard, a.nshards, active)

        if a.replay:
            with open(a.replay) as f:
                rp = json.load(f)
            sub = subs[rp["sub"]]
            ctx.res = SubResult(name=sub.name, lane=a.lane)
            ctx.replaying = True
            v = engine.run_case(ctx, sub, rp["case"])
            out["replays"].append({"file": a.replay, "violation": v, "kind": "adhoc"})
        else:
            if a.run_replays:
                _run_committed_replays(ctx, a, subs, known, out)
            plan = json.loads(a.plan)
            for name, n in plan.items():
                ctx.replaying = False
                res = engine.run_sub(ctx, subs[name], int(n))
                out["subs"].append(res.to_json())
    except Exception as e:  # noqa
        import traceback

        out["fatal"] = "".join(traceback.format_exception(type(e), e, e.__traceback__))[-6000:]
    out["wall_s"] = time.time() - t0
    with open(a.out, "w") as f:
        json.dump(out, f, default=engine._json_default)


def _run_committed_replays(ctx, a, subs, known, out):
    """Seconds-long regression tier: committed minimal cases + the inputs of known/fixed findings."""
    items = []
    rdir = os.path.join(engine.VERIF_DIR, "replays", a.prop)
    if os.path.isdir(rdir):
        for fn in sorted(os.listdir(rdir)):
            if fn.endswith(".json"):
                with open(os.path.join(rdir, fn)) as f:
                    rp = json.load(f)
                items.append((os.path.join("replays", a.prop, fn), rp, None))
    for e in known:
        if "input" in e and e["input"]:
            items.append((f"known_findings.json#{e['id']}", e["input"], e))
    for path, rp, entry in items:
        if rp.get("lane", "f64") != a.lane:
            continue
        sub = subs.get(rp["sub"])
        if sub is None:
            continue
        ctx.res = SubResult(name=sub.name, lane=a.lane)
        ctx.replaying = True
        try:
            v = engine.run_case(ctx, sub, rp["case"])
            err = None
        except engine.HarnessError as he:
            v, err = None, str(he)[-2000:]
        out["replays"].append(
            {
                "file": path,
                "violation": v,
                "error": err,
                "kind": (entry["status"] if entry else "regression"),
                "finding": (entry["id"] if entry else None),
                "what_fails": (entry.get("what_fails") if entry else None),
            }
        )
    ctx.replaying = False


if __name__ == "__main__":
    main()
