"""C06 — the simulation state depends only on the steps executed, not on how the run is split (histories)."""

from __future__ import annotations

import numpy as np
from hypothesis import strategies as st

from pbt import scenes
from pbt.engine import Sub

ID = "C06"
RULE = (
    "Model-based history testing: Hypothesis draws a scene (all boundary kinds incl. PML, 1-2 sources with schedules, "
    "1-2 detectors with arbitrary switches, optional gradient configuration) and a sequence of 2..6 operations on ONE "
    "reused container: advance(n) = custom_fdtd_forward from the current step without reset; reset() = "
    "ArrayContainer.reset; restart(n) = custom_fdtd_forward with reset_container=True to step n (recording or not); rerun_full() = run_fdtd "
    "on whatever arrays the previous operation returned. The model is the single-call run: states after k steps for "
    "every k, produced by stepping the public forward() from a freshly reset container. After EVERY operation E, H, all "
    "PML auxiliary fields and every detector array must equal the model at the current step count; after reset() all "
    "time-dependent state must be exactly zero and every material array bit-identical. Non-trivial = the sequence "
    "contains >= 2 partial runs, or a reset/rerun after a run. Distinct = sha1 of the case JSON."
)
ASSUMPTIONS = ["same arithmetic in every split: tolerance 1e-12 relative (f64), 1e-5 (f32)"]


@st.composite
def case_strategy(draw, ctx):
    spec = draw(scenes.sim_scene_strategy(steps=(8, 26), shape=(6, 9)))
    dispersive = draw(st.booleans())
    if dispersive:
        # a (mildly) dispersive box: the ADE polarisation arrays are time-dependent state too. Frequencies are given
        # relative to the carrier of a 10-cell wavelength so that w0*dt stays far below the stability limit.
        wc = 2 * 3.141592653589793 * 299792458.0 / (10 * spec.get("d", 5e-8))
        lo, hi = draw(scenes.box_strategy(spec["shape"]))
        planes = [(s_["axis"], s_["pos"]) for s_ in spec["sources"] if s_["type"] in ("uniform_plane", "gaussian_plane")]
        if not any(lo[a] <= p + 1 and hi[a] >= p - 1 for a, p in planes):
            spec["objects"].append({"name": "dispbox", "lo": lo, "hi": hi, "order": 3, "material": {
                "eps": 2.0, "poles": [{"type": "lorentz", "w": draw(st.sampled_from([0.5, 1.5])) * wc, "g": 0.1 * wc,
                                       "de": draw(st.sampled_from([0.5, 1.0]))}]}})
        else:
            dispersive = False
    if draw(st.integers(0, 3)) == 0:
        spec["gradient"] = draw(st.sampled_from(
            [{"method": "checkpointed", "n": 3}] if dispersive else
            [{"method": "reversible", "ckpt": 0}, {"method": "reversible", "ckpt": 2}, {"method": "checkpointed", "n": 3}]))
    T = spec["steps"]
    ops, cur = [], 0
    for _ in range(draw(st.integers(2, 6))):
        kind = draw(st.sampled_from(["advance", "advance", "advance", "advance_norec", "reset", "restart", "restart_norec",
                                     "rerun_full"]))
        if kind in ("advance", "advance_norec"):
            if cur >= T:
                kind = draw(st.sampled_from(["reset", "restart", "restart_norec", "rerun_full"]))
            else:
                n = draw(st.integers(1, T - cur))
                # the split point may be handed over as a Python int or as a JAX integer scalar (documented: int | jax.Array)
                ops.append([kind, n] + (["jax"] if draw(st.integers(0, 2)) == 0 else []))
                cur += n
                continue
        if kind == "reset":
            ops.append(["reset"])
            cur = 0
        elif kind in ("restart", "restart_norec"):
            n = draw(st.integers(0, T))
            ops.append([kind, n])
            cur = n
        else:
            ops.append(["rerun_full"])
            cur = T
    return {"scene": spec, "ops": ops}


def _snapshot(arrays):
    d = {"E": np.asarray(arrays.fields.E), "H": np.asarray(arrays.fields.H)}
    for nm, psi in (("psiE", arrays.fields.psi_E), ("psiH", arrays.fields.psi_H)):
        for k in sorted(psi):
            for i, a in enumerate(psi[k]):
                d[f"{nm}/{k}/{i}"] = np.asarray(a)
    for nm in ("dispersive_P_curr", "dispersive_P_prev"):
        v = getattr(arrays.fields, nm, None)
        if v is not None:
            d[nm] = np.asarray(v)
    for n, stt in arrays.detector_states.items():
        for k, v in stt.items():
            d[f"det/{n}/{k}"] = np.asarray(v)
    return d


def _materials(arrays):
    out = {}
    for nm in ("inv_permittivities", "inv_permeabilities", "electric_conductivity", "magnetic_conductivity"):
        v = getattr(arrays, nm)
        out[nm] = None if v is None else np.asarray(v)
    return out


def body(ctx, case):
    import fdtdx
    import jax
    import jax.numpy as jnp
    from fdtdx.fdtd.fdtd import custom_fdtd_forward
    from fdtdx.fdtd.forward import forward

    spec = case["scene"]
    T = spec["steps"]
    b = scenes.build(spec, ctx.lane)
    mats0 = _materials(b.arrays)
    stepf = jax.jit(lambda s: forward(s, b.config, b.objects, b.key, record_detectors=True, record_boundaries=False,
                                      simulate_boundaries=True))
    state = (jnp.asarray(0, dtype=jnp.int32), b.arrays.reset())
    model = [_snapshot(state[1])]
    for _ in range(T):
        state = stepf(state)
        model.append(_snapshot(state[1]))
    scale = max(max(np.abs(m["E"]).max(), np.abs(m["H"]).max()) for m in model) or 1.0
    tol = ctx.tol(1e-12, 1e-5)

    # Detector arrays are additive over recorded steps (each recorded step writes its own row / adds its own phasor
    # term), so the expected detector state after a history is the sum over its *recorded* segments [a, b) of
    # model[b] - model[a]; fields and PML state depend on the step count only.
    det_expected = {n: np.zeros_like(v) for n, v in model[0].items() if n.startswith("det/")}

    def record_segment(a, b_):
        for n in det_expected:
            det_expected[n] = det_expected[n] + (model[b_][n] - model[a][n])

    def zero_detectors():
        for n in det_expected:
            det_expected[n] = np.zeros_like(det_expected[n])

    def compare(arrays, k, what):
        got = _snapshot(arrays)
        ctx.check(set(got) == set(model[k]), f"{what}: state layout changed", sorted(got), sorted(model[k]))
        for name, ref in model[k].items():
            if name.startswith("det/"):
                ref = det_expected[name]
            sc = scale if not name.startswith("det/") else None
            t = tol if not name.startswith("det/") else max(tol, 1e-10 if ctx.f64 else 1e-4)
            if name.startswith("det/") and "field" in name:
                sc = scale
            ctx.close(got[name], ref, scale=sc, tol=t, msg=f"{what}: {name} differs from the single-call run to step {k}",
                      metric="state_err")

    arrays, cur, partial_runs, nt = b.arrays, 0, 0, False
    ran = False
    for i, op in enumerate(case["ops"]):
        what = f"after op {i} {op} (history {case['ops'][:i + 1]})"
        if op[0] in ("advance", "advance_norec"):
            rec = op[0] == "advance"
            as_jax = (lambda v: jnp.asarray(v, dtype=jnp.int32)) if "jax" in op else (lambda v: v)
            t, arrays = custom_fdtd_forward(arrays, b.objects, b.config, b.key, reset_container=False, record_detectors=rec,
                                            start_time=as_jax(cur), end_time=as_jax(cur + op[1]), show_progress=False)
            if rec:
                record_segment(cur, cur + op[1])
            cur += op[1]
            partial_runs += 1
            nt = nt or partial_runs >= 2
            ctx.check(int(t) == cur, f"{what}: returned step {int(t)}", int(t), cur)
            ran = True
        elif op[0] in ("restart", "restart_norec"):
            rec = op[0] == "restart"
            t, arrays = custom_fdtd_forward(arrays, b.objects, b.config, b.key, reset_container=True, record_detectors=rec,
                                            start_time=0, end_time=op[1], show_progress=False)
            zero_detectors()  # resetting a container zeroes all time-dependent state, detector records included
            if rec:
                record_segment(0, op[1])
            nt = nt or ran
            cur = op[1]
            partial_runs += 1
            ctx.check(int(t) == cur, f"{what}: returned step {int(t)}", int(t), cur)
            ran = True
        elif op[0] == "rerun_full":
            t, arrays = fdtdx.run_fdtd(arrays=arrays, objects=b.objects, config=b.config, key=b.key, show_progress=False)
            nt = nt or ran
            cur = T
            zero_detectors()
            record_segment(0, T)
            ctx.check(int(t) == T, f"{what}: returned step {int(t)}", int(t), T)
            ran = True
        else:
            arrays = arrays.reset()
            zero_detectors()
            nt = nt or ran
            cur = 0
            snap = _snapshot(arrays)
            for name, v in snap.items():
                ctx.check(not np.any(v != 0), f"{what}: {name} is not zero after reset",
                          float(np.abs(v).max()) if v.size else 0.0, 0.0)
        compare(arrays, cur, what)
        mats = _materials(arrays)
        for nm, ref in mats0.items():
            same = (mats[nm] is None and ref is None) or (mats[nm] is not None and ref is not None and np.array_equal(mats[nm], ref))
            ctx.check(same, f"{what}: material array {nm} changed")
    ctx.classify(*("op=" + o[0] for o in case["ops"]), f"ops={len(case['ops'])}",
                 "gradient=" + (spec.get("gradient") or {"method": "none"})["method"],
                 *("face=" + k for k in sorted({f["kind"] for f in spec["faces"].values()})))
    ctx.nontrivial(nt)


SUBS = [
    Sub(name="histories", body=body, strategy=lambda ctx: case_strategy(ctx), quick=18, thorough=320,
        lanes=("f64", "f32"), f32_fraction=0.25, quick_shards=2, rule="operation sequences vs single-call model"),
]
