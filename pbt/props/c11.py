"""C11 — forcing complex field storage reproduces the real-valued run.

Differential: the same scene spec is placed and run twice, once with `use_complex_fields` left at its default
(None -> real storage, no Bloch phase anywhere) and once with `use_complex_fields=True`.  Oracle: the complex run
really allocated complex E/H; Re(E,H) equals the real run, |Im(E,H)| stays at round-off, and every detector record
(Field, Phasor, Energy, Poynting) is equal — all relative to the largest magnitude of the quantity compared.
"""

from __future__ import annotations

import copy

import numpy as np
from hypothesis import strategies as st

from pbt import scenes
from pbt.engine import Skip, Sub

ID = "C11"
RULE = (
    "Hypothesis draws a scene without Bloch phase: shape from {12x9x9, 9x13x10, 10x9x12}, uniform or rectilinear grid, every axis "
    "either periodic (BlochBoundary with zero vector) or two faces from {halo, PEC, PMC, PML(2..4 cells)}, "
    "isotropic background (optionally magnetic / conducting), 0..2 material boxes (isotropic/diagonal/full-tensor, "
    "lossy), 1..3 sources — always at least one TFSF source (uniform plane, Gaussian plane or TFSF box region) plus "
    "electric/magnetic dipoles — with cw/pulse/custom profiles and on/off windows, 2..4 detectors over all four "
    "kinds (always one Energy or Poynting), optional dense random real initial fields (then stepped with "
    "custom_fdtd_forward(reset_container=False), otherwise run_fdtd), 10..30 steps. The spec is run with "
    "complex=None and complex=True. Non-trivial = a TFSF source that is switched on at some step, a quadratic "
    "detector with a non-zero record in a region the wave has reached, and non-zero final fields. Distinct = sha1 of the case JSON."
)
ASSUMPTIONS = [
    "'no non-zero Bloch phase' is generated as: periodic axes use BlochBoundary(bloch_vector=0), no 'bloch' faces",
    "'same detector outputs' is read as equality of the raw detector state arrays of the two runs",
    "tolerance 1e-9 (f64, complex128 storage) / 2e-4 (f32, complex64 storage) relative to the largest magnitude of "
    "the compared quantity; the imaginary part is bounded relative to the largest |Re| of the same field",
    "the two runs are not bit-identical (Re differs by ~5e-16 / 2e-7 of max|F|), and such round-off travels with the "
    "wave: Field/Phasor records use scale = max(max|record|, rho*max|F| over the whole domain and all steps), "
    "rho = 1e-3 f64 / 0.1 f32; Energy/Poynting records (products of fields, absolute noise eps*max|F|*(|E|+|H|)) are "
    "compared only when their raw per-cell values reach theta*max|F|*max|F_local|, theta = 1e-3 f64 / 0.1 f32 (unreduced twin "
    "detector for reduced records); reduced Poynting sums are scaled by their cancellation factor from that twin",
    "initial fields, when present, are real and identical in both runs (cast to the storage dtype)",
]

# a small menu of grid shapes: every new shape costs seconds of one-off XLA compiles in place_objects
SHAPES = ((12, 9, 9), (9, 13, 10), (10, 9, 12))
TFSF = ("uniform_plane", "gaussian_plane", "tfsf_region")
QUAD = ("energy", "poynting")


def _window(draw, steps):
    kind = draw(st.sampled_from(["always", "always", "window", "interval"]))
    if kind == "always":
        return {}
    iv = draw(st.integers(2, 3)) if kind == "interval" else 1
    a = draw(st.integers(0, steps - 1))
    a -= a % iv
    s = {"start_step": a}
    if draw(st.booleans()):
        s["end_step"] = draw(st.integers(a, steps))
    if iv > 1:
        s["interval"] = iv
    return s


def _is_aniso(m):
    return any(isinstance(m.get(k), list) for k in ("eps", "mu", "sigE", "sigH"))


def _iso(m):
    return {k: (v[0] if isinstance(v, list) else v) for k, v in m.items()}


def _fit_pml(shape, faces, min_interior):
    """Thin the drawn PMLs (never below 2 cells) until `min_interior` cells remain between them on every axis."""
    for ax in range(3):
        fs = [f for f in (faces[f"min_{'xyz'[ax]}"], faces[f"max_{'xyz'[ax]}"]) if f["kind"] == "pml"]
        while fs and shape[ax] - sum(f["thickness"] for f in fs) < min_interior:
            thick = max(fs, key=lambda f: f["thickness"])
            if thick["thickness"] <= 2:
                fs.remove(thick)
                thick.pop("thickness")
                thick["kind"] = "none"
            else:
                thick["thickness"] -= 1


def _open_interior(shape, faces):
    """Per-axis cell range clear of PML layers and of the one-cell PEC/PMC wall layers (a dipole inside a wall cell is
    clamped by the wall and radiates nothing)."""
    out = []
    for ax, (lo, hi) in enumerate(scenes.interior_range(shape, faces)):
        if faces[f"min_{'xyz'[ax]}"]["kind"] in ("pec", "pmc"):
            lo += 1
        if faces[f"max_{'xyz'[ax]}"]["kind"] in ("pec", "pmc"):
            hi -= 1
        out.append((lo, hi))
    return out


def _aim(d, s, shape):
    """Shift detector box d (size kept) so that it contains a cell lit by source s — otherwise most random boxes sit
    where the wave has not arrived within the run and their quadratic records are below the round-off noise."""
    if s["type"] in ("uniform_plane", "gaussian_plane"):
        p = [n // 2 for n in shape]
        p[s["axis"]] = s["pos"]
    elif s["type"] == "tfsf_region":
        p = [(a + b) // 2 for a, b in zip(s["lo"], s["hi"])]
    else:
        p = list(s["pos"])
    for a in range(3):
        size = d["hi"][a] - d["lo"][a]
        if not d["lo"][a] <= p[a] < d["hi"][a]:
            d["lo"][a] = max(0, min(p[a], shape[a] - size))
            d["hi"][a] = d["lo"][a] + size


def _fix_poynting_axis(d):
    if d["type"] == "poynting" and not d.get("keep_all"):
        thin = [a for a in range(3) if d["hi"][a] - d["lo"][a] == 1]
        if len(thin) != 1:
            d["fixed_axis"] = thin[0]


@st.composite
def _region_source(draw, shape, faces, interior, name):
    """TFSF box: >= 2 cells per confined axis, one cell clear of walls/PML; wraps fully on periodic axes (optional)."""
    ax = draw(st.integers(0, 2))
    lo, hi, wrap = [0, 0, 0], [0, 0, 0], []
    for a in range(3):
        i0, i1 = interior[a]
        periodic = faces[f"min_{'xyz'[a]}"]["kind"] == "periodic"
        if a != ax and periodic and draw(st.booleans()):
            lo[a], hi[a] = 0, shape[a]
            wrap.append(a)
            continue
        l = draw(st.integers(i0 + 1, i1 - 3))
        h = draw(st.integers(l + 2, i1 - 1))
        lo[a], hi[a] = l, h
    wl = draw(st.sampled_from([8.0, 10.0, 12.5, 16.0]))
    return {"type": "tfsf_region", "name": name, "wl_cells": wl, "amp": draw(st.sampled_from([1.0, 0.5, -1.5, 2.0])),
            "profile": draw(scenes.profile_strategy(wl)), "axis": ax, "direction": draw(st.sampled_from(["+", "-"])),
            "pol": scenes.transverse_pol(draw, ax), "lo": lo, "hi": hi, "periodic_axes": wrap}


def _planes_of(s):
    """(axis, lo, hi) index ranges along `axis` whose cells must be locally isotropic for source s."""
    if s["type"] in ("uniform_plane", "gaussian_plane"):
        return [(s["axis"], s["pos"], s["pos"] + 1)]
    if s["type"] == "tfsf_region":
        return [(a, s["lo"][a] - 1, s["lo"][a] + 1) for a in range(3)] + [(a, s["hi"][a] - 1, s["hi"][a] + 1) for a in range(3)]
    return []


@st.composite
def case_strategy(draw, ctx):
    # Hypothesis' first example is the all-minimal one: rotate the menus per (seed, shard, lane) so that the workers
    # of one run do not all spend an example on the same case
    rot = int(getattr(ctx, "seed", 0)) * 7 + int(getattr(ctx, "shard", 0)) * 4 + (2 if getattr(ctx, "lane", "") == "f32" else 0)
    shape = list(SHAPES[(draw(st.integers(0, len(SHAPES) - 1)) + rot) % len(SHAPES)])
    steps = draw(st.integers(10, 30))
    faces = draw(scenes.faces_strategy(kinds=("none", "pec", "pmc", "periodic", "pml", "pml"), pml_thickness=(2, 4)))
    _fit_pml(shape, faces, 5)
    grid = draw(scenes.grid_strategy(shape, faces, kinds=("uniform", "uniform", "rect")))
    interior = scenes.interior_range(shape, faces)

    n_src = draw(st.sampled_from([1, 2, 2, 3]))
    sources = []
    for i in range(n_src):
        kinds = TFSF if i == 0 else TFSF + ("dipole_e", "dipole_m", "dipole_e", "dipole_m")
        k = kinds[(draw(st.integers(0, len(kinds) - 1)) + rot // 3 + i) % len(kinds)]
        if k == "tfsf_region":
            s = draw(_region_source(shape, faces, interior, f"src{i}"))
        else:
            s = draw(scenes.source_strategy(shape, steps, faces, kinds=(k,), name=f"src{i}", switches=False,
                                            interior=_open_interior(shape, faces)))
        s["switch"] = _window(draw, steps)
        sources.append(s)

    iso_zones = [z for s in sources for z in _planes_of(s)]
    objects = []
    for i in range(draw(st.integers(0, 2))):
        lo, hi = draw(scenes.box_strategy(shape, min_size=1))
        m = draw(scenes.material_strategy(tiers=("iso", "diag", "full"), lossy=True, lo=1.0, hi=5.0))
        if _is_aniso(m) and any(lo[a] < zh and zl < hi[a] for a, zl, zh in iso_zones):
            m = _iso(m)
        objects.append({"name": f"box{i}", "lo": lo, "hi": hi, "material": m, "order": i})
    bg = {"eps": draw(st.sampled_from([1.0, 2.25, 4.0]))}
    if draw(st.integers(0, 3)) == 0:
        bg["mu"] = 1.5
    if draw(st.integers(0, 3)) == 0:
        bg["sigE"] = 2e3
    if draw(st.integers(0, 5)) == 0:
        bg["sigH"] = 1e8

    kinds = [draw(st.sampled_from(QUAD))]
    for _ in range(draw(st.integers(1, 3))):
        kinds.append(draw(st.sampled_from(("field", "phasor", "energy", "poynting"))))
    dets = []
    for i, k in enumerate(kinds):
        d = draw(scenes.detector_strategy(shape, steps, name=f"det{i}", kinds=(k,), switches=False))
        d["switch"] = _window(draw, steps)
        if k == "energy" and not d.get("reduce") and draw(st.integers(0, 3)) == 0:
            d["as_slices"] = True
        if draw(st.integers(0, 3)) > 0:
            _aim(d, sources[i % n_src], shape)
        _fix_poynting_axis(d)
        dets.append(d)

    scene = {"shape": shape, "steps": steps, "courant": draw(st.sampled_from([0.99, 0.7])), "grid": grid,
             "faces": faces, "background": bg, "objects": objects, "sources": sources, "detectors": dets}
    return {"scene": scene, "init": {"amp": draw(st.sampled_from([0.0, 0.0, 0.3])), "seed": draw(st.integers(0, 2**31 - 1))}}


TWIN = "__cells"
ALL = "__all"


def _with_aux(spec):
    """Auxiliary detectors (identical in both runs) that only put a scale on round-off:
    `__all` = raw fields of the whole domain at every step (round-off made where the field is large travels with
    the wave, so the noise floor in a quiet corner is eps*max|F| in absolute terms); an unreduced twin of every
    reduced Energy/Poynting detector (raw per-cell values: noise criterion, cancellation factor of a flux sum)."""
    sc = copy.deepcopy(spec)
    sc["detectors"].append({"type": "field", "name": ALL, "exact": False, "switch": {}, "lo": [0, 0, 0],
                            "hi": list(spec["shape"]), "reduce": False,
                            "components": ["Ex", "Ey", "Ez", "Hx", "Hy", "Hz"]})
    for d in spec["detectors"]:
        if d["type"] in ("poynting", "energy") and d.get("reduce"):
            t = copy.deepcopy(d)
            t.update(name=d["name"] + TWIN, reduce=False)
            t.pop("as_slices", None)
            sc["detectors"].append(t)
    return sc


def _run(spec, lane, cplx, init):
    """init: raw real (E0, H0) or None; projected onto the walls with this run's own boundary objects."""
    import fdtdx
    from fdtdx.fdtd.fdtd import custom_fdtd_forward

    sp = copy.deepcopy(spec)
    sp["complex"] = cplx
    b = scenes.build(sp, lane)
    if init is None:
        state = fdtdx.run_fdtd(b.arrays, b.objects, b.config, b.key, show_progress=False)
    else:
        arrays = scenes.project_walls(scenes.set_fields(b.arrays, init[0], init[1]), b.objects)
        state = custom_fdtd_forward(arrays, b.objects, b.config, b.key, reset_container=False,
                                    record_detectors=True, start_time=0, end_time=sp["steps"], show_progress=False)
    arr = state[1]
    recs = {name: {k: np.asarray(v) for k, v in d.items()} for name, d in arr.detector_states.items()}
    return np.asarray(arr.fields.E), np.asarray(arr.fields.H), recs, b


def _amax(x):
    x = np.asarray(x)
    return float(np.abs(x).max()) if x.size else 0.0


def body(ctx, case):
    spec = case["scene"]
    steps = spec["steps"]
    tol = ctx.tol(1e-9, 2e-4)
    dets = {d["name"]: d["type"] for d in spec["detectors"]}
    kinds = sorted({f["kind"] for f in spec["faces"].values()})
    ctx.classify(*("face=" + k for k in kinds), *sorted({"src=" + s["type"] for s in spec["sources"]}),
                 *sorted({"det=" + t for t in dets.values()}), "grid=" + spec["grid"]["kind"],
                 "init" if case["init"]["amp"] else "no-init", "boxes" if spec["objects"] else "no-boxes")

    init = None
    if case["init"]["amp"]:
        shape = tuple(spec["shape"])
        init = (scenes.random_field(case["init"]["seed"], shape, False, (), case["init"]["amp"]),
                scenes.random_field(case["init"]["seed"] + 1, shape, False, (), case["init"]["amp"]))

    by_name = {d["name"]: d for d in spec["detectors"]}
    full = _with_aux(spec)
    Er, Hr, recr, _ = _run(full, ctx.lane, None, init)
    Ec, Hc, recc, _ = _run(full, ctx.lane, True, init)

    ctx.check(not np.iscomplexobj(Er) and not np.iscomplexobj(Hr),
              "default storage is complex although no boundary carries a Bloch phase", observed=str(Er.dtype))
    want = np.complex128 if ctx.f64 else np.complex64
    ctx.check(Ec.dtype == want and Hc.dtype == want, "use_complex_fields=True did not allocate complex E/H",
              observed=[str(Ec.dtype), str(Hc.dtype)], expected=str(np.dtype(want)))

    tfsf_on = any(s["type"] in TFSF and s["amp"] != 0 and scenes.switch_on_steps(s["switch"], steps)
                  for s in spec["sources"])
    rho = ctx.tol(1e-3, 0.1)  # quiet-region floor as a fraction of max|F| over the whole domain and all steps
    allr = recr[ALL]["fields"]
    fmax = max(_amax(allr), _amax(recc[ALL]["fields"]), 1e-300)

    theta = ctx.tol(1e-3, 0.1)  # quadratic records: compared when max|raw record| >= theta * max|F| * max|F_local|

    def below_noise(name, key):
        """A product of fields carries the absolute noise ~4*eps*max|F|*|F_local|; below theta*max|F|*|F_local| its
        relative noise exceeds the stated tolerance (seen: S = 1e-26 from components of 1e-13 in the cell of a dipole of
        0.1, relative difference between the two runs 2e-5).  Raw = per-cell values (unreduced twin if reduced)."""
        d = by_name[name]
        raw = recr[name + TWIN][key] if name + TWIN in recr else recr[name][key]
        region = (slice(None), slice(None), *(slice(max(lo - 1, 0), hi + 1) for lo, hi in zip(d["lo"], d["hi"])))
        return _amax(raw) < theta * fmax * _amax(allr[region])

    quad_live = any(not below_noise(n, k) for n, t in dets.items() if t in QUAD for k in recr[n])
    if max(_amax(Er), _amax(Hr)) == 0.0:
        raise Skip()
    ctx.classify("tfsf-on" if tfsf_on else "tfsf-off", "quad-live" if quad_live else "quad-zero")
    ctx.nontrivial(tfsf_on and quad_live)

    for nm, r, c in (("E", Er, Ec), ("H", Hr, Hc)):
        ctx.check(np.isfinite(r).all() and np.isfinite(c).all(), f"non-finite final {nm}")
        big = max(_amax(r), _amax(c.real), rho * fmax, 1e-300)  # the final state may be much quieter than the history
        ctx.close(c.real, r, scale=big, tol=tol, msg=f"Re({nm}) of the complex run differs from the real run",
                  metric="re_" + nm)
        im = _amax(c.imag) / big
        ctx.metric("im_" + nm, im)
        ctx.check(im <= tol, f"Im({nm}) of the complex run is not zero: max|Im|/max|Re| = {im:.3e} > {tol:.0e}",
                  observed=im, expected=0.0, tolerance=tol)

    ctx.check(set(recr) == set(recc), "detector sets differ", observed=sorted(recc), expected=sorted(recr))
    ctx.close(recc[ALL]["fields"], allr, scale=fmax, tol=tol, msg="field history (Re, all cells, all steps) differs",
              metric="re_history")
    for name, typ in dets.items():
        d = by_name[name]
        ctx.check(set(recr[name]) == set(recc[name]), f"detector {name}: state keys differ")
        for key, vr in recr[name].items():
            vc = recc[name][key]
            ctx.check(vr.dtype == vc.dtype, f"{typ} detector {name}[{key}]: record dtype differs",
                      observed=str(vc.dtype), expected=str(vr.dtype))
            big = max(_amax(vr), _amax(vc))
            if typ in ("field", "phasor"):
                big = max(big, (2.0 if typ == "phasor" else 1.0) * rho * fmax)
            else:
                if below_noise(name, key):
                    ctx.classify("quadratic-below-noise-not-checked")
                    continue
                if typ == "poynting" and d.get("reduce"):
                    tw = recr[name + TWIN][key].astype(np.float64)
                    tw = tw.reshape(tw.shape[0], 3, -1) if d.get("keep_all") else tw.reshape(tw.shape[0], -1)
                    a, b = _amax(np.abs(tw).sum(axis=-1)), _amax(tw.sum(axis=-1))
                    if b == 0.0:
                        ctx.classify("flux-sum-fully-cancelled")
                        continue
                    big *= max(1.0, a / b * (8.0 if spec["grid"]["kind"] == "rect" else 1.0))
            if big == 0.0:
                continue
            ctx.classify("record-compared:" + typ)
            ctx.close(vc, vr, scale=big, tol=tol, msg=f"{typ} detector {name}[{key}] differs between real and complex run",
                      metric="det_" + typ)


SUBS = [
    Sub(name="complex_vs_real", body=body, strategy=lambda ctx: case_strategy(ctx), quick=12, thorough=640,
        lanes=("f64", "f32"), f32_fraction=0.25, quick_shards=2, max_seconds_quick=420.0,
        rule="same spec placed twice (use_complex_fields None / True); fields and detector records compared"),
]
