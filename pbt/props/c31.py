"""C31 — setups survive a JSON round trip.

A placement setup (SimulationConfig, object list, constraint list) restricted to the kinds `JsonSetup.validate`
lists as serialisable is exported with `fdtdx.export_json_str` (or `JsonSetup.dumps`) and re-imported with
`fdtdx.import_from_json` (or `JsonSetup.loads`).  Original and re-imported setup are both placed with the same key.

Oracle (round trip / differential, everything exact):
  * same object names, classes and order, same grid slice per object name;
  * same resolved config (number of steps, dt, dtype);
  * every array of the ArrayContainer (inverse permittivity / permeability, conductivities, dispersion
    coefficients, E, H, PML auxiliaries, detector states) has the same shape, dtype and bits;
  * exporting the re-imported setup gives the same JSON text again (fixed point);
  * after `apply_params` and a short `run_fdtd` of both, fields and detector records are still bit-equal
    (this is what makes a lost source profile / switch / detector option visible in the field arrays).
"""

from __future__ import annotations

import numpy as np
from hypothesis import strategies as st

from pbt import scenes
from pbt.engine import Skip, Sub

ID = "C31"
RULE = (
    "Hypothesis draws a scene from the serialisable kinds only: UniformGrid, QuasiUniformGrid(d,d,d), an explicit "
    "equally spaced RectilinearGrid or an explicit stretched RectilinearGrid (widths 0.6..1.6 d; there only "
    "real-offset constraint styles are used) in the config (optionally a gradient config), even volume shape 8..14, faces "
    "from {open, PerfectlyMatchedLayer(2..3)}, 0..2 UniformMaterialObjects (isotropic / diagonal / full tensor, "
    "lossy, magnetic, optionally a Lorentz+Drude dispersive one), 1..2 plane sources (uniform / Gaussian; CW with "
    "phase or Gaussian pulse profile; OnOffSwitch windows, intervals, fixed step lists), 1..2 detectors (field, "
    "energy, Poynting, phasor; switches, options). Every object's extent is then re-expressed per axis by a drawn "
    "constraint style: GridCoordinateConstraint; SizeConstraint + PositionConstraint with grid margins or with real "
    "margins/offsets, anchored low, high or centred; GridCoordinate on one side + SizeExtensionConstraint to the "
    "volume face / to infinity; partial_grid_shape / partial_real_shape + PositionConstraint. Non-trivial = at least "
    "one source, one detector and three different constraint classes in the setup, and the short run ends with "
    "non-zero fields. Distinct = sha1 of the case JSON."
)
ASSUMPTIONS = [
    "'serializable kinds' = the class names accepted by JsonSetup.validate (SimulationVolume, UniformMaterialObject, "
    "plane sources, the detectors, PerfectlyMatchedLayer, OnOffSwitch, SingleFrequencyProfile, GaussianPulseProfile, "
    "WaveCharacter; Position/Size/SizeExtension/GridCoordinate constraints) plus Material/DispersionModel nodes",
    "equality is bit-equality: the JSON text carries Python float reprs, which round-trip exactly",
    "the short run after placement is part of 'the same field arrays': two setups that place identically but "
    "carry different source/detector attributes are not the same setup",
    "a case whose *original* setup is rejected by place_objects is outside the domain (Skip), never a violation",
]

S_GENERAL = ("ext2", "shape_pos_real")  # stretched grids: index-space margins/offsets are rejected there
S_FULL = ("same_size", "extend_inf", "ext2")
GENERAL = ("grid", "pos_gm", "pos_real", "extend", "center", "shape_pos", "realshape_pos", "pos_hi", "extend_lo")
FIXED = ("grid", "pos_gm", "pos_real", "grid_lo", "grid_hi", "pos_hi")
FULL = ("grid", "same_size", "extend_inf", "pos_real", "extend")


@st.composite
def case_strategy(draw, ctx):
    faces = draw(scenes.faces_strategy(kinds=("none", "pml", "pml"), pml_thickness=(2, 3)))
    shape = [2 * draw(st.integers(4, 7)) for _ in range(3)]
    steps = draw(st.integers(8, 16))
    interior = scenes.interior_range(shape, faces)
    sources = []
    for i in range(draw(st.integers(1, 2))):
        s = draw(scenes.source_strategy(shape, steps, faces, kinds=("uniform_plane", "gaussian_plane"),
                                        name=f"src{i}", interior=interior))
        if s["profile"]["kind"] == "custom":
            s["profile"] = {"kind": "pulse", "width_factor": draw(st.sampled_from([3.0, 5.0]))}
        if i == 0 and s["switch"].get("is_always_off"):
            s["switch"] = {}
        sources.append(s)
    planes = [(s["axis"], s["pos"]) for s in sources]
    dispersive = draw(st.integers(0, 3)) == 0
    objects = []
    for i in range(draw(st.sampled_from([0, 1, 1, 2]))):
        lo, hi = draw(scenes.box_strategy(shape))
        cut = any(lo[a] - 1 <= p <= hi[a] for a, p in planes)
        tiers = ("iso",) if cut else (("iso", "diag") if dispersive else ("iso", "diag", "full"))
        mat = draw(scenes.material_strategy(tiers=tiers, lossy=True))
        if not cut and draw(st.integers(0, 3)) > 0:
            # mixed symmetry classes in ONE material: every property is serialised on its own, so the least symmetric
            # one need not be the permittivity
            mat = draw(st.sampled_from([
                {"eps": 2.25, "sigE": [0.0, 0.0, 5e3]}, {"eps": 3.0, "mu": [1.0, 2.0, 1.5]},
                {"eps": [2.0, 2.0, 3.0], "mu": scenes._rot(0.3, 0.7, 1.1).__matmul__(
                    __import__("numpy").diag([1.5, 2.0, 3.0])).__matmul__(scenes._rot(0.3, 0.7, 1.1).T).round(6).reshape(-1).tolist()},
                {"eps": 1.5, "sigH": [1e8, 0.0, 2e8], "sigE": 1e3}]))
        objects.append({"name": f"box{i}", "lo": lo, "hi": hi, "material": mat, "order": draw(st.integers(0, 2))})
    disp_box = None
    if dispersive:
        lo, hi = draw(scenes.box_strategy(shape))
        for a, p in planes:  # keep the dispersive box off the source planes
            if lo[a] - 1 <= p <= hi[a]:
                if p + 2 < shape[a]:
                    lo[a], hi[a] = p + 2, max(p + 3, min(hi[a], shape[a]))
                else:
                    lo[a], hi[a] = 0, max(1, p - 1)
        disp_box = {"lo": lo, "hi": hi, "eps": draw(st.sampled_from([1.0, 2.2])),
                    "w0dt": draw(st.sampled_from([0.05, 0.2, 0.5])), "gdt": draw(st.sampled_from([0.0, 0.01, 0.1])),
                    "de": draw(st.sampled_from([0.5, 1.5])), "drude": draw(st.booleans()),
                    "order": draw(st.integers(0, 3))}
    detectors = [draw(scenes.detector_strategy(shape, steps, name=f"det{i}")) for i in range(draw(st.integers(1, 2)))]
    for dd in detectors:
        if dd["type"] == "phasor" and not scenes.switch_on_steps(dd["switch"], steps):
            dd["switch"] = {}
    grid = draw(st.sampled_from(["uniform", "uniform", "quasi", "rectc", "stretched"]))
    widths = draw(scenes.grid_strategy(shape, faces, kinds=("rect",)))["widths"] if grid == "stretched" else None
    grad = draw(st.sampled_from([None, None, {"method": "checkpointed", "n": 3}, {"method": "reversible", "ckpt": 0}]))
    if dispersive and grad and grad["method"] == "reversible":
        grad = {"method": "checkpointed", "n": 2}
    spec = {
        "d": draw(st.sampled_from([5e-8, 2.5e-8, 1e-7 / 3, 4.7123456789e-8])),
        "shape": shape, "steps": steps, "courant": draw(st.sampled_from([0.5, 0.8, 0.99])),
        "grid": {"kind": "quasi"} if grid == "quasi" else (
            {"kind": "rect", "widths": widths} if grid == "stretched" else {"kind": "uniform"}),
        "faces": faces, "background": {"eps": draw(st.sampled_from([1.0, 1.5, 2.25]))},
        "objects": objects, "sources": sources, "detectors": detectors, "gradient": grad,
    }
    modes = [[draw(st.integers(0, 8)) for _ in range(3)] for _ in range(12)]
    return {"scene": spec, "explicit_grid": grid == "rectc", "disp_box": disp_box, "modes": modes,
            "reverse_constraints": draw(st.booleans()), "route": draw(st.sampled_from(["str", "setup"]))}


def _setup(case, lane):
    """-> (config, object_list, constraints, intended {name: slices})"""
    import fdtdx
    from fdtdx.objects.object import (GridCoordinateConstraint, PositionConstraint, SizeConstraint,
                                      SizeExtensionConstraint)

    spec = case["scene"]
    shape, d = spec["shape"], spec["d"]
    extra = None
    if case["explicit_grid"]:
        ed = [(-n / 2.0) * d + d * np.arange(n + 1, dtype=np.float64) for n in shape]
        extra = {"grid": fdtdx.RectilinearGrid(x_edges=ed[0], y_edges=ed[1], z_edges=ed[2])}
    cfg = scenes.make_config(spec, lane, extra=extra)
    objs, cons, vol = scenes.build_objects(spec, lane, cfg)
    db = case["disp_box"]
    if db is not None:
        dt = cfg.time_step_duration
        poles = [fdtdx.LorentzPole(resonance_frequency=db["w0dt"] / dt, damping=db["gdt"] / dt, delta_epsilon=db["de"])]
        if db["drude"]:
            poles.append(fdtdx.DrudePole(plasma_frequency=0.3 / dt, damping=0.05 / dt))
        ob = fdtdx.UniformMaterialObject(
            material=fdtdx.Material(permittivity=db["eps"], dispersion=fdtdx.DispersionModel(poles=tuple(poles))),
            name="dispbox", placement_order=db["order"])
        objs.append(ob)
        cons.append(ob.set_grid_coordinates(axes=(0, 1, 2, 0, 1, 2), sides=("-", "-", "-", "+", "+", "+"),
                                            coordinates=(*db["lo"], *db["hi"])))
    V = vol.name
    stretched = spec["grid"]["kind"] == "rect"
    edges = None
    if stretched:
        edges = [np.concatenate([[0.0], np.cumsum(np.asarray(w, dtype=np.float64) * d)]) for w in spec["grid"]["widths"]]
    new_objs, out, intended = [vol], [], {}
    for idx, (o, c) in enumerate(zip(objs[1:], cons)):
        if stretched and not isinstance(c, GridCoordinateConstraint):  # exact edge coordinates -> cell indices
            ii = [int(np.argmin(np.abs(edges[k % 3] - x))) for k, x in enumerate(c.coordinates)]
            lo, hi = ii[:3], ii[3:]
        else:
            lo, hi = list(c.coordinates[:3]), list(c.coordinates[3:])
        intended[o.name] = tuple((lo[a], hi[a]) for a in range(3))
        m = case["modes"][idx % len(case["modes"])]
        name = o.name
        for a in range(3):
            n, size = shape[a], hi[a] - lo[a]
            fixed = o.partial_grid_shape[a] is not None
            full = lo[a] == 0 and hi[a] == n
            if stretched:
                opts = S_FULL if full else S_GENERAL
            else:
                opts = FIXED if fixed else (FULL if full else GENERAL)
            mode = opts[(m[a] + idx + a) % len(opts)]  # offset: Hypothesis' all-zero first example still mixes styles
            if mode == "center" and (lo[a] + hi[a] - n) % 2:
                mode = "pos_gm"

            def size_gm():
                return SizeConstraint(object=name, other_object=V, axes=(a,), other_axes=(a,), proportions=(1.0,),
                                      offsets=(0.0,), grid_offsets=(size - n,))

            def pos(own, other, gm=0, rm=0.0):
                return PositionConstraint(object=name, other_object=V, axes=(a,), object_positions=(float(own),),
                                          other_object_positions=(float(other),), margins=(float(rm),),
                                          grid_margins=(int(gm),))

            if mode == "grid":
                out.append(GridCoordinateConstraint(object=name, axes=(a, a), sides=("-", "+"),
                                                    coordinates=(lo[a], hi[a])))
            elif mode == "grid_lo":
                out.append(GridCoordinateConstraint(object=name, axes=(a,), sides=("-",), coordinates=(lo[a],)))
            elif mode == "grid_hi":
                out.append(GridCoordinateConstraint(object=name, axes=(a,), sides=("+",), coordinates=(hi[a],)))
            elif mode == "pos_gm":
                if not fixed:
                    out.append(size_gm())
                out.append(pos(-1, -1, gm=lo[a]))
            elif mode == "pos_hi":
                if not fixed:
                    out.append(size_gm())
                out.append(pos(1, 1, gm=hi[a] - n))
            elif mode == "pos_real":
                if not fixed:
                    out.append(SizeConstraint(object=name, other_object=V, axes=(a,), other_axes=(a,),
                                              proportions=(1.0,), offsets=((size - n) * d,), grid_offsets=(0,)))
                out.append(pos(-1, -1, rm=lo[a] * d))
            elif mode == "center":
                out.append(size_gm())
                out.append(pos(0, 0, gm=(lo[a] + hi[a] - n) // 2))
            elif mode == "same_size":
                out.append(SizeConstraint(object=name, other_object=V, axes=(a,), other_axes=(a,), proportions=(1.0,),
                                          offsets=(0.0,), grid_offsets=(0,)))
                out.append(pos(0, 0))
            elif mode == "extend":
                out.append(GridCoordinateConstraint(object=name, axes=(a,), sides=("-",), coordinates=(lo[a],)))
                to_inf = hi[a] == n and m[a] % 2 == 0
                out.append(SizeExtensionConstraint(object=name, other_object=None if to_inf else V, axis=a,
                                                   direction="+", other_position=1.0 if not to_inf else -1.0,
                                                   offset=0.0, grid_offset=0 if to_inf else hi[a] - n))
            elif mode == "extend_lo":
                out.append(GridCoordinateConstraint(object=name, axes=(a,), sides=("+",), coordinates=(hi[a],)))
                out.append(SizeExtensionConstraint(object=name, other_object=V, axis=a, direction="-",
                                                   other_position=-1.0, offset=lo[a] * d if m[a] % 2 else 0.0,
                                                   grid_offset=0 if m[a] % 2 else lo[a]))
            elif mode == "extend_inf":
                out.append(SizeExtensionConstraint(object=name, other_object=None, axis=a, direction="-",
                                                   other_position=1.0, offset=0.0, grid_offset=0))
                out.append(SizeExtensionConstraint(object=name, other_object=None, axis=a, direction="+",
                                                   other_position=-1.0, offset=0.0, grid_offset=0))
            elif mode == "ext2":
                out.append(SizeExtensionConstraint(object=name, other_object=V, axis=a, direction="-", other_position=-1.0,
                                                   offset=float(edges[a][lo[a]] - edges[a][0]), grid_offset=0))
                out.append(SizeExtensionConstraint(object=name, other_object=V, axis=a, direction="+", other_position=1.0,
                                                   offset=float(edges[a][hi[a]] - edges[a][n]), grid_offset=0))
            elif mode == "shape_pos_real":
                pg = list(o.partial_grid_shape)
                pg[a] = size
                o = o.aset("partial_grid_shape", tuple(pg))
                out.append(pos(-1, -1, rm=float(edges[a][lo[a]] - edges[a][0])))
            elif mode == "shape_pos":
                pg = list(o.partial_grid_shape)
                pg[a] = size
                o = o.aset("partial_grid_shape", tuple(pg))
                out.append(pos(-1, -1, gm=lo[a]))
            elif mode == "realshape_pos":
                pr = list(o.partial_real_shape)
                pr[a] = size * d
                o = o.aset("partial_real_shape", tuple(pr))
                out.append(pos(1, 1, gm=hi[a] - n))
            else:
                raise ValueError(mode)
        new_objs.append(o)
    if case["reverse_constraints"]:
        out = out[::-1]
    return cfg, new_objs, out, intended


def _leaves(tree):
    import jax

    flat, _ = jax.tree_util.tree_flatten_with_path(tree)
    return [(jax.tree_util.keystr(p), np.asarray(v)) for p, v in flat]


def _same_arrays(ctx, a, b, what):
    la, lb = _leaves(a), _leaves(b)
    ctx.check([p for p, _ in la] == [p for p, _ in lb], f"{what}: different array container structure",
              observed=[p for p, _ in lb], expected=[p for p, _ in la])
    for (p, x), (_, y) in zip(la, lb):
        ctx.check(x.shape == y.shape and x.dtype == y.dtype, f"{what}: {p} shape/dtype differs",
                  observed=[list(y.shape), str(y.dtype)], expected=[list(x.shape), str(x.dtype)])
        if not np.array_equal(x, y, equal_nan=True):
            dlt = np.abs(x.astype(np.complex128) - y.astype(np.complex128))
            i = np.unravel_index(int(np.nanargmax(dlt)), dlt.shape) if dlt.size else ()
            ctx.check(False, f"{what}: {p} is not bit-equal after the round trip (max |diff| {float(np.nanmax(dlt)):.3e})",
                      observed=repr(y[i]), expected=repr(x[i]), tolerance=0)


def body(ctx, case):
    import fdtdx
    import jax
    from fdtdx.conversion.json import JsonSetup

    lane = ctx.lane
    cfg, objs, cons, intended = _setup(case, lane)
    key = jax.random.PRNGKey(0)

    # ---- export / import ---------------------------------------------------------------------
    if case["route"] == "setup":
        text = JsonSetup(config=cfg, object_list=list(objs), constraints=list(cons)).dumps()
        back = JsonSetup.loads(text)
        cfg2, objs2, cons2 = back.config, back.object_list, back.constraints
        text2 = JsonSetup(config=cfg2, object_list=objs2, constraints=cons2).dumps()
    else:
        text = fdtdx.export_json_str({"config": cfg, "object_list": list(objs), "constraints": list(cons)})
        back = fdtdx.import_from_json(text)
        cfg2, objs2, cons2 = back["config"], back["object_list"], back["constraints"]
        text2 = fdtdx.export_json_str({"config": cfg2, "object_list": objs2, "constraints": cons2})

    # ---- place the original; a rejected original is out of domain --------------------------------
    try:
        o1, a1, p1, c1, _ = fdtdx.place_objects(object_list=objs, config=cfg, constraints=cons, key=key)
    except Exception:
        raise Skip()
    kinds = sorted({type(c).__name__ for c in cons})
    got = {o.name: o.grid_slice_tuple for o in o1.objects}
    ctx.classify("route=" + case["route"], "grid=" + type(cfg.grid).__name__ + ("-stretched" if case["scene"]["grid"]["kind"] == "rect" else ""), "n_constraint_kinds=%d" % len(kinds),
                 *("con=" + k for k in kinds), *("src=" + s["type"] for s in case["scene"]["sources"]),
                 *("profile=" + s["profile"]["kind"] for s in case["scene"]["sources"]),
                 *("det=" + d["type"] for d in case["scene"]["detectors"]),
                 "dispersive" if case["disp_box"] else "non-dispersive",
                 "gradient=" + (case["scene"]["gradient"] or {}).get("method", "none"),
                 "pml" if any(f["kind"] == "pml" for f in case["scene"]["faces"].values()) else "no-pml",
                 "placed-as-intended" if all(got.get(k) == v for k, v in intended.items()) else "placed-differently")

    ctx.check(text2 == text, "exporting the re-imported setup gives a different JSON text",
              observed=_first_diff(text, text2), expected="identical text")
    ctx.check(len(objs2) == len(objs) and len(cons2) == len(cons), "object / constraint count changed",
              observed=[len(objs2), len(cons2)], expected=[len(objs), len(cons)])
    ctx.check([type(c).__name__ for c in cons2] == [type(c).__name__ for c in cons] and list(cons2) == list(cons),
              "constraints differ after the round trip",
              observed=[repr(c) for c, c0 in zip(cons2, cons) if c != c0][:3],
              expected=[repr(c0) for c, c0 in zip(cons2, cons) if c != c0][:3])

    o2, a2, p2, c2, _ = fdtdx.place_objects(object_list=objs2, config=cfg2, constraints=cons2, key=key)
    ctx.check([(o.name, type(o).__name__) for o in o2.objects] == [(o.name, type(o).__name__) for o in o1.objects],
              "placed object names/classes differ", observed=[(o.name, type(o).__name__) for o in o2.objects],
              expected=[(o.name, type(o).__name__) for o in o1.objects])
    got2 = {o.name: o.grid_slice_tuple for o in o2.objects}
    ctx.check(got2 == got, "objects placed on different grid slices after the round trip",
              observed={k: v for k, v in got2.items() if got.get(k) != v},
              expected={k: v for k, v in got.items() if got2.get(k) != v})
    ctx.check(c2.time_steps_total == c1.time_steps_total and c2.time_step_duration == c1.time_step_duration
              and c2.dtype == c1.dtype and c2.courant_number == c1.courant_number,
              "resolved config differs after the round trip",
              observed=[c2.time_steps_total, c2.time_step_duration, str(c2.dtype), c2.courant_number],
              expected=[c1.time_steps_total, c1.time_step_duration, str(c1.dtype), c1.courant_number])
    _same_arrays(ctx, a1, a2, "after place_objects")
    _same_arrays(ctx, p1, p2, "initial parameters")

    # ---- short run of both -------------------------------------------------------------------------
    a1, o1, _ = fdtdx.apply_params(a1, o1, p1, key)
    a2, o2, _ = fdtdx.apply_params(a2, o2, p2, key)
    _, r1 = fdtdx.run_fdtd(arrays=a1, objects=o1, config=c1, key=key, show_progress=False)
    _, r2 = fdtdx.run_fdtd(arrays=a2, objects=o2, config=c2, key=key, show_progress=False)
    E = np.asarray(r1.fields.E)
    if not np.isfinite(E).all():
        raise Skip()
    live = float(np.abs(E).max()) > 0
    ctx.classify("fields-nonzero" if live else "fields-zero")
    _same_arrays(ctx, {"fields": r1.fields, "detector_states": r1.detector_states},
                 {"fields": r2.fields, "detector_states": r2.detector_states},
                 f"after {c1.time_steps_total} steps")
    ctx.nontrivial(live and len(kinds) >= 3 and bool(case["scene"]["sources"]) and bool(case["scene"]["detectors"]))


def _first_diff(a, b):
    n = min(len(a), len(b))
    i = next((k for k in range(n) if a[k] != b[k]), n)
    return {"at": i, "original": a[max(0, i - 80): i + 80], "reexported": b[max(0, i - 80): i + 80]}


SUBS = [
    Sub(name="round_trip", body=body, strategy=lambda ctx: case_strategy(ctx), quick=12, thorough=480,
        lanes=("f64", "f32"), f32_fraction=0.25, quick_shards=2,
        rule="random serialisable setup -> JSON -> setup; both placed and run, everything bit-equal"),
]

KNOWN_CLASSES = {}
