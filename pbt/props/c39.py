"""C39 — material descriptions are normalised and classified consistently.

Three sub-checks, all pure Python on `fdtdx.Material` and the helper functions of fdtdx/materials.py:

  spellings   every spelling of the same tensor (scalar / 3-tuple / flat 9-tuple / nested 3x3, as far as the tensor's
              structure admits them) given to the constructor or to `aset` yields the same 9-component tuple, equal to the
              tensor written out by hand; the isotropy / diagonality / magnetic / conductive predicates equal the ones
              computed from that tensor.
  ordering    for a dict of materials all `compute_allowed_*`, `compute_ordered_*` and
              `compute_allowed_dispersive_coefficients` list the materials in one common order, which is ascending in
              the documented key (permittivity, permeability, electric, magnetic conductivity; first component).
  complex     `from_complex_permittivity` (and the two constructors documented as wrappers of it,
              `from_refractive_index`, `from_loss_tangent`) give a material whose
              eps' + i sigma/(eps0 w0) (mu' + i sigma_m/(mu0 w0)) reproduces the requested complex tensor at the
              reference frequency, for the three ways of giving the reference.
"""

from __future__ import annotations

import math
import warnings

import numpy as np
from hypothesis import strategies as st

from pbt.engine import Sub

ID = "C39"
RULE = (
    "spellings: Hypothesis draws, for each of the four material properties, a structure (isotropic / diagonal / full) "
    "and values from a small pool with repeats (so equal and unequal diagonal entries, zero and non-zero off-diagonal "
    "entries all occur; values differ by >= 1e-3 relative or are identical, never inside math.isclose's 1e-9 band), "
    "and builds every admissible spelling. ordering: 2-6 named materials whose sort keys are drawn from a pool of 3 "
    "values per property (ties in the leading keys are the bulk), a random dict insertion order, random dispersive "
    "members. complex: complex tensors (scalar / 3 / 9 / nested, lossy, gain and lossless entries) with an invertible "
    "real part and a reference given as wavelength, frequency or WaveCharacter(period|wavelength|frequency). "
    "Non-trivial = spellings: >= 2 spellings of a non-isotropic-everywhere material; ordering: the sorted order "
    "differs from the insertion order; complex: a non-zero imaginary part. Distinct = sha1 of the case JSON."
)
ASSUMPTIONS = [
    "3-tuples and nested tuples contain Python floats (the documented types); integer scalars are allowed and compared "
    "numerically",
    "predicates are read literally from their docstrings: isotropic = no off-diagonal component and xx == yy == zz; "
    "diagonally anisotropic = no off-diagonal component; magnetic = permeability differs from the identity; conductive "
    "= any non-zero component",
    "ties in the complete sort key may appear in any order as long as every list uses the same one",
    "physical constants: c = 299792458, mu0 = 4 pi 1e-7, eps0 = 1/(mu0 c^2) (tolerance 1e-9 absorbs the CODATA-2018 "
    "difference of 5.5e-10)",
]

C0 = 299792458.0
MU0 = 4e-7 * math.pi
EPS0 = 1.0 / (MU0 * C0 * C0)
PROPS = ("permittivity", "permeability", "electric_conductivity", "magnetic_conductivity")


# ------------------------------------------------------------------------------------------------
# helpers
# ------------------------------------------------------------------------------------------------
def tensor_of(desc):
    """desc = {"s": "iso"|"diag"|"full", "v": [...]} -> hand-written 9 list (row-major)"""
    v = desc["v"]
    if desc["s"] == "iso":
        return [v[0], 0.0, 0.0, 0.0, v[0], 0.0, 0.0, 0.0, v[0]]
    if desc["s"] == "diag":
        return [v[0], 0.0, 0.0, 0.0, v[1], 0.0, 0.0, 0.0, v[2]]
    return list(v)


def spellings_of(desc):
    """every documented way of writing the tensor: name -> python value"""
    t = tensor_of(desc)
    out = {"flat9": tuple(t), "nested": (tuple(t[0:3]), tuple(t[3:6]), tuple(t[6:9]))}
    offdiag = [t[i] for i in (1, 2, 3, 5, 6, 7)]
    if all(x == 0.0 for x in offdiag):
        out["diag3"] = (t[0], t[4], t[8])
        if t[0] == t[4] == t[8]:
            out["scalar"] = t[0]
    return out


def preds_of(t):
    off = any(t[i] != 0.0 for i in (1, 2, 3, 5, 6, 7))
    return {"iso": (not off) and t[0] == t[4] == t[8], "diag": not off}


def mat_kwargs(case_mat, which="flat9"):
    kw = {}
    for p in PROPS:
        if p in case_mat:
            sp = spellings_of(case_mat[p])
            kw[p] = sp[which] if which in sp else sp["flat9"]
    return kw


def quiet_material(**kw):
    import fdtdx

    with warnings.catch_warnings():
        warnings.simplefilter("ignore")
        return fdtdx.Material(**kw)


# ------------------------------------------------------------------------------------------------
# strategies
# ------------------------------------------------------------------------------------------------
POOL = {
    "permittivity": [1.0, 2.25, 2.2525, 12.25, 4.0],
    "permeability": [1.0, 1.0, 1.5, 2.0, 1.001],
    "electric_conductivity": [0.0, 0.0, 1.0, 350.5, 1e-3],
    "magnetic_conductivity": [0.0, 0.0, 2.0, 1e4, 0.5],
}
OFF = [0.0, 0.0, 0.0, 0.1, -0.25, 1e-12]


@st.composite
def tensor_desc(draw, prop, structure=None):
    s = structure or draw(st.sampled_from(["iso", "diag", "diag", "full", "full"]))
    pool = POOL[prop]
    if s == "iso":
        return {"s": s, "v": [draw(st.sampled_from(pool))]}
    if s == "diag":
        return {"s": s, "v": [draw(st.sampled_from(pool)) for _ in range(3)]}
    v = [0.0] * 9
    for i in (0, 4, 8):
        v[i] = draw(st.sampled_from(pool))
    sym = draw(st.booleans())
    for i, j in ((1, 3), (2, 6), (5, 7)):
        v[i] = draw(st.sampled_from(OFF))
        v[j] = v[i] if sym else draw(st.sampled_from(OFF))
    return {"s": s, "v": v}


@st.composite
def spellings_strategy(draw, ctx):
    mat = {}
    for p in PROPS:
        if p == "permittivity" or draw(st.integers(0, 2)) > 0:
            mat[p] = draw(tensor_desc(p))
    return {"mat": mat, "int_scalar": draw(st.booleans())}


# ------------------------------------------------------------------------------------------------
# sub 1: spellings and predicates
# ------------------------------------------------------------------------------------------------
def body_spellings(ctx, case):
    mat = case["mat"]
    expected = {p: tuple(tensor_of(mat[p])) if p in mat else
                (tuple([1.0, 0, 0, 0, 1.0, 0, 0, 0, 1.0]) if p in ("permittivity", "permeability") else tuple([0.0] * 9))
                for p in PROPS}
    n_spellings = 0
    for p in PROPS:
        if p not in mat:
            continue
        sp = spellings_of(mat[p])
        if case["int_scalar"] and "scalar" in sp and float(sp["scalar"]).is_integer():
            sp["int_scalar"] = int(sp["scalar"])
        n_spellings = max(n_spellings, len(sp))
        base = mat_kwargs(mat)
        for name, value in sp.items():
            kw = dict(base)
            kw[p] = value
            m = quiet_material(**kw)
            got = getattr(m, p)
            ctx.classify("spelling=" + name)
            ctx.check(isinstance(got, tuple) and len(got) == 9, f"{p} given as {name} is not stored as a 9-tuple",
                      observed=repr(got), expected="9-tuple")
            ctx.check(all(float(a) == float(b) for a, b in zip(got, expected[p])),
                      f"{p} given as {name} = {value!r} normalises to {got!r}, hand-written tensor {expected[p]!r}",
                      observed=list(map(float, got)), expected=list(expected[p]))
            # the functional setter goes through the same normaliser
            m0 = quiet_material(**{k: v for k, v in base.items() if k != p})
            m1 = m0.aset(p, value)
            got1 = getattr(m1, p)
            ctx.check(isinstance(got1, tuple) and len(got1) == 9 and all(float(a) == float(b) for a, b in zip(got1, expected[p])),
                      f"aset('{p}', {name} spelling {value!r}) stores {got1!r}, hand-written tensor {expected[p]!r}",
                      observed=repr(got1), expected=list(expected[p]))
    # predicates on the fully specified material
    m = quiet_material(**mat_kwargs(mat))
    pr = {p: preds_of(expected[p]) for p in PROPS}
    table = {
        "is_isotropic_permittivity": pr["permittivity"]["iso"],
        "is_diagonally_anisotropic_permittivity": pr["permittivity"]["diag"],
        "is_isotropic_permeability": pr["permeability"]["iso"],
        "is_diagonally_anisotropic_permeability": pr["permeability"]["diag"],
        "is_isotropic_electric_conductivity": pr["electric_conductivity"]["iso"],
        "is_diagonally_anisotropic_electric_conductivity": pr["electric_conductivity"]["diag"],
        "is_isotropic_magnetic_conductivity": pr["magnetic_conductivity"]["iso"],
        "is_diagonally_anisotropic_magnetic_conductivity": pr["magnetic_conductivity"]["diag"],
        "is_all_isotropic": all(pr[p]["iso"] for p in PROPS),
        "is_all_diagonally_anisotropic": all(pr[p]["diag"] for p in PROPS),
        "is_magnetic": list(expected["permeability"]) != [1.0, 0.0, 0.0, 0.0, 1.0, 0.0, 0.0, 0.0, 1.0],
        "is_electrically_conductive": any(x != 0.0 for x in expected["electric_conductivity"]),
        "is_magnetically_conductive": any(x != 0.0 for x in expected["magnetic_conductivity"]),
        "is_dispersive": False,
    }
    for name, exp in table.items():
        got = getattr(m, name)
        ctx.check(got is exp or got == exp, f"Material.{name} = {got!r} but the tensor says {exp!r}: "
                                            + ", ".join(f"{p}={expected[p]}" for p in PROPS),
                  observed=bool(got), expected=exp)
    ctx.classify("all-iso" if table["is_all_isotropic"] else ("all-diag" if table["is_all_diagonally_anisotropic"] else "full"),
                 "magnetic" if table["is_magnetic"] else "non-magnetic")
    ctx.nontrivial(n_spellings >= 2 and not table["is_all_isotropic"] or n_spellings >= 4)


# ------------------------------------------------------------------------------------------------
# sub 2: one common order
# ------------------------------------------------------------------------------------------------
KEYPOOL = {
    "permittivity": [1.0, 2.25, 12.25],
    "permeability": [1.0, 1.5, 2.0],
    "electric_conductivity": [0.0, 1.0, 350.5],
    "magnetic_conductivity": [0.0, 2.0, 1e4],
}
NAMES = ["air", "si", "sio2", "Au", "x y", "polymer", "m7", "Z"]


@st.composite
def ordering_strategy(draw, ctx):
    n = draw(st.integers(2, 6))
    names = draw(st.permutations(NAMES))[:n]
    mats = []
    for i in range(n):
        first = {p: draw(st.sampled_from(KEYPOOL[p])) for p in PROPS}
        # the sort key is component [0]; a unique tag on yy lets the oracle recognise each material inside every list
        m = {
            "name": names[i],
            "permittivity": {"s": "diag", "v": [first["permittivity"], 20.0 + i, 30.0 + 2 * i]},
            "permeability": {"s": "diag", "v": [first["permeability"], 40.0 + i, 1.0]},
            "electric_conductivity": {"s": "diag", "v": [first["electric_conductivity"], 50.0 + i, 0.0]},
            "magnetic_conductivity": {"s": "diag", "v": [first["magnetic_conductivity"], 60.0 + i, 0.0]},
            "poles": draw(st.integers(0, 2)),
        }
        mats.append(m)
    return {"mats": mats, "dt": draw(st.sampled_from([1e-17, 5e-17]))}


def body_ordering(ctx, case):
    import fdtdx
    from fdtdx import materials as M

    mats = {}
    key = {}
    tag = {}
    for i, m in enumerate(case["mats"]):
        kw = mat_kwargs(m)
        if m["poles"]:
            kw["dispersion"] = fdtdx.DispersionModel(poles=tuple(
                fdtdx.LorentzPole(resonance_frequency=1e15 * (j + 1), damping=1e13, delta_epsilon=0.5 + i) for j in
                range(m["poles"])))
        mats[m["name"]] = quiet_material(**kw)
        key[m["name"]] = tuple(tensor_of(m[p])[0] for p in PROPS)
        tag[m["name"]] = {p: tensor_of(m[p])[4] for p in PROPS}
    insertion = [m["name"] for m in case["mats"]]

    names = M.compute_ordered_names(mats)
    ctx.check(sorted(names) == sorted(insertion), "compute_ordered_names is not a permutation of the dict keys",
              observed=names, expected=sorted(insertion))
    ks = [key[n] for n in names]
    ctx.check(all(ks[i] <= ks[i + 1] for i in range(len(ks) - 1)),
              "compute_ordered_names is not ascending in (permittivity, permeability, electric, magnetic conductivity)[0]",
              observed=[[n, list(key[n])] for n in names], expected="ascending keys")

    def names_from(lst, prop, what):
        """recognise the materials of a value list by the unique yy tag"""
        out = []
        for entry in lst:
            e = tuple(entry)
            cands = [n for n in insertion if (len(e) == 1 and e[0] == key[n][PROPS.index(prop)])
                     or (len(e) >= 3 and e[1 if len(e) == 3 else 4] == tag[n][prop])]
            if len(e) == 1:
                out.append(cands)  # isotropic lists carry only the key: compare as sets of candidates
            else:
                ctx.check(len(cands) == 1, f"{what}: entry {e} does not belong to exactly one material", observed=list(e))
                out.append(cands)
        return out

    pairs = M.compute_ordered_material_name_tuples(mats)
    ctx.check([p[0] for p in pairs] == names and all(p[1] is mats[p[0]] for p in pairs),
              "compute_ordered_material_name_tuples disagrees with compute_ordered_names", observed=[p[0] for p in pairs],
              expected=names)
    objs = M.compute_ordered_materials(mats)
    ctx.check(len(objs) == len(names) and all(o is mats[n] for o, n in zip(objs, names)),
              "compute_ordered_materials disagrees with compute_ordered_names",
              observed=[next((k for k, v in mats.items() if v is o), "?") for o in objs], expected=names)
    fns = {
        "permittivity": M.compute_allowed_permittivities,
        "permeability": M.compute_allowed_permeabilities,
        "electric_conductivity": M.compute_allowed_electric_conductivities,
        "magnetic_conductivity": M.compute_allowed_magnetic_conductivities,
    }
    for prop, fn in fns.items():
        for mode, kw in (("full", {}), ("diag", {"diagonally_anisotropic": True}), ("iso", {"isotropic": True})):
            lst = fn(mats, **kw)
            what = f"{fn.__name__}({mode})"
            ctx.check(len(lst) == len(names), f"{what} has {len(lst)} entries for {len(names)} materials")
            exp_len = {"full": 9, "diag": 3, "iso": 1}[mode]
            ctx.check(all(len(e) == exp_len for e in lst), f"{what}: entries do not have {exp_len} components",
                      observed=[list(e) for e in lst])
            cands = names_from(lst, prop, what)
            ok = all(names[i] in cands[i] for i in range(len(names)))
            ctx.check(ok, f"{what} lists the materials in a different order than compute_ordered_names",
                      observed=[c[0] if len(c) == 1 else c for c in cands], expected=names)
            # and the values are the material's own
            for i, n in enumerate(names):
                full = tuple(float(x) for x in getattr(mats[n], prop))
                want = {"full": full, "diag": (full[0], full[4], full[8]), "iso": (full[0],)}[mode]
                ctx.check(tuple(float(x) for x in lst[i]) == want, f"{what}[{i}] is not the {prop} of material '{n}'",
                          observed=list(lst[i]), expected=list(want))
    # dispersive coefficient rows follow the same order
    P = M.compute_max_dispersive_poles(mats)
    ctx.check(P == max(m["poles"] for m in case["mats"]), "compute_max_dispersive_poles", observed=P)
    if P > 0:
        c1, c2, c3, c4 = M.compute_allowed_dispersive_coefficients(mats, case["dt"], P, 1)
        for i, n in enumerate(names):
            npoles = next(m["poles"] for m in case["mats"] if m["name"] == n)
            row_n = int(np.count_nonzero(c3[i, :, 0]))
            ctx.check(row_n == npoles, f"compute_allowed_dispersive_coefficients row {i} has {row_n} poles but material "
                                       f"'{n}' (position {i} of the common order) has {npoles}", observed=row_n, expected=npoles)
            if npoles:
                solo = M.compute_allowed_dispersive_coefficients({n: mats[n]}, case["dt"], P, 1)
                ctx.check(all(np.array_equal(a[i], b[0]) for a, b in zip((c1, c2, c3, c4), solo)),
                          f"dispersive coefficient row {i} is not the one of material '{n}'")
        ctx.classify("with-dispersion")
    ties = len(set(k[0] for k in key.values())) < len(key)
    ctx.classify("ties-in-permittivity" if ties else "distinct-permittivity",
                 "reordered" if names != insertion else "already-sorted")
    ctx.nontrivial(names != insertion)


# ------------------------------------------------------------------------------------------------
# sub 3: complex permittivity round trip
# ------------------------------------------------------------------------------------------------
@st.composite
def cvalue(draw, real_pool, allow_zero_real=False):
    re = draw(st.sampled_from(real_pool))
    im = draw(st.sampled_from([0.0, 0.0, 0.05, 0.5, 3.0, -0.2, 1e-4]))
    return [re, im]


@st.composite
def complex_tensor(draw, pool):
    s = draw(st.sampled_from(["scalar", "diag3", "flat9", "nested"]))
    if s == "scalar":
        return {"s": s, "v": [draw(cvalue(pool))]}
    if s == "diag3":
        return {"s": s, "v": [draw(cvalue(pool)) for _ in range(3)]}
    v = [[0.0, 0.0] for _ in range(9)]
    for i in (0, 4, 8):
        v[i] = draw(cvalue(pool))
    herm = draw(st.booleans())
    for i, j in ((1, 3), (2, 6), (5, 7)):
        a = [draw(st.sampled_from([0.0, 0.0, 0.1, -0.2])), draw(st.sampled_from([0.0, 0.0, 0.3, -0.05]))]
        v[i] = a
        v[j] = [a[0], -a[1]] if herm else [draw(st.sampled_from([0.0, 0.1])), draw(st.sampled_from([0.0, 0.3]))]
    return {"s": s, "v": v}


@st.composite
def complex_strategy(draw, ctx):
    ctor = draw(st.sampled_from(["complex", "complex", "complex", "index", "tangent"]))
    ref_kind = draw(st.sampled_from(["wavelength", "frequency", "wc_period", "wc_wavelength", "wc_frequency"]))
    f0 = draw(st.sampled_from([1.934e14, 3e14, 5e9, 7.7e14, 1.0e12]))
    case = {"ctor": ctor, "ref": ref_kind, "f0": f0}
    if ctor == "complex":
        case["eps"] = draw(complex_tensor([1.0, 2.25, 12.25, 4.0, -3.5]))
        if draw(st.booleans()):
            case["mu"] = draw(complex_tensor([1.0, 1.5, 2.0]))
    elif ctor == "index":
        if draw(st.booleans()):
            case["n"] = [[draw(st.sampled_from([1.0, 1.45, 3.48, 0.2])), draw(st.sampled_from([0.0, 0.01, 0.5, 3.0]))]]
        else:
            case["n"] = [[draw(st.sampled_from([1.0, 1.45, 3.48, 0.2])), draw(st.sampled_from([0.0, 0.01, 0.5, 3.0]))]
                         for _ in range(3)]
    else:
        k = draw(st.sampled_from([1, 3, 9]))
        if k == 9:
            eps = [0.0] * 9
            for i in (0, 4, 8):
                eps[i] = draw(st.sampled_from([2.25, 4.0, 12.25]))
            eps[1] = eps[3] = draw(st.sampled_from([0.0, 0.2]))
        else:
            eps = [draw(st.sampled_from([2.25, 4.0, 12.25])) for _ in range(k)]
        case["eps_real"] = eps
        case["tan"] = [draw(st.sampled_from([0.0, 1e-3, 0.02, 0.5])) for _ in range(draw(st.sampled_from([1, k])))]
    return case


def _reference_kwargs(case):
    import fdtdx

    f0 = case["f0"]
    k = case["ref"]
    if k == "wavelength":
        return {"wavelength": C0 / f0}
    if k == "frequency":
        return {"frequency": f0}
    if k == "wc_period":
        return {"reference": fdtdx.WaveCharacter(period=1.0 / f0)}
    if k == "wc_wavelength":
        return {"reference": fdtdx.WaveCharacter(wavelength=C0 / f0)}
    return {"reference": fdtdx.WaveCharacter(frequency=f0)}


def _py_tensor(desc):
    """complex tensor description -> (python value in its spelling, hand-written 9 complex list)"""
    v = [complex(a, b) for a, b in desc["v"]]
    s = desc["s"]
    if s == "scalar":
        return v[0], [v[0], 0, 0, 0, v[0], 0, 0, 0, v[0]]
    if s == "diag3":
        return tuple(v), [v[0], 0, 0, 0, v[1], 0, 0, 0, v[2]]
    if s == "flat9":
        return tuple(v), v
    return (tuple(v[0:3]), tuple(v[3:6]), tuple(v[6:9])), v


def _invertible(t9):
    m = np.array([complex(x).real for x in t9], dtype=np.float64).reshape(3, 3)
    return abs(np.linalg.det(m)) > 1e-3 * max(1.0, np.abs(m).max() ** 3)


def body_complex(ctx, case):
    import fdtdx
    from pbt.engine import Skip

    w0 = 2.0 * math.pi * case["f0"]
    ref = _reference_kwargs(case)
    ctx.classify("ctor=" + case["ctor"], "ref=" + case["ref"])
    mu_want = [1.0, 0, 0, 0, 1.0, 0, 0, 0, 1.0]
    with warnings.catch_warnings():
        warnings.simplefilter("ignore")
        if case["ctor"] == "complex":
            val, eps_want = _py_tensor(case["eps"])
            ctx.classify("eps=" + case["eps"]["s"])
            kw = {}
            if "mu" in case:
                mval, mu_want = _py_tensor(case["mu"])
                kw["permeability"] = mval
                if not _invertible(mu_want):
                    raise Skip()
            if not _invertible(eps_want):
                raise Skip()  # documented: singular real part raises
            m = fdtdx.Material.from_complex_permittivity(val, **ref, **kw)
        elif case["ctor"] == "index":
            ns = [complex(a, b) for a, b in case["n"]]
            e = [n * n for n in ns]
            eps_want = [e[0], 0, 0, 0, e[0], 0, 0, 0, e[0]] if len(e) == 1 else [e[0], 0, 0, 0, e[1], 0, 0, 0, e[2]]
            if not _invertible(eps_want):
                raise Skip()
            m = fdtdx.Material.from_refractive_index(ns[0] if len(ns) == 1 else tuple(ns), **ref)
        else:
            er, tn = case["eps_real"], case["tan"]
            tn_full = tn * len(er) if len(tn) == 1 else tn
            e = [complex(a, a * t) for a, t in zip(er, tn_full)]
            eps_want = ([e[0], 0, 0, 0, e[0], 0, 0, 0, e[0]] if len(e) == 1 else
                        [e[0], 0, 0, 0, e[1], 0, 0, 0, e[2]] if len(e) == 3 else e)
            if not _invertible(eps_want):
                raise Skip()
            m = fdtdx.Material.from_loss_tangent(er[0] if len(er) == 1 else tuple(er), tn[0] if len(tn) == 1 else tuple(tn),
                                                 **ref)
    eps_got = [complex(a, s / (EPS0 * w0)) for a, s in zip(m.permittivity, m.electric_conductivity)]
    mu_got = [complex(a, s / (MU0 * w0)) for a, s in zip(m.permeability, m.magnetic_conductivity)]
    scale_e = max(abs(complex(x)) for x in eps_want)
    scale_m = max(abs(complex(x)) for x in mu_want)
    ctx.close(np.array(eps_got), np.array([complex(x) for x in eps_want]), scale=scale_e, tol=1e-9,
              msg=f"eps' + i sigma/(eps0 w0) at the reference frequency ({case['ref']}, f0={case['f0']:g}) differs from the "
                  f"requested permittivity", metric="eps_roundtrip")
    ctx.close(np.array(mu_got), np.array([complex(x) for x in mu_want]), scale=scale_m, tol=1e-9,
              msg="mu' + i sigma_m/(mu0 w0) at the reference frequency differs from the requested permeability",
              metric="mu_roundtrip")
    lossy = any(abs(complex(x).imag) > 0 for x in eps_want) or any(abs(complex(x).imag) > 0 for x in mu_want)
    ctx.classify("lossy" if lossy else "lossless")
    ctx.nontrivial(lossy)


SUBS = [
    Sub(name="spellings", body=body_spellings, strategy=lambda ctx: spellings_strategy(ctx), quick=600, thorough=40000,
        lanes=("f64",), rule="every admissible spelling of a tensor -> same 9-tuple; predicates vs the tensor"),
    Sub(name="ordering", body=body_ordering, strategy=lambda ctx: ordering_strategy(ctx), quick=300, thorough=20000,
        lanes=("f64",), rule="all per-property lists of a material dict share one order, ascending in the documented key"),
    Sub(name="complex", body=body_complex, strategy=lambda ctx: complex_strategy(ctx), quick=600, thorough=40000,
        lanes=("f64",), rule="complex permittivity / index / loss tangent constructors reproduce eps at the reference"),
]
KNOWN_CLASSES = {}
