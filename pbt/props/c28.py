"""C28 — static materials are painted by placement order.

Oracle: an independent numpy repaint.  Objects are taken in stable ascending `placement_order` (the volume, order
-1000, first; equal orders in the order of the object list handed to place_objects) and each one writes its
material into the cells it covers (a box: its slice; a sphere / cylinder: its own voxel mask — rasterisation is
C43's subject).  What is written, for an array with n components (n = 1 if every material of the scene is
isotropic in that property, 3 if all are diagonal, else 9):

    inverse permittivity / permeability   n=1: 1/xx     n=3: 1/(xx,yy,zz)     n=9: inverse of the 3x3 tensor, row major
    electric / magnetic conductivity      the n components of sigma times the reference spacing c0*dt/courant_number
                                          (= the cell size on a uniform grid,
                                           = sqrt(3)/sqrt(1/dx_min^2 + 1/dy_min^2 + 1/dz_min^2) on a stretched grid)

A scene without magnetic material must store the scalar 1.0 as inverse permeability; a conductivity array may be
absent (None) only when no material of the scene has that conductivity.
"""

from __future__ import annotations

import math

import numpy as np
from hypothesis import strategies as st

from pbt import scenes
from pbt.engine import Sub

ID = "C28"
RULE = (
    "Hypothesis draws a volume (one of three shapes of 6..11 cells per axis, uniform or rectilinear grid with widths "
    "{0.6..1.6}*d, courant factor 0.5/0.99), a background material and 2..5 static objects: large boxes, spheres / "
    "ellipsoids and cylinders (multi-material objects with a one- or two-entry material dictionary), each with a "
    "placement_order from {-2,0,0,1,1,3} (ties are the norm) and a material whose permittivity, permeability, "
    "electric and magnetic conductivity are independently absent/isotropic/diagonal/full 3x3 (bounded by a per-scene "
    "tier so that 1-, 3- and 9-component arrays all occur). Non-trivial = some cell is covered by at least two "
    "non-volume objects (so the order decides the result); distinct = sha1 of the case."
)
ASSUMPTIONS = [
    "'covering' a cell means: inside the slice of a box, inside the object's own voxel mask for spheres/cylinders",
    "'any material' of the scene includes unused entries of a multi-material object's dictionary",
    "the grid scaling of conductivities is the reference spacing c0*dt/courant_number documented in _init_arrays",
    "float64 lane tolerance 1e-9, float32 lane 2e-4, relative to the largest entry of the array",
]

D = 5e-8
VOLUME_SHAPES = [(8, 8, 8), (10, 7, 9), (6, 11, 8)]
ORDERS = [-2, 0, 0, 1, 1, 3]
TIERS = ["iso", "diag", "full"]


def _edges(grid, shape):
    if grid["kind"] == "rect":
        return [np.concatenate([[0.0], np.cumsum(np.asarray(w, dtype=np.float64))]) for w in grid["widths"]]
    return [np.arange(n + 1, dtype=np.float64) for n in shape]


def _cells_needed(E, L):
    return max(1, int(np.searchsorted(E, L - 1e-9, side="left")))


_val = st.sampled_from([1.5, 2.0, 2.25, 3.0, 4.0, 5.5, 12.0])


@st.composite
def _prop(draw, tier, scale=1.0):
    """A material property of exactly the given tier (iso scalar / 3-list with distinct entries / full SPD 9-list)."""
    if tier == "iso":
        return draw(_val) * scale
    if tier == "diag":
        v = draw(st.lists(_val, min_size=3, max_size=3).filter(lambda x: len(set(x)) > 1))
        return [x * scale for x in v]
    lam = draw(st.lists(_val, min_size=3, max_size=3).filter(lambda x: len(set(x)) > 1))
    ang = [draw(st.sampled_from([0.3, 0.7, 1.1, 2.0])) for _ in range(3)]
    R = scenes._rot(*ang)
    T = R @ np.diag(lam) @ R.T
    T = (T + T.T) / 2
    return [round(float(x), 6) * scale for x in T.reshape(-1)]


@st.composite
def _material(draw, caps):
    """caps: {'eps': tier, 'mu': tier|None, 'sigE': tier|None, 'sigH': tier|None} = widest tier allowed."""
    m = {}
    for key, scale in (("eps", 1.0), ("mu", 1.0), ("sigE", 1e3), ("sigH", 1e3)):
        cap = caps[key]
        if cap is None:
            continue
        if key != "eps" and draw(st.integers(0, 2)) == 0:
            continue  # this material is non-magnetic / non-conductive
        tier = draw(st.sampled_from(TIERS[: TIERS.index(cap) + 1]))
        m[key] = draw(_prop(tier, scale))
    return m


@st.composite
def case_strategy(draw, ctx):
    quick = ctx.tier == "quick"  # quick tier: few distinct array/slice shapes (XLA compiles each op once per shape)
    shape = list(draw(st.sampled_from(VOLUME_SHAPES[:1] if quick else VOLUME_SHAPES)))
    grid = draw(scenes.grid_strategy(shape, None, kinds=("uniform", "uniform", "rect")))
    E = _edges(grid, shape)
    total = [float(E[a][-1]) for a in range(3)]
    caps = {"eps": draw(st.sampled_from(TIERS)),
            "mu": draw(st.sampled_from([None, None, "iso", "diag", "full"])),
            "sigE": draw(st.sampled_from([None, None, "iso", "diag", "full"])),
            "sigH": draw(st.sampled_from([None, None, None, "iso", "diag", "full"]))}
    objs = []
    pool = [4, 7] if quick else [2, 3, 4, 5, 6, 7, 8]
    for i in range(draw(st.integers(2, 5))):
        kind = draw(st.sampled_from(["box", "box", "sphere", "cylinder"]))
        o = {"kind": kind, "name": f"obj{i}", "order": draw(st.sampled_from(ORDERS)),
             "material": draw(_material(caps))}
        if kind == "box":
            lo, hi = [], []
            for a in range(3):
                n = shape[a]
                if quick:
                    s0, s1 = draw(st.sampled_from([0, 3])), draw(st.sampled_from([5, n]))
                else:
                    s0 = draw(st.integers(0, n // 2))
                    s1 = draw(st.integers(max(s0 + 1, n // 2), n))
                lo.append(s0)
                hi.append(s1)
            o["lo"], o["hi"] = lo, hi
        else:
            if draw(st.booleans()):
                o["other_material"] = draw(_material(caps))
            ext = [None, None, None]

            def radius(cap):
                k, j = draw(st.sampled_from(pool)), draw(st.sampled_from([-0.4, -0.15, 0.1, 0.35]))
                return round(min(k + j, cap) / 2, 5)

            if kind == "sphere":
                if quick or draw(st.booleans()):
                    o["r"] = [radius(min(total))] * 3
                else:
                    o["r"] = [radius(total[a]) for a in range(3)]
                ext = [2 * r for r in o["r"]]
            else:
                ax = draw(st.integers(0, 2))
                o["axis"] = ax
                o["len"] = draw(st.sampled_from([4, shape[ax]] if quick else [2, 4, shape[ax]]))
                t = [a for a in range(3) if a != ax]
                o["r"] = radius(min(total[t[0]], total[t[1]]))
                ext[t[0]] = ext[t[1]] = 2 * o["r"]
            lo = []
            for a in range(3):
                k = o["len"] if ext[a] is None else _cells_needed(E[a], ext[a])
                hi_lo = max(0, shape[a] - k)
                lo.append(draw(st.sampled_from([0, hi_lo])) if quick else draw(st.integers(0, hi_lo)))
            o["lo"] = lo
        objs.append(o)
    return {"shape": shape, "grid": grid, "courant": draw(st.sampled_from([0.5, 0.99])),
            "background": draw(_material(caps)), "objects": objs}


# ----------------------------------------------------------------------------------------------
# oracle
# ----------------------------------------------------------------------------------------------
def nine(v, default):
    if v is None:
        v = default
    if isinstance(v, (int, float)):
        return np.array([v, 0, 0, 0, v, 0, 0, 0, v], dtype=np.float64)
    v = [float(x) for x in v]
    if len(v) == 3:
        return np.array([v[0], 0, 0, 0, v[1], 0, 0, 0, v[2]], dtype=np.float64)
    return np.array(v, dtype=np.float64)


def tier_of(t9):
    off = t9[[1, 2, 3, 5, 6, 7]]
    if np.any(off != 0.0):
        return 9
    return 1 if (t9[0] == t9[4] == t9[8]) else 3


def components(t9, n):
    return t9[[0]] if n == 1 else (t9[[0, 4, 8]] if n == 3 else t9)


def inverse_components(t9, n):
    if n == 9:
        return np.linalg.inv(t9.reshape(3, 3)).reshape(-1)
    return 1.0 / components(t9, n)


KEYS = (("eps", 1.0), ("mu", 1.0), ("sigE", 0.0), ("sigH", 0.0))


def body(ctx, case):
    import fdtdx
    import jax
    import jax.numpy as jnp

    shape = tuple(case["shape"])
    grid = case["grid"]
    Ecell = _edges(grid, shape)
    E = [e * D for e in Ecell]
    rect = grid["kind"] == "rect"
    g = fdtdx.RectilinearGrid(x_edges=E[0], y_edges=E[1], z_edges=E[2]) if rect else fdtdx.UniformGrid(spacing=D)
    cfg = fdtdx.SimulationConfig(grid=g, time=2e-15, backend="cpu", courant_factor=case["courant"],
                                 dtype=jnp.float64 if ctx.f64 else jnp.float32)
    vol = fdtdx.SimulationVolume(partial_grid_shape=shape, name="volume", material=scenes._mat(case["background"]))
    objs, cons = [vol], []
    all_materials = [case["background"]]
    for o in case["objects"]:
        all_materials.append(o["material"])
        lo = o["lo"]
        axes, sides, idx = [0, 1, 2], ["-", "-", "-"], list(lo)
        if o["kind"] == "box":
            ob = fdtdx.UniformMaterialObject(material=scenes._mat(o["material"]), name=o["name"],
                                             placement_order=o["order"])
            axes += [0, 1, 2]
            sides += ["+", "+", "+"]
            idx += list(o["hi"])
        else:
            mats = {"m_sel": scenes._mat(o["material"])}
            if "other_material" in o:
                mats["m_other"] = scenes._mat(o["other_material"])
                all_materials.append(o["other_material"])
            if o["kind"] == "sphere":
                r = o["r"]
                ob = fdtdx.Sphere(name=o["name"], materials=mats, material_name="m_sel", placement_order=o["order"],
                                  radius=r[0] * D, radius_x=r[0] * D, radius_y=r[1] * D, radius_z=r[2] * D)
            else:
                ob = fdtdx.Cylinder(name=o["name"], materials=mats, material_name="m_sel",
                                    placement_order=o["order"], radius=o["r"] * D, axis=o["axis"])
                axes.append(o["axis"])
                sides.append("+")
                idx.append(lo[o["axis"]] + o["len"])
        objs.append(ob)
        if rect:
            cons.append(fdtdx.RealCoordinateConstraint(object=ob.name, axes=tuple(axes), sides=tuple(sides),
                                                       coordinates=tuple(float(E[a][i]) for a, i in zip(axes, idx))))
        else:
            cons.append(ob.set_grid_coordinates(axes=tuple(axes), sides=tuple(sides), coordinates=tuple(idx)))

    objects, arrays, _p, _c, _ = fdtdx.place_objects(objs, cfg, cons, jax.random.PRNGKey(0))

    # -- what the scene needs -------------------------------------------------------------------
    ncomp, present = {}, {}
    for key, default in KEYS:
        t9s = [nine(m.get(key), default) for m in all_materials]
        ncomp[key] = max(tier_of(t) for t in t9s)
        ident = nine(None, default)
        present[key] = any(np.any(t != ident) for t in t9s)
    if rect:
        dmin = [float(np.min(np.diff(E[a]))) for a in range(3)]
        ref_spacing = math.sqrt(3.0) / math.sqrt(sum(1.0 / x ** 2 for x in dmin))
    else:
        ref_spacing = D

    # -- repaint ----------------------------------------------------------------------------------
    by_name = {o.name: o for o in objects.objects}
    painters = [(-1000, None, case["background"], None)]
    cover = np.zeros(shape, dtype=np.int32)
    for o in case["objects"]:
        po = by_name[o["name"]]
        sl = tuple(slice(a, b) for a, b in po.grid_slice_tuple)
        m = np.zeros(shape, dtype=bool)
        if o["kind"] == "box":
            ctx.check([list(p) for p in po.grid_slice_tuple] == [[a, b] for a, b in zip(o["lo"], o["hi"])],
                      f"{o['name']}: box not placed where it was put", observed=po.grid_slice_tuple,
                      expected=[o["lo"], o["hi"]])
            m[sl] = True
        else:
            m[sl] = np.broadcast_to(np.asarray(po.get_voxel_mask_for_shape()), m[sl].shape)
        cover += m
        painters.append((o["order"], m, o["material"], o["name"]))
    painters.sort(key=lambda p: p[0])  # python's sort is stable: ties keep list order

    expect = {}
    for key, default in KEYS:
        n = ncomp[key]
        arr = np.zeros((n, *shape))
        for _order, m, mat, _name in painters:
            t9 = nine(mat.get(key), default)
            val = inverse_components(t9, n) if key in ("eps", "mu") else components(t9, n) * ref_spacing
            if m is None:
                arr[:] = val[:, None, None, None]
            else:
                arr[:, m] = val[:, None]
        expect[key] = arr

    # -- bookkeeping ------------------------------------------------------------------------------
    overlap = bool((cover >= 2).any())
    tie = False
    if overlap:
        for i, (oi, mi, _m, _n) in enumerate(painters):
            for oj, mj, _m2, _n2 in painters[i + 1:]:
                if mi is not None and mj is not None and oi == oj and (mi & mj).any():
                    tie = True
    ctx.classify("grid=" + grid["kind"], f"eps_comp={ncomp['eps']}",
                 f"mu_comp={ncomp['mu']}" if present["mu"] else "non-magnetic",
                 f"sigE_comp={ncomp['sigE']}" if present["sigE"] else "no-sigE",
                 f"sigH_comp={ncomp['sigH']}" if present["sigH"] else "no-sigH",
                 "overlap" if overlap else "no-overlap", "tie-in-overlap" if tie else "no-tie",
                 "cell>=3objects" if (cover >= 3).any() else "cell<3objects",
                 *sorted({"kind=" + o["kind"] for o in case["objects"]}))
    ctx.nontrivial(overlap)

    # -- compare ----------------------------------------------------------------------------------
    tol = ctx.tol(1e-9, 2e-4)
    got = {"eps": arrays.inv_permittivities, "mu": arrays.inv_permeabilities,
           "sigE": arrays.electric_conductivity, "sigH": arrays.magnetic_conductivity}
    label = {"eps": "inverse permittivity", "mu": "inverse permeability", "sigE": "electric conductivity",
             "sigH": "magnetic conductivity"}
    # permittivity: always an array
    a = np.asarray(got["eps"])
    ctx.check(a.shape == (ncomp["eps"], *shape), "inverse permittivity has the wrong component count / shape",
              observed=list(a.shape), expected=[ncomp["eps"], *shape])
    ctx.close(a, expect["eps"], tol=tol, msg="inverse permittivity is not the painter's-rule result",
              metric="inv_eps_err")
    # permeability
    if not present["mu"]:
        mu = got["mu"]
        ctx.check(np.ndim(mu) == 0 and float(mu) == 1.0, "non-magnetic scene does not store the scalar 1.0",
                  observed=repr(mu)[:80], expected=1.0)
    else:
        a = np.asarray(got["mu"])
        ctx.check(a.shape == (ncomp["mu"], *shape), "inverse permeability has the wrong component count / shape",
                  observed=list(a.shape), expected=[ncomp["mu"], *shape])
        ctx.close(a, expect["mu"], tol=tol, msg="inverse permeability is not the painter's-rule result",
                  metric="inv_mu_err")
    for key in ("sigE", "sigH"):
        if got[key] is None:
            ctx.check(not present[key], f"{label[key]} array is missing although a material is conductive",
                      observed=None, expected=[ncomp[key], *shape])
            continue
        a = np.asarray(got[key])
        if present[key]:
            ctx.check(a.shape == (ncomp[key], *shape), f"{label[key]} has the wrong component count / shape",
                      observed=list(a.shape), expected=[ncomp[key], *shape])
            ctx.close(a, expect[key], tol=tol, msg=f"{label[key]} is not the grid-scaled painter's-rule result",
                      metric=key + "_err")
        else:
            ctx.check(not np.any(a), f"{label[key]} is non-zero in a non-conductive scene")

SUBS = [
    Sub(name="paint", body=body, strategy=lambda ctx: case_strategy(ctx), quick=36, thorough=2000,
        lanes=("f64", "f32"), f32_fraction=0.25, quick_shards=2,
        rule="random overlapping static objects; arrays after place_objects vs. stable-sorted numpy repaint"),
]
