"""Helpers shared by the long-simulation properties (C12, C13, C36).

`collect` turns a Hypothesis strategy into a deterministic list of distinct cases.  The long-run properties can only
afford one or two cases per worker process; driving them through `@given` directly would hand every shard
Hypothesis' first example — the same minimal one — so the engine's enumeration path (`Sub(cases=...)`, sharded
`i % nshards`) is fed with a sample that is still drawn by Hypothesis alone (seeded with the run seed, no other
source of randomness), thinned evenly from a larger pool (Hypothesis' first
examples are deliberately simple), with the degenerate all-minimal first example moved to the end of the pool.
"""

from __future__ import annotations

import hashlib
import os


def scaled(n, ctx):
    """Thorough-tier case count under the driver's development aid VERIF_SCALE (never below one case per shard)."""
    if ctx.tier != "thorough":
        return n
    return max(ctx.nshards, int(n * float(os.environ.get("VERIF_SCALE", "1") or 1)))


def collect(strategy, n, seed, salt="", pool=None):
    import hypothesis
    from hypothesis import HealthCheck, Phase, given, settings

    from pbt.engine import canon

    key = int(hashlib.sha1(f"{seed}/{salt}".encode()).hexdigest()[:8], 16)
    out, seen = [], set()
    # Hypothesis' first examples are deliberately simple; draw a larger pool and thin it evenly
    pool = max(5 * n, 40) if pool is None else max(pool, n)

    @hypothesis.seed(key)
    @settings(max_examples=2 * pool + 10, database=None, deadline=None, derandomize=False, phases=[Phase.generate],
              suppress_health_check=list(HealthCheck), print_blob=False)
    @given(strategy)
    def _collect(case):
        c = canon(case)
        if c not in seen and len(out) < pool + 1:
            seen.add(c)
            out.append(case)

    _collect()
    if len(out) > 1:
        out = out[1:] + out[:1]  # Hypothesis' first example is the minimal one: keep it, but last
    if len(out) <= n:
        return out
    return [out[(i * len(out)) // n] for i in range(n)]
