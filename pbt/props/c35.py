"""C35 — dispersion coefficients encode the declared pole model.

Declared models (class docstrings in fdtdx/dispersion.py, exp(-i w t) convention):
    Lorentz   chi = d_eps w0^2 / (w0^2 - w^2 - i g w)
    Drude     chi = - wp^2 / (w^2 + i g w)
    CCPR      chi = r / (-i w - q) + conj(r) / (-i w - conj(q))
    critical point (CCPRPole.from_critical_point)
              chi = A W [ e^{i phi} / (W - w - i G) + e^{-i phi} / (W + w + i G) ]
    oriented pole: chi(w) u u^T with u the normalised orientation.

Sub `inverse`: coefficients from compute_pole_coefficients / _per_axis / _tensor / materials.compute_allowed_dispersive_
coefficients (with zero padded slots) are fed to susceptibility_from_coefficients and compared with the formulas above.
Sub `recurrence`: the recurrence  p^{n+1} = c1 p^n + c2 p^{n-1} + c3 E^n + c4 E^{n+1}  driven at e^{-i th n} has the
response H = (c3 + c4 e^{-i th}) / (e^{-i th} - c1 - c2 e^{i th}); it is compared with the declared chi with an explicit
bound, the error must shrink ~4x when dt is halved (Lorentz / Drude), and the roots of z^2 - c1 z - c2 must lie in the
closed unit disc.
"""

from __future__ import annotations

import cmath
import math

import numpy as np
from hypothesis import strategies as st

from pbt.engine import Skip, Sub

ID = "C35"
RULE = (
    "Hypothesis draws dt (1e-18..1e-13 s or 1.0), 1-3 poles with dimensionless parameters omega_0*dt in (0,2) (incl. "
    "values next to 0 and next to 2), damping*dt in {0} u [1e-3, 4], strengths of either sign where allowed; "
    "pole kinds Lorentz / Drude / CCPR (complex pole and residue) / critical point; parameters scalar or per-axis "
    "3-tuples (with zeroed axes), or an orientation vector; 1-3 frequencies omega*dt in [1e-3, 3]; for the inverse "
    "sub a route (scalar, per-axis, tensor, or a dict of 2-4 materials with different pole counts, non-dispersive "
    "members and 0-2 extra padded slots, laid out over random cells). Non-trivial = every compared entry has a "
    "conditioning-aware tolerance <= 1e-2 and at least one pole couples (chi != 0). Distinct = sha1 of the case JSON."
)
ASSUMPTIONS = [
    "'equals the declared pole model at every frequency' is asserted to 1e-9 (f64) / 2e-4 (f32) relative to the "
    "magnitude of the pole terms, widened by 32*eps*(size of the denominator terms)/|denominator| near undamped "
    "resonances where the inversion 2 - c1*D is ill-conditioned",
    "recurrence bound (Lorentz/Drude): with Dm = (w0 dt)^2 - th^2 - i g dt th and b = th^2 (1/6 + th^2/(12|Dm|)), "
    "|H/chi - 1| <= b/(1-b) whenever b <= 1/3 (DESIGN: 1.5 b); CCPR adds th/2 for the forward-differenced dE/dt term",
    "error halving: for th <= 0.3 and b <= 0.03 the relative error at dt/2 is 1/4 of the one at dt within [1/4.6, 1/3.5]",
    "roots: |z| <= 1 + 1e-12 computed with the cancellation-free quadratic formula",
    "exact resonance of an undamped pole (denominator == 0) is outside the domain (chi is infinite)",
]

AX = range(3)


# ------------------------------------------------------------------------------------------------
# declared models (independent oracle)
# ------------------------------------------------------------------------------------------------
def _ax(v):
    """scalar | [x,y,z] -> list of 3"""
    return list(v) if isinstance(v, (list, tuple)) else [v, v, v]


def _c(v):
    return complex(v["re"], v["im"]) if isinstance(v, dict) else complex(v)


def pole_axis_params(p, dt):
    """-> per axis list of dicts with physical (w0sq, g, a, b) and a closure chi(w) -> (value, scale)."""
    out = []
    k = p["kind"]
    for ax in AX:
        if k == "lorentz":
            w0 = _ax(p["w0dt"])[ax] / dt
            g = _ax(p["gdt"])[ax] / dt
            de = _ax(p["de"])[ax]

            def chi(w, w0=w0, g=g, de=de):
                v = de * w0**2 / (w0**2 - w**2 - 1j * g * w)
                return v, abs(v)

            out.append({"w0sq": w0**2, "g": g, "a": de * w0**2, "b": 0.0, "chi": chi})
        elif k == "drude":
            wp = _ax(p["wpdt"])[ax] / dt
            g = _ax(p["gdt"])[ax] / dt

            def chi(w, wp=wp, g=g):
                v = -(wp**2) / (w**2 + 1j * g * w)
                return v, abs(v)

            out.append({"w0sq": 0.0, "g": g, "a": wp**2, "b": 0.0, "chi": chi})
        elif k == "ccpr":
            q = _c(_axc(p["qdt"])[ax]) / dt
            r = _c(_axc(p["rdt"])[ax]) / dt

            def chi(w, q=q, r=r):
                t1 = r / (-1j * w - q)
                t2 = r.conjugate() / (-1j * w - q.conjugate())
                return t1 + t2, abs(t1) + abs(t2)

            out.append({"w0sq": abs(q) ** 2, "g": -2.0 * q.real, "a": -2.0 * (r * q.conjugate()).real,
                        "b": 2.0 * r.real, "chi": chi})
        elif k == "cp":
            A, phi = p["A"], p["phi"]
            W, G = p["Wdt"] / dt, p["Gdt"] / dt

            def chi(w, A=A, phi=phi, W=W, G=G):
                t1 = A * W * cmath.exp(1j * phi) / (W - w - 1j * G)
                t2 = A * W * cmath.exp(-1j * phi) / (W + w + 1j * G)
                return t1 + t2, abs(t1) + abs(t2)

            # (w0sq, g, a, b) of the equivalent 2nd-order form, by hand: common denominator of the two fractions
            # (W - w - iG)(W + w + iG) = W^2 - (w + iG)^2 = W^2 + G^2 - w^2 - 2 i G w
            # numerator A W [e^{i phi}(W + w + iG) + e^{-i phi}(W - w - iG)] = A W [2 W cos(phi) + 2 i (w + iG) sin(phi)]
            #   = 2 A W (W cos(phi) - G sin(phi)) - i w (-2 A W sin(phi))
            out.append({"w0sq": W**2 + G**2, "g": 2.0 * G, "a": 2.0 * A * W * (W * math.cos(phi) - G * math.sin(phi)),
                        "b": -2.0 * A * W * math.sin(phi), "chi": chi})
        else:
            raise ValueError(k)
    return out


def _axc(v):
    """complex scalar {"re","im"} | list of 3 such -> list of 3"""
    return list(v) if isinstance(v, list) else [v, v, v]


def unit(o):
    a = np.asarray(o, dtype=np.float64)
    return a / math.sqrt(float(a @ a))


def build_pole(p, dt):
    import fdtdx

    def val(v, cplx=False):
        if cplx:
            xs = [_c(x) / dt for x in _axc(v)]
            return xs[0] if not isinstance(v, list) else tuple(xs)
        if isinstance(v, list):
            return tuple(float(x) / dt for x in v)
        return float(v) / dt

    orient = tuple(float(x) for x in p["orient"]) if p.get("orient") else None
    k = p["kind"]
    if k == "lorentz":
        de = tuple(float(x) for x in p["de"]) if isinstance(p["de"], list) else float(p["de"])
        return fdtdx.LorentzPole(resonance_frequency=val(p["w0dt"]), damping=val(p["gdt"]), delta_epsilon=de,
                                 orientation=orient)
    if k == "drude":
        return fdtdx.DrudePole(plasma_frequency=val(p["wpdt"]), damping=val(p["gdt"]), orientation=orient)
    if k == "ccpr":
        return fdtdx.CCPRPole(pole=val(p["qdt"], True), residue=val(p["rdt"], True), orientation=orient)
    if k == "cp":
        return fdtdx.CCPRPole.from_critical_point(amplitude=p["A"], phase=p["phi"], resonance_frequency=p["Wdt"] / dt,
                                                  damping=p["Gdt"] / dt)
    raise ValueError(k)


def is_isotropic(p):
    if p.get("orient"):
        return False
    return not any(isinstance(v, list) for key, v in p.items() if key not in ("orient", "kind"))


def expected_entries(poles, dt, w, eps):
    """-> (chi[9] complex row-major tensor, tol[9] absolute tolerance, worst relative tolerance)."""
    th = w * dt
    total = np.zeros(9, dtype=np.complex128)
    tol = np.zeros(9)
    worst = 0.0
    for p in poles:
        axes = pole_axis_params(p, dt)
        if p.get("orient"):
            u = unit(p["orient"])
            v, scale, rel = _chi_with_tol(axes[0], dt, th, w, eps)
            uu = np.outer(u, u).reshape(-1)
            total += v * uu
            tol += rel * scale * np.abs(uu) + 4 * eps * scale
            worst = max(worst, rel)
        else:
            for ax in AX:
                v, scale, rel = _chi_with_tol(axes[ax], dt, th, w, eps)
                total[4 * ax] += v
                tol[4 * ax] += rel * scale
                if scale > 0:
                    worst = max(worst, rel)
    return total, tol, worst


def _chi_with_tol(ap, dt, th, w, eps):
    try:
        v, scale = ap["chi"](w)
    except ZeroDivisionError:
        raise Skip()  # exactly on an undamped resonance
    w0sq_dt2 = ap["w0sq"] * dt * dt
    gdt = ap["g"] * dt
    adt2 = ap["a"] * dt * dt
    bdt = ap["b"] * dt
    Dm = abs(w0sq_dt2 - th * th - 1j * gdt * th)
    Nm = abs(adt2 - 1j * th * bdt)
    if Dm < 1e-12 * (1 + th * th):
        raise Skip()  # exactly on an undamped resonance
    base = 1e-9 if eps < 1e-10 else 2e-4
    cond = (4.0 + th * th + 2.0 * gdt * th) / Dm
    if Nm > 0:
        cond += (abs(adt2) + 2.0 * abs(bdt) * (1.0 + th)) / Nm
    rel = max(base, 32.0 * eps * (1.0 + cond))
    return v, scale, rel


# ------------------------------------------------------------------------------------------------
# strategies
# ------------------------------------------------------------------------------------------------
class _Dom:
    """Parameter ranges; the float32 lane stays away from the tiny omega_0*dt / theta values whose inversion is
    hopelessly ill-conditioned in single precision (they would only produce vacuous comparisons)."""

    def __init__(self, f64=True):
        lo = 0.02 if f64 else 0.15
        small = [1e-3, 0.01] if f64 else [0.15, 0.2]
        self.w0dt = st.one_of(st.floats(lo, 1.98), st.sampled_from(small + [0.5, 1.0, 1.9, 1.99, 1.9999]))
        self.gdt = st.one_of(st.just(0.0), st.floats(1e-3 if f64 else 0.05, 4.0), st.sampled_from([0.1, 2.0, 4.0]))
        self.strength = st.one_of(st.floats(0.05, 12.0), st.sampled_from([1.0, 2.25, 0.5]))
        self.wpdt = st.floats(0.01 if f64 else 0.1, 3.0)
        self.qmod = st.one_of(st.floats(lo, 1.98), st.sampled_from([small[1], 1.0, 1.99]))
        self.res_im = st.one_of(st.floats(0.01, 3.0), st.floats(-3.0, -0.01))
        self.res_re = st.one_of(st.just(0.0), st.floats(0.01, 2.0), st.floats(-2.0, -0.01))
        self.theta = st.one_of(st.floats(1e-3 if f64 else 0.05, 3.0),
                               st.sampled_from(([2e-3, 0.02] if f64 else [0.05]) + [0.1, 0.4, 1.1, 2.1, 3.0]))


@st.composite
def maybe_axes(draw, s, allow=True, zero_ok=False):
    if allow and draw(st.integers(0, 2)) == 0:
        v = [draw(s) for _ in AX]
        if zero_ok and draw(st.booleans()):
            v[draw(st.integers(0, 2))] = 0.0
        return v
    return draw(s)


@st.composite
def cplx(draw, re, im):
    return {"re": draw(re), "im": draw(im)}


@st.composite
def q_strategy(draw, dom):
    """complex pole q*dt with |q dt| < 2, Re q <= 0"""
    mod = draw(dom.qmod)
    ang = draw(st.one_of(st.floats(0.0, math.pi / 2), st.sampled_from([0.0, math.pi / 2, 0.3])))  # from -imag axis
    # q = -mod*(sin ang) +- i mod*(cos ang)
    sign = draw(st.sampled_from([-1.0, 1.0]))
    return {"re": -mod * math.sin(ang), "im": sign * mod * math.cos(ang)}


@st.composite
def pole_strategy(draw, allow_axes=True, allow_orient=True, kinds=("lorentz", "drude", "ccpr", "cp"), f64=True):
    dom = _Dom(f64)
    w0dt_s, gdt_s, strength_s = dom.w0dt, dom.gdt, dom.strength
    kind = draw(st.sampled_from(kinds))
    orient = None
    if allow_orient and kind != "cp" and draw(st.integers(0, 3)) == 0:
        orient = draw(st.one_of(
            st.lists(st.floats(-1.0, 1.0), min_size=3, max_size=3).filter(lambda v: max(abs(x) for x in v) > 0.05),
            st.sampled_from([[1.0, 0.0, 0.0], [0.0, 3.0, 0.0], [1.0, 1.0, 0.0], [1.0, -2.0, 2.0]])))
    axes_ok = allow_axes and orient is None
    if kind == "lorentz":
        de = draw(maybe_axes(strength_s if orient is not None else st.one_of(strength_s, strength_s.map(lambda x: -x / 4)),
                             axes_ok, zero_ok=True))
        p = {"kind": kind, "w0dt": draw(maybe_axes(w0dt_s, axes_ok)), "gdt": draw(maybe_axes(gdt_s, axes_ok)), "de": de}
    elif kind == "drude":
        p = {"kind": kind, "wpdt": draw(maybe_axes(dom.wpdt, axes_ok, zero_ok=True)),
             "gdt": draw(maybe_axes(gdt_s, axes_ok))}
    elif kind == "ccpr":
        if orient is not None:
            # oriented CCPR: Re r = 0 (no dE/dt coupling) and K = -2 Re(r conj(q)) = -2 Im(r) Im(q) >= 0
            q = draw(q_strategy(dom))
            mag = draw(st.floats(0.01, 3.0))
            r = {"re": 0.0, "im": -mag if q["im"] > 0 else mag}
            p = {"kind": kind, "qdt": q, "rdt": r}
        elif axes_ok and draw(st.integers(0, 2)) == 0:
            p = {"kind": kind, "qdt": [draw(q_strategy(dom)) for _ in AX],
                 "rdt": [draw(cplx(dom.res_re, dom.res_im)) for _ in AX]}
        elif draw(st.integers(0, 5)) == 0:
            # a pole with exactly zero static coupling K = -2 Re(r conj(q)) but a non-zero dE/dt coupling b = 2 Re(r):
            # r = (Im q) - i (Re q) makes the two products of K cancel exactly in floating point
            q = draw(q_strategy(dom))
            p = {"kind": kind, "qdt": q, "rdt": {"re": q["im"], "im": -q["re"]}}
        else:
            p = {"kind": kind, "qdt": draw(q_strategy(dom)), "rdt": draw(cplx(dom.res_re, dom.res_im))}
    else:
        mod = draw(dom.qmod)
        ang = draw(st.floats(0.0, math.pi / 2))
        p = {"kind": kind, "A": draw(st.floats(0.05, 5.0)), "phi": draw(st.floats(-math.pi, math.pi)),
             "Wdt": mod * math.cos(ang), "Gdt": mod * math.sin(ang)}
    if orient is not None:
        p["orient"] = orient
    return p


dt_s = st.sampled_from([1.0, 1e-13, 3.3e-15, 1e-16, 4.7e-17, 1e-18])
N_CELLS = 4


@st.composite
def inverse_strategy(draw, ctx):
    f64 = ctx.f64
    route = draw(st.sampled_from(["scalar", "per_axis", "tensor", "tensor", "materials", "materials"]))
    dt = draw(dt_s)
    thetas = draw(st.lists(_Dom(f64).theta, min_size=1, max_size=3))
    if route == "scalar":
        poles = draw(st.lists(pole_strategy(allow_axes=False, allow_orient=False, f64=f64), min_size=1, max_size=3))
        return {"route": route, "dt": dt, "thetas": thetas, "poles": poles}
    if route == "per_axis":
        poles = draw(st.lists(pole_strategy(allow_orient=False, f64=f64), min_size=1, max_size=3))
        return {"route": route, "dt": dt, "thetas": thetas, "poles": poles}
    if route == "tensor":
        poles = draw(st.lists(pole_strategy(f64=f64), min_size=1, max_size=3))
        return {"route": route, "dt": dt, "thetas": thetas, "poles": poles}
    level = draw(st.sampled_from(["iso", "axes", "oriented"]))
    n_mat = draw(st.integers(2, 4))
    mats = []
    for i in range(n_mat):
        n_p = draw(st.integers(0, 3))
        poles = draw(st.lists(pole_strategy(allow_axes=level != "iso", allow_orient=level == "oriented", f64=f64),
                              min_size=n_p, max_size=n_p))
        mats.append({"name": "m%d" % i, "eps": 1.0 + i * 0.75 + draw(st.sampled_from([0.0, 0.25])), "poles": poles})
    order = draw(st.permutations(list(range(n_mat))))
    return {"route": route, "dt": dt, "thetas": thetas, "materials": [mats[i] for i in order],
            "pad": draw(st.integers(0, 2)), "widen": draw(st.booleans()),
            "cells": draw(st.lists(st.integers(0, n_mat - 1), min_size=N_CELLS, max_size=N_CELLS))}


# ------------------------------------------------------------------------------------------------
# inverse mapping
# ------------------------------------------------------------------------------------------------
def _eps(ctx):
    return 2.0**-52 if ctx.f64 else 2.0**-23


def _classify_poles(ctx, poles):
    for p in poles:
        shape = "oriented" if p.get("orient") else ("isotropic" if is_isotropic(p) else "per-axis")
        ctx.classify("pole=" + p["kind"], "shape=" + shape)


def body_inverse(ctx, case):
    import fdtdx.dispersion as D

    dt = case["dt"]
    eps = _eps(ctx)
    ctx.classify("route=" + case["route"])
    worst_rel = 0.0
    any_coupling = False
    if case["route"] != "materials":
        poles_spec = case["poles"]
        _classify_poles(ctx, poles_spec)
        poles = tuple(build_pole(p, dt) for p in poles_spec)
        if case["route"] == "scalar":
            c1, c2, c3, c4 = D.compute_pole_coefficients(poles, dt)
            sel = [0]
        elif case["route"] == "per_axis":
            c1, c2, c3, c4 = D.compute_pole_coefficients_per_axis(poles, dt)
            sel = [0, 4, 8]
        else:
            c1, c2, c3, c4 = D.compute_pole_coefficients_tensor(poles, dt)
            sel = list(range(9))
        for a in (c1, c2, c3, c4):
            ctx.check(np.isfinite(np.asarray(a)).all(), "non-finite recurrence coefficient", observed=np.asarray(a).tolist())
        all_lorentz_drude = all(p["kind"] in ("lorentz", "drude") for p in poles_spec)
        for th in case["thetas"]:
            w = th / dt
            exp, tol, rel = expected_entries(poles_spec, dt, w, eps)
            worst_rel = max(worst_rel, rel)
            any_coupling = any_coupling or bool(np.abs(exp).max() > 0)
            got = np.asarray(D.susceptibility_from_coefficients(c1, c2, c3, w, dt, c4=c4)).reshape(-1)
            _compare(ctx, got, exp[sel], tol[sel], f"route={case['route']} theta={th:g}")
            if all_lorentz_drude:  # documented: c4=None is the Lorentz/Drude form
                got2 = np.asarray(D.susceptibility_from_coefficients(c1, c2, c3, w, dt)).reshape(-1)
                _compare(ctx, got2, exp[sel], tol[sel], f"route={case['route']} (c4 omitted) theta={th:g}")
    else:
        import fdtdx
        from fdtdx import materials as M

        mats_spec = case["materials"]
        for m in mats_spec:
            _classify_poles(ctx, m["poles"])
        mats = {}
        for m in mats_spec:
            disp = fdtdx.DispersionModel(poles=tuple(build_pole(p, dt) for p in m["poles"])) if m["poles"] else None
            mats[m["name"]] = fdtdx.Material(permittivity=m["eps"], dispersion=disp)
        ordered = sorted(mats_spec, key=lambda m: m["eps"])  # documented order: ascending permittivity
        n_max = max(len(m["poles"]) for m in mats_spec)
        ctx.check(M.compute_max_dispersive_poles(mats) == n_max, "compute_max_dispersive_poles differs from the pole counts",
                  observed=M.compute_max_dispersive_poles(mats), expected=n_max)
        P = n_max + case["pad"]
        all_iso = all(is_isotropic(p) for m in mats_spec for p in m["poles"])
        any_orient = any(p.get("orient") for m in mats_spec for p in m["poles"])
        ncomp = 1 if (all_iso and not case["widen"]) else 3
        ccomp = 9 if (any_orient or (case["widen"] and not all_iso)) else ncomp
        sel = {1: [0], 3: [0, 4, 8], 9: list(range(9))}[ccomp]
        c1, c2, c3, c4 = M.compute_allowed_dispersive_coefficients(mats, dt, P, ncomp, ccomp)
        ctx.check(c1.shape == (len(mats), P, ncomp) and c3.shape == (len(mats), P, ccomp) and c2.shape == c1.shape
                  and c4.shape == c3.shape, "coefficient array shapes", observed=[list(c1.shape), list(c3.shape)],
                  expected=[[len(mats), P, ncomp], [len(mats), P, ccomp]])
        ctx.classify("pad=%d" % case["pad"], "ncomp=%d/%d" % (ncomp, ccomp))
        for mi, m in enumerate(ordered):
            n = len(m["poles"])
            for nm, arr in (("c1", c1), ("c2", c2), ("c3", c3), ("c4", c4)):
                ctx.check(not np.any(arr[mi, n:]), f"padded slot of {nm} is not exactly zero (material {m['name']}, "
                                                   f"{n} poles, {P} slots)", observed=arr[mi, n:].tolist(), expected=0.0)
            if n < P:
                ctx.classify("has-padded-slot")
            if n == 0:
                ctx.classify("non-dispersive-material")
        # lay the materials out over a few cells, as the array container does: (P, comps, cells)
        cells = case["cells"]
        lay = [np.stack([a[ci] for ci in cells], axis=-1) for a in (c1, c2, c3, c4)]
        for th in case["thetas"]:
            w = th / dt
            got = np.asarray(D.susceptibility_from_coefficients(lay[0], lay[1], lay[2], w, dt, c4=lay[3]))
            ctx.check(got.shape == (ccomp, len(cells)), "susceptibility shape", observed=list(got.shape),
                      expected=[ccomp, len(cells)])
            for j, ci in enumerate(cells):
                m = ordered[ci]
                if not m["poles"]:
                    ctx.check(bool(np.all(got[:, j] == 0)), f"cell of non-dispersive material {m['name']} (all slots zero) "
                                                             f"has chi != 0", observed=_cl(got[:, j]), expected=0.0)
                    continue
                exp, tol, rel = expected_entries(m["poles"], dt, w, eps)
                worst_rel = max(worst_rel, rel)
                any_coupling = any_coupling or bool(np.abs(exp).max() > 0)
                _compare(ctx, got[:, j], exp[sel], tol[sel], f"material {m['name']} ({len(m['poles'])} poles in {P} slots) "
                                                             f"theta={th:g}")
    ctx.metric("worst_rel_tol", worst_rel)
    ctx.classify("well-conditioned" if worst_rel <= 1e-2 else "ill-conditioned")
    ctx.nontrivial(any_coupling and worst_rel <= 1e-2)


def _cl(a):
    return [{"re": float(np.real(x)), "im": float(np.imag(x))} for x in np.asarray(a).reshape(-1)]


def _compare(ctx, got, exp, tol, what):
    got = np.asarray(got, dtype=np.complex128).reshape(-1)
    ctx.check(got.shape == exp.shape, f"{what}: shape {got.shape} vs {exp.shape}")
    err = np.abs(got - exp)
    bad = ~(err <= tol + 1e-300)
    # an entry whose conditioning-aware tolerance is as large as the value itself carries no information (e.g. a
    # critical-point pole with damping 1e-10 probed exactly at its resonance in float32: the inversion divides by a
    # denominator below the rounding error and may legitimately overflow) - not asserted
    bad &= ~(tol >= 0.5 * np.abs(exp))
    if bad.any():
        i = int(np.argmax(np.where(bad, err / (tol + 1e-300), 0)))
        ctx.check(False, f"{what}: susceptibility_from_coefficients entry {i} = {got[i]:.12g}, declared model "
                         f"{exp[i]:.12g} (|diff| {err[i]:.3e} > tol {tol[i]:.3e})",
                  observed=_cl(got[i])[0], expected=_cl(exp[i])[0], tolerance=float(tol[i]))
    with np.errstate(divide="ignore", invalid="ignore"):
        r = np.where(np.abs(exp) > 1e-30, err / np.abs(exp), 0.0)
    ctx.metric("max_rel_err", float(r.max()) if r.size else 0.0)


# ------------------------------------------------------------------------------------------------
# recurrence response and roots
# ------------------------------------------------------------------------------------------------
@st.composite
def recurrence_strategy(draw, ctx):
    return {"dt": draw(dt_s), "pole": draw(pole_strategy()),
            "thetas": draw(st.lists(st.one_of(_Dom().theta, st.floats(1e-3, 0.3)), min_size=1, max_size=3))}


def response(c1, c2, c3, c4, th):
    e = cmath.exp(-1j * th)
    return (c3 + c4 * e) / (e - c1 - c2 / e)


def root_moduli(c1, c2):
    """moduli of the roots of z^2 - c1 z - c2 without cancellation"""
    disc = c1 * c1 + 4.0 * c2
    if disc < 0:
        m = math.sqrt(-c2)
        return m, m
    s = math.sqrt(disc)
    z1 = (c1 + (s if c1 >= 0 else -s)) / 2.0
    if z1 == 0.0:
        return 0.0, 0.0
    z2 = -c2 / z1
    return abs(z1), abs(z2)


def body_recurrence(ctx, case):
    import fdtdx.dispersion as D

    dt = case["dt"]
    p = case["pole"]
    _classify_poles(ctx, [p])
    axes = pole_axis_params(p, dt)
    pole = build_pole(p, dt)
    c = D.compute_pole_coefficients_tensor((pole,), dt)
    c_half = D.compute_pole_coefficients_tensor((pole,), dt / 2.0)
    if not p.get("orient"):
        cp = D.compute_pole_coefficients_per_axis((pole,), dt)
        for nm, a, b in zip(("c1", "c2", "c3", "c4"), cp, c):
            bb = b[:, [0, 4, 8]] if b.shape[1] == 9 else b
            ctx.check(np.array_equal(a, bb), f"per-axis and tensor variants disagree on {nm}", observed=a.tolist(),
                      expected=bb.tolist())
    u = unit(p["orient"]) if p.get("orient") else None
    lorentz_like = p["kind"] in ("lorentz", "drude")
    nontrivial = False
    # roots ------------------------------------------------------------------------------------
    for ax in AX:
        m1, m2 = root_moduli(float(c[0][0, ax]), float(c[1][0, ax]))
        ctx.metric("max_root_modulus_minus_1", max(m1, m2) - 1.0)
        ctx.check(max(m1, m2) <= 1.0 + 1e-12, f"recurrence root outside the unit circle on axis {ax}: |z| = {max(m1, m2)!r} "
                                              f"(c1={float(c[0][0, ax])!r}, c2={float(c[1][0, ax])!r})",
                  observed=max(m1, m2), expected="<= 1", tolerance=1e-12)
    # response ---------------------------------------------------------------------------------
    for th in case["thetas"]:
        w = th / dt
        for ax in AX:
            ap = axes[0] if u is not None else axes[ax]
            try:
                chi, scale = ap["chi"](w)
            except ZeroDivisionError:
                continue  # exactly on an undamped resonance
            if u is not None:
                # entry (ax, ax) of chi u u^T; skip directions the pole does not touch
                f = float(u[ax] * u[ax])
                if f < 1e-6:
                    continue
            else:
                f = 1.0
            if scale == 0.0:
                h = response(float(c[0][0, ax]), float(c[1][0, ax]), float(c[2][0, 4 * ax]), float(c[3][0, 4 * ax]), th)
                ctx.check(h == 0, f"axis {ax} has zero coupling but a non-zero recurrence response", observed=_cl(h)[0])
                continue
            w0sq_dt2 = ap["w0sq"] * dt * dt
            gdt = ap["g"] * dt
            Dm = abs(w0sq_dt2 - th * th - 1j * gdt * th)
            if Dm < 1e-9 * (1 + th * th):
                continue
            b = th * th * (1.0 / 6.0 + th * th / (12.0 * Dm))
            cancel = scale / abs(chi) if abs(chi) > 0 else float("inf")  # CCPR two-term cancellation
            if not (b <= 1.0 / 3.0) or cancel > 1e3:
                ctx.classify("bound-not-applicable")
                continue
            h = response(float(c[0][0, ax]), float(c[1][0, ax]), float(c[2][0, 4 * ax]), float(c[3][0, 4 * ax]), th) / f
            rel = abs(h - chi) / abs(chi)
            d = b / (1.0 - b)
            n = 0.0 if lorentz_like else th / 2.0
            if not lorentz_like:
                # relative error of the numerator is |b dt| th^2/2 / |a dt^2 - i th b dt| <= th/2, sharpened:
                adt2, bdt = ap["a"] * dt * dt, ap["b"] * dt
                Nm = abs(adt2 - 1j * th * bdt)
                n = (abs(bdt) * th * th / 2.0) / Nm if Nm > 0 else float("inf")
                if not n <= 0.5:
                    ctx.classify("bound-not-applicable")
                    continue
            bound = n + d + n * d + 64 * 2.0**-52 * (4.0 + th * th) / (Dm * (1.0 - b)) * cancel + 1e-13 * cancel
            ctx.metric("response_err_over_bound", rel / bound)
            ctx.check(rel <= bound, f"recurrence response differs from the declared {p['kind']} model on axis {ax} at "
                                    f"theta={th:g}: relative error {rel:.3e} > bound {bound:.3e}",
                      observed=_cl(h)[0], expected=_cl(chi)[0], tolerance=bound)
            nontrivial = True
            ctx.classify("response-checked")
            # second order: halve dt at fixed physical parameters -----------------------------
            if lorentz_like and th <= 0.3 and b <= 0.03:
                th2 = th / 2.0
                h2 = response(float(c_half[0][0, ax]), float(c_half[1][0, ax]), float(c_half[2][0, 4 * ax]),
                              float(c_half[3][0, 4 * ax]), th2) / f
                rel2 = abs(h2 - chi) / abs(chi)
                noise = 64 * 2.0**-52 * 4.0 / (Dm / 4.0)
                if rel2 > 100 * noise and rel > 100 * noise:
                    ratio = rel / rel2
                    ctx.metric("halving_ratio_dev", abs(ratio - 4.0))
                    ctx.classify("halving-checked")
                    ctx.check(3.5 <= ratio <= 4.6, f"error of the recurrence response is not second order in omega*dt on "
                                                   f"axis {ax}: err(dt)/err(dt/2) = {ratio:.4g} at theta={th:g} "
                                                   f"(err {rel:.3e} -> {rel2:.3e})", observed=ratio, expected=4.0,
                              tolerance="[3.5, 4.6]")
    ctx.nontrivial(nontrivial)


SUBS = [
    Sub(name="inverse", body=body_inverse, strategy=lambda ctx: inverse_strategy(ctx), quick=900, thorough=60000,
        lanes=("f64", "f32"), f32_fraction=0.1,
        rule="coefficients -> susceptibility_from_coefficients equals the declared chi; padded slots contribute 0"),
    Sub(name="recurrence", body=body_recurrence, strategy=lambda ctx: recurrence_strategy(ctx), quick=1500, thorough=60000,
        lanes=("f64",), rule="response of the stored recurrence vs declared chi (explicit bound, 4x under dt/2), roots in disc"),
]
KNOWN_CLASSES = {}
