"""C29 — sources and detectors see the device materials after parameters are applied.

Oracle (differential, DESIGN §3): after `place_objects` + `apply_params`, the private set-up state of every source /
detector (dipole: sampled inverse permittivity; plane source: E/H profile, impedance-scaled H, Yee time offsets;
Gaussian mode-overlap detector: reference mode fields and index) must equal the state the *same* object gets when
its `apply(...)` is called by the check on the post-device arrays.  For the dipole there is in addition a direct,
fdtdx-free expectation: the sampled inverse permittivity is the post-device array restricted to the dipole's cells,
which inside the device equals 1 / (eps_lo + p * (eps_hi - eps_lo)) for device parameter p.

A device only rewrites cells inside its own box, so the equality is required for every object, whatever the
relation of the two boxes; it is *decided* by the re-application logic exactly when the boxes intersect.
"""

from __future__ import annotations

import numpy as np
from hypothesis import strategies as st

from pbt.engine import Sub

ID = "C29"
RULE = (
    "Hypothesis draws a 12^3 (thorough: 11..14 per axis) vacuum volume, one continuous two-material Device box "
    "(eps 2.0 .. 12.25, one design voxel per cell, no parameter transforms; parameters constant or seeded random in "
    "[0,1]) and 1..2 objects under test: an electric/magnetic point dipole (a single cell), a uniform plane "
    "source or a Gaussian mode-overlap detector (one cell thick along a drawn axis, any box across), or a TFSF box "
    "source (no thin axis; overlapping, containing, contained in or merely touching the device). On every axis the object's "
    "interval is constructed in a drawn Allen relation to the device's interval (before, meets, overlaps, starts, "
    "during, finishes, equals, contains, started-by, finished-by, overlapped-by, met-by, after); three templates "
    "bias the draw: strictly inside on all axes, intersecting on all axes, free. Non-trivial = the object's box "
    "intersects the device's box (the device changes the material under the object). Distinct = sha1 of the case."
)
ASSUMPTIONS = [
    "'the state it would get from being set up against the post-device materials' = the result of the object's own "
    "apply() on the arrays returned by apply_params (differential oracle), plus a direct numpy value for the dipole",
    "random placement offsets of the plane source are zero, so apply() does not depend on the key",
    "float64 lane tolerance 1e-9, float32 lane 2e-4 relative to the largest entry",
]

D = 5e-8
EPS_LO, EPS_HI = 2.0, 12.25
INTERSECTING = ("overlaps", "starts", "during", "finishes", "equals", "contains", "started_by", "finished_by",
                "overlapped_by")
DISJOINT = ("before", "meets", "met_by", "after")
ALLEN = INTERSECTING + DISJOINT
THIN = ("before", "meets", "starts", "during", "finishes", "met_by", "after")  # relations a 1-cell interval can have


@st.composite
def allen_interval(draw, n, d0, d1, rel):
    """[a0, a1) within [0, n), at least 2 cells long (so that a plane object keeps exactly one thin axis), in Allen
    relation `rel` to [d0, d1); requires 3 <= d0, d1 <= n-3, d1-d0 >= 5."""
    i = st.integers
    if rel == "before":
        a0 = draw(i(0, d0 - 3)); a1 = draw(i(a0 + 2, d0 - 1))
    elif rel == "meets":
        a0 = draw(i(0, d0 - 2)); a1 = d0
    elif rel == "overlaps":
        a0 = draw(i(0, d0 - 1)); a1 = draw(i(d0 + 1, d1 - 1))
    elif rel == "starts":
        a0 = d0; a1 = draw(i(d0 + 2, d1 - 1))
    elif rel == "during":
        a0 = draw(i(d0 + 1, d1 - 3)); a1 = draw(i(a0 + 2, d1 - 1))
    elif rel == "finishes":
        a0 = draw(i(d0 + 1, d1 - 2)); a1 = d1
    elif rel == "equals":
        a0, a1 = d0, d1
    elif rel == "contains":
        a0 = draw(i(0, d0 - 1)); a1 = draw(i(d1 + 1, n))
    elif rel == "started_by":
        a0 = d0; a1 = draw(i(d1 + 1, n))
    elif rel == "finished_by":
        a0 = draw(i(0, d0 - 1)); a1 = d1
    elif rel == "overlapped_by":
        a0 = draw(i(d0 + 1, d1 - 1)); a1 = draw(i(d1 + 1, n))
    elif rel == "met_by":
        a0 = d1; a1 = draw(i(d1 + 2, n))
    else:  # after
        a0 = draw(i(d1 + 1, n - 2)); a1 = draw(i(a0 + 2, n))
    return [a0, a1]


@st.composite
def thin_interval(draw, n, d0, d1, rel):
    i = st.integers
    a0 = {"before": lambda: draw(i(0, d0 - 2)), "meets": lambda: d0 - 1, "starts": lambda: d0,
          "during": lambda: draw(i(d0 + 1, d1 - 2)), "finishes": lambda: d1 - 1, "met_by": lambda: d1,
          "after": lambda: draw(i(d1 + 1, n - 1))}[rel]()
    return [a0, a0 + 1]


def classify_relation(a, d):
    """Allen relation of [a0,a1) to [d0,d1) — used for the histogram (and as a self-check of the generator)."""
    a0, a1 = a
    d0, d1 = d
    if a1 < d0:
        return "before"
    if a1 == d0:
        return "meets"
    if a0 > d1:
        return "after"
    if a0 == d1:
        return "met_by"
    if a0 == d0 and a1 == d1:
        return "equals"
    if a0 == d0:
        return "starts" if a1 < d1 else "started_by"
    if a1 == d1:
        return "finishes" if a0 > d0 else "finished_by"
    if a0 < d0:
        return "overlaps" if a1 < d1 else "contains"
    return "during" if a1 < d1 else "overlapped_by"


@st.composite
def case_strategy(draw, ctx):
    quick = ctx.tier == "quick"
    shape = [12, 12, 12] if quick else [draw(st.integers(11, 14)) for _ in range(3)]
    dev = []
    for a in range(3):
        n = shape[a]
        if quick:
            d0, d1 = 3, draw(st.sampled_from([8, 9]))
        else:
            d0 = draw(st.integers(3, n - 8))
            d1 = draw(st.integers(d0 + 5, n - 3))
        dev.append([d0, d1])
    dispersive = draw(st.integers(0, 2)) == 0  # a third of the scenes: the "hi" device material carries a Lorentz pole
    pmode = draw(st.sampled_from(["const", "const", "seed"]))
    param = {"mode": "const", "value": draw(st.sampled_from([0.0, 0.25, 0.6, 1.0]))} if pmode == "const" else \
        {"mode": "seed", "seed": draw(st.integers(0, 2 ** 31 - 1))}
    objs = []
    for k in range(draw(st.integers(1, 2))):
        typ = draw(st.sampled_from(["dipole_e", "dipole_e", "dipole_m", "plane", "gauss_det", "tfsf", "tfsf"]))
        template = draw(st.sampled_from(["intersect", "intersect", "free", "intersect", "free", "intersect", "free", "inside"]))
        o = {"type": typ, "name": f"{typ}{k}", "template": template}
        thin_axis = None
        if typ == "tfsf":  # a box source: no thin axis; its faces sample the material one cell beyond the box
            o["axis"] = draw(st.integers(0, 2))
            o["direction"] = draw(st.sampled_from(["+", "-"]))
            o["pol_axis"] = draw(st.sampled_from([a for a in range(3) if a != o["axis"]]))
        elif typ in ("plane", "gauss_det"):
            thin_axis = draw(st.integers(0, 2))
            o["axis"] = thin_axis
            o["direction"] = draw(st.sampled_from(["+", "-"]))
            t = [a for a in range(3) if a != thin_axis]
            o["pol_axis"] = draw(st.sampled_from(t))
        else:
            o["pol"] = draw(st.integers(0, 2))
        rels = []
        for a in range(3):
            thin = a == thin_axis or typ.startswith("dipole")  # a point dipole occupies a single cell
            if template == "inside":
                rels.append("during")
            elif template == "intersect":
                rels.append(draw(st.sampled_from([r for r in INTERSECTING if not thin or r in THIN])))
            elif typ == "tfsf":  # touching boxes read device cells too; far-away boxes are of no interest here
                rels.append(draw(st.sampled_from(INTERSECTING)))
            else:
                rels.append(draw(st.sampled_from(THIN if thin else ALLEN)))
        if typ == "tfsf" and template != "inside" and draw(st.booleans()):
            # half of the box sources only touch the device along one axis (box ends where the device starts or
            # starts where it ends) while intersecting it across
            rels[draw(st.integers(0, 2))] = draw(st.sampled_from(["meets", "met_by"]))
        if template != "inside" and all(r == "during" for r in rels):
            # keep the strictly-inside class (finding F3) to the "inside" template so its share stays controlled
            a = draw(st.integers(0, 2))
            thin = a == thin_axis or typ.startswith("dipole")
            rels[a] = draw(st.sampled_from([r for r in INTERSECTING if r != "during" and (not thin or r in THIN)]))
        iv = []
        for a in range(3):
            n, (d0, d1) = shape[a], dev[a]
            thin = a == thin_axis or typ.startswith("dipole")
            iv.append(draw(thin_interval(n, d0, d1, rels[a]) if thin else allen_interval(n, d0, d1, rels[a])))
        if typ == "tfsf":  # the face nodes one cell outside the box must exist (no relation above is changed by this)
            iv = [[max(a0, 1), min(a1, shape[a] - 1)] for a, (a0, a1) in enumerate(iv)]
        o["iv"] = iv
        objs.append(o)
    case = {"shape": shape, "device": dev, "param": param, "objects": objs}
    if dispersive:
        case["dispersive"] = True
        case["param2"] = {"mode": "const", "value": draw(st.sampled_from([0.0, 0.5, 1.0]))}  # applied after `param`
    return case


STATE_FIELDS = {
    "dipole_e": ("_inv_eps_local", "_inv_mu_local", "_inv_eps_oriented", "_inv_mu_oriented"),
    "dipole_m": ("_inv_eps_local", "_inv_mu_local", "_inv_eps_oriented", "_inv_mu_oriented"),
    "plane": ("_E", "_H", "_time_offset_E", "_time_offset_H"),
    "gauss_det": ("_mode_E", "_mode_H", "_mode_neff"),
    "tfsf": ("_face_incident_E", "_face_incident_H", "_face_time_offset_E", "_face_time_offset_H", "_face_H_filter"),
}


def strictly_inside_all_axes(case):
    """The class of inputs behind finding F3: some object under test lies strictly inside the device on all axes."""
    dev = case["device"]
    return any(all(o["iv"][a][0] > dev[a][0] and o["iv"][a][1] < dev[a][1] for a in range(3))
               for o in case["objects"])


def body(ctx, case):
    import warnings

    import fdtdx
    import jax
    import jax.numpy as jnp
    from fdtdx.core.null import Null

    shape = tuple(case["shape"])
    fdt = jnp.float64 if ctx.f64 else jnp.float32
    cdt = jnp.complex128 if ctx.f64 else jnp.complex64
    cfg = fdtdx.SimulationConfig(grid=fdtdx.UniformGrid(spacing=D), time=20e-15, backend="cpu", dtype=fdt)
    vol = fdtdx.SimulationVolume(partial_grid_shape=shape, name="volume")
    hi_kw = {}
    if case.get("dispersive"):
        w_c = 2 * np.pi * 299792458.0 / (10 * D)  # carrier of the sources below
        hi_kw["dispersion"] = fdtdx.DispersionModel(poles=(fdtdx.LorentzPole(resonance_frequency=2.5 * w_c,
                                                                              damping=0.1 * w_c, delta_epsilon=3.0),))
    dev = fdtdx.Device(name="dev", materials={"lo": fdtdx.Material(permittivity=EPS_LO),
                                              "hi": fdtdx.Material(permittivity=EPS_HI, **hi_kw)},
                       param_transforms=[], partial_voxel_grid_shape=(1, 1, 1))
    objs, cons = [vol, dev], []

    def put(o, iv):
        cons.append(o.set_grid_coordinates(axes=(0, 1, 2, 0, 1, 2), sides=("-", "-", "-", "+", "+", "+"),
                                           coordinates=(iv[0][0], iv[1][0], iv[2][0], iv[0][1], iv[1][1], iv[2][1])))

    put(dev, case["device"])
    wave = fdtdx.WaveCharacter(wavelength=10 * D)
    for o in case["objects"]:
        if o["type"].startswith("dipole"):
            ob = fdtdx.PointDipoleSource(name=o["name"], wave_character=wave, polarization=o["pol"],
                                         source_type="electric" if o["type"] == "dipole_e" else "magnetic")
        else:
            pol = [0.0, 0.0, 0.0]
            pol[o["pol_axis"]] = 1.0
            if o["type"] == "tfsf":
                ob = fdtdx.TFSFPlaneSourceRegion(name=o["name"], wave_character=wave, direction=o["direction"],
                                                 propagation_axis=o["axis"], fixed_E_polarization_vector=tuple(pol))
            elif o["type"] == "plane":
                ob = fdtdx.UniformPlaneSource(name=o["name"], wave_character=wave, direction=o["direction"],
                                              fixed_E_polarization_vector=tuple(pol))
            else:
                ob = fdtdx.GaussianModeOverlapDetector(name=o["name"], wave_characters=(wave,), mode_radius=2.5 * D,
                                                       direction=o["direction"], dtype=cdt,
                                                       fixed_E_polarization_vector=tuple(pol))
        objs.append(ob)
        put(ob, o["iv"])

    key = jax.random.PRNGKey(0)
    with warnings.catch_warnings():
        warnings.simplefilter("ignore")  # the Gaussian detector warns about truncated reference modes
        objects, arrays, params, _config, _ = fdtdx.place_objects(objs, cfg, cons, key)
    dshape = tuple(b - a for a, b in case["device"])
    ctx.check(tuple(params["dev"].shape) == dshape, "device parameter shape is not one voxel per cell",
              observed=list(params["dev"].shape), expected=list(dshape))
    if case["param"]["mode"] == "const":
        p = np.full(dshape, case["param"]["value"])
    else:
        p = np.random.default_rng(case["param"]["seed"]).uniform(0.0, 1.0, dshape)
    params = dict(params)
    params["dev"] = jnp.asarray(p, dtype=fdt)
    arrays2, objects2, _ = fdtdx.apply_params(arrays, objects, params, key)
    if case.get("param2"):  # a second parameter set applied on the previous result (dispersive scenes)
        p = np.full(dshape, case["param2"]["value"])
        params["dev"] = jnp.asarray(p, dtype=fdt)
        arrays2, objects2, _ = fdtdx.apply_params(arrays2, objects2, params, key)
        ctx.classify("dispersive-device")

    # the post-device material itself (continuous blend of the two permittivities inside the device box)
    eps = np.ones(shape)
    dsl = tuple(slice(a, b) for a, b in case["device"])
    eps[dsl] = EPS_LO + p * (EPS_HI - EPS_LO)
    tol = ctx.tol(1e-9, 2e-4)
    post = np.asarray(arrays2.inv_permittivities)
    ctx.close(post[0], 1.0 / eps, tol=tol, msg="post-device inverse permittivity is not the blended device material")

    by_name = {o.name: o for o in objects2.objects}
    rel_of = {}
    for o in case["objects"]:
        rels = [classify_relation(o["iv"][a], case["device"][a]) for a in range(3)]
        rel_of[o["name"]] = rels
        inter = all(r in INTERSECTING for r in rels)
        if o["type"] == "tfsf":  # closed-interval intersection: a box face on the device's first/last layer reads it
            inter = all(r in INTERSECTING + ("meets", "met_by") for r in rels)
            if not all(r in INTERSECTING for r in rels):
                ctx.classify("tfsf-touching-only")
        ctx.classify("type=" + o["type"], "intersects" if inter else "disjoint",
                     *("rel=" + r for r in sorted(set(rels))))
        if all(r == "during" for r in rels):
            ctx.classify("strictly-inside")
        ctx.nontrivial(inter)

    for o in case["objects"]:
        rels = rel_of[o["name"]]
        got = by_name[o["name"]]
        with warnings.catch_warnings():
            warnings.simplefilter("ignore")
            ref = got.apply(key=key, inv_permittivities=arrays2.inv_permittivities,
                            inv_permeabilities=arrays2.inv_permeabilities, dispersive_c1=arrays2.dispersive_c1,
                            dispersive_c2=arrays2.dispersive_c2, dispersive_c3=arrays2.dispersive_c3,
                            dispersive_c4=arrays2.dispersive_c4, electric_conductivity=arrays2.electric_conductivity)
        where = f"{o['name']} box {o['iv']} vs device {case['device']} (relations {rels})"
        if o["type"].startswith("dipole") and not case.get("dispersive"):
            osl = tuple(slice(a, b) for a, b in o["iv"])
            a = got._inv_eps_local
            ctx.check(not isinstance(a, Null) and a is not None, f"{o['name']} was never set up: {where}")
            ctx.close(np.asarray(a)[0], 1.0 / eps[osl], tol=tol, metric="dipole_inv_eps_err",
                      msg=f"dipole's sampled inverse permittivity is not the post-device material: {where}")
        for f in STATE_FIELDS[o["type"]]:
            a, b = getattr(got, f), getattr(ref, f)
            ctx.check(not isinstance(a, Null) and a is not None,
                      f"{o['name']}.{f} was never set up: {where}", observed=repr(a)[:40])
            if isinstance(b, (tuple, list)):  # per-face state of a box source
                ctx.check(isinstance(a, (tuple, list)) and len(a) == len(b),
                          f"{o['name']}.{f}: number of faces differs from a fresh set-up: {where}")
                for fi, (x, y) in enumerate(zip(a, b)):
                    if x is None and y is None:
                        continue
                    ctx.close(np.asarray(x), np.asarray(y), tol=tol, metric="state_err",
                              msg=f"{o['name']}.{f}[face {fi}] differs from a set-up against the post-device "
                                  f"materials: {where}")
                continue
            ctx.close(np.asarray(a), np.asarray(b), tol=tol, metric="state_err",
                      msg=f"{o['name']}.{f} differs from a set-up against the post-device materials: {where}")


SUBS = [
    Sub(name="post_device_state", body=body, strategy=lambda ctx: case_strategy(ctx), quick=28, thorough=2000,
        lanes=("f64", "f32"), f32_fraction=0.25, quick_shards=2,
        rule="device box x source/detector box in drawn Allen relations per axis; state after apply_params vs apply() "
             "on the post-device arrays"),
]

# F3: SimulationObject.check_overlap reports "no overlap" for an object strictly inside the device on all three axes
KNOWN_CLASSES = {"F3": strictly_inside_all_axes}
