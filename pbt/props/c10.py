"""C10 — fields are linear in the sources' amplitude factors and in the initial state.

Metamorphic relation between independent runs of one fixed scene (materials, boundaries, detectors):

    S_i   source i alone, amplitude factor a_i, zero initial fields            (run_fdtd)
    I     no source, initial fields F                                          (only if F != 0)
    J     all sources (a_i) and F
    K     all sources with factors l_i*a_i and initial fields l_0*F

Oracle (plain numpy):  J == sum_i S_i + I  and  K == sum_i l_i*S_i + l_0*I  for the final E/H and for every
Field/Phasor record; when all l are equal to one l ("common" mode) Energy/Poynting records of K == l^2 * those of J.
Every run is a separate placement (`static_amplitude_factor` goes through the constructor).
"""

from __future__ import annotations

import copy

import numpy as np
from hypothesis import strategies as st

from pbt import scenes
from pbt.engine import Skip, Sub

ID = "C10"
RULE = (
    "Hypothesis draws one fixed scene: shape from {12x8x8, 8x13x9, 9x8x12}, uniform or rectilinear grid, every axis either "
    "periodic or two faces from {halo, PEC, PMC, PML(2..4 cells)}, isotropic background, 0..2 material boxes "
    "(isotropic/diagonal/full-tensor eps, optional mu, electric and magnetic conductivity), 2..3 sources from "
    "{uniform plane, Gaussian plane, electric dipole, magnetic dipole (tilted or axis aligned)} with cw/pulse/custom "
    "time profiles, on/off windows and amplitude factors a_i, optional dense random initial E,H (wall-projected), "
    "2..3 detectors (always one Field/Phasor and one Energy/Poynting), 12..32 steps; scale factors l_i per source "
    "and l_0 for the initial state, either all equal (common mode, checks the quadratic records too) or "
    "independent. n+2 (+1 with initial fields) separately placed runs per case. Non-trivial = at least two "
    "sources with non-zero amplitude factor whose on-step sets intersect and whose single runs are non-zero. "
    "Distinct = sha1 of the case JSON."
)
ASSUMPTIONS = [
    "linearity is asserted in `static_amplitude_factor` (as the property says), not in the sources' own "
    "`amplitude` fields; plane sources keep their energy normalisation in every run",
    "the initial state is (E, H) at step 0 with zero PML auxiliary fields; runs with initial fields go through "
    "custom_fdtd_forward(reset_container=False), runs without through run_fdtd",
    "tolerance 1e-9 (f64) / 2e-4 (f32) relative to the largest term of the superposition (per quantity: E, H, "
    "each detector record); quadratic records relative to max(1, l^2) * max|record|; for records that are sums of "
    "signed samples or sit in a quiet region the largest term is not the record itself: round-off made where the "
    "field is large (eps*max|F|) travels with the wave, so the noise floor is absolute (seen: max|F| = 0.2, 1e-10 at "
    "a detector, superposition error 1e-18 there). Linear records therefore use scale = max(max|record|, rho*max|F|) "
    "with max|F| over the whole domain and all steps (auxiliary full-domain field detector) and rho = 1e-3 (f64) / "
    "0.1 (f32); a quadratic record (product of fields, absolute noise eps*max|F|*(|E|+|H|)) is only checked when its "
    "raw per-cell values reach theta*max|F|*max|F_local|, theta = 1e-3 (f64) / 0.1 (f32) (unreduced twin detector for reduced "
    "records), and reduced Poynting sums are scaled by their cancellation factor sum|S_i|/|sum S_i| from that twin",
    "random initial fields are projected onto the boundary walls with the boundaries' own post-update hooks "
    "(a linear projection, applied identically in every run)",
]

# a small menu of grid shapes: every new shape costs seconds of one-off XLA compiles in place_objects
SHAPES = ((12, 8, 8), (8, 13, 9), (9, 8, 12))
KINDS = ("uniform_plane", "gaussian_plane", "dipole_e", "dipole_m")
LIN = ("field", "phasor")
QUAD = ("energy", "poynting")


# ----------------------------------------------------------------------------------------------
# generator
# ----------------------------------------------------------------------------------------------
def _window(draw, steps, must_cover=None):
    """JSON switch with at least one on-step; must_cover: a step that has to be on (or None)."""
    kind = draw(st.sampled_from(["always", "always", "window", "interval"]))
    if kind == "always":
        return {}
    iv = draw(st.integers(2, 3)) if kind == "interval" else 1
    if must_cover is None:
        a = draw(st.integers(0, steps - 1))
    else:
        a = draw(st.integers(0, must_cover))
    a -= a % iv
    lo_b = a if must_cover is None else max(a, must_cover)
    b = draw(st.integers(lo_b, steps))
    s = {"start_step": a}
    if draw(st.booleans()) or must_cover is None:
        s["end_step"] = b
    if iv > 1:
        s["interval"] = iv
    return s


def _is_aniso(m):
    return any(isinstance(m.get(k), list) for k in ("eps", "mu", "sigE", "sigH"))


def _iso(m):
    out = {}
    for k, v in m.items():
        out[k] = v[0] if isinstance(v, list) else v
    return out


def _fit_pml(shape, faces, min_interior):
    """Thin the drawn PMLs (never below 2 cells) until `min_interior` cells remain between them on every axis."""
    for ax in range(3):
        fs = [f for f in (faces[f"min_{'xyz'[ax]}"], faces[f"max_{'xyz'[ax]}"]) if f["kind"] == "pml"]
        while fs and shape[ax] - sum(f["thickness"] for f in fs) < min_interior:
            thick = max(fs, key=lambda f: f["thickness"])
            if thick["thickness"] <= 2:
                fs.remove(thick)
                thick.pop("thickness")
                thick["kind"] = "none"
            else:
                thick["thickness"] -= 1


def _open_interior(shape, faces):
    """Per-axis cell range clear of PML layers and of the one-cell PEC/PMC wall layers (a dipole inside a wall cell is
    clamped by the wall and radiates nothing)."""
    out = []
    for ax, (lo, hi) in enumerate(scenes.interior_range(shape, faces)):
        if faces[f"min_{'xyz'[ax]}"]["kind"] in ("pec", "pmc"):
            lo += 1
        if faces[f"max_{'xyz'[ax]}"]["kind"] in ("pec", "pmc"):
            hi -= 1
        out.append((lo, hi))
    return out


def _rotated(seq, k):
    k %= len(seq)
    return tuple(seq[k:]) + tuple(seq[:k])


def _aim(d, s, shape):
    """Shift detector box d (size kept) so that it contains a cell lit by source s — otherwise most random boxes sit
    where the wave has not arrived within the run and their quadratic records are below the round-off noise."""
    if s["type"] in ("uniform_plane", "gaussian_plane"):
        p = [n // 2 for n in shape]
        p[s["axis"]] = s["pos"]
    elif s["type"] == "tfsf_region":
        p = [(a + b) // 2 for a, b in zip(s["lo"], s["hi"])]
    else:
        p = list(s["pos"])
    for a in range(3):
        size = d["hi"][a] - d["lo"][a]
        if not d["lo"][a] <= p[a] < d["hi"][a]:
            d["lo"][a] = max(0, min(p[a], shape[a] - size))
            d["hi"][a] = d["lo"][a] + size


def _fix_poynting_axis(d):
    """A flux plane with a second size-1 axis has no determinable normal (fdtdx then leaves the detector half
    initialised): name the normal explicitly, which is what a user has to do for such a region."""
    if d["type"] == "poynting" and not d.get("keep_all"):
        thin = [a for a in range(3) if d["hi"][a] - d["lo"][a] == 1]
        if len(thin) != 1:
            d["fixed_axis"] = thin[0]


@st.composite
def case_strategy(draw, ctx):
    # Hypothesis' first example is the all-minimal one: rotate the menus per (seed, shard, lane) so that the workers
    # of one run do not all spend an example on the same case
    rot = int(getattr(ctx, "seed", 0)) * 7 + int(getattr(ctx, "shard", 0)) * 4 + (2 if getattr(ctx, "lane", "") == "f32" else 0)
    shape = list(SHAPES[(draw(st.integers(0, len(SHAPES) - 1)) + rot) % len(SHAPES)])
    steps = draw(st.integers(12, 32))
    faces = draw(scenes.faces_strategy(kinds=("none", "pec", "pmc", "periodic", "pml", "pml"), pml_thickness=(2, 4)))
    _fit_pml(shape, faces, 4)
    grid = draw(scenes.grid_strategy(shape, faces, kinds=("uniform", "uniform", "rect")))
    interior = scenes.interior_range(shape, faces)

    n_src = draw(st.sampled_from([2, 2, 3]))
    t_common = 6 * draw(st.integers(0, (steps - 1) // 6))  # a step (multiple of every interval) at which most sources are on
    sources = []
    for i in range(n_src):
        s = draw(scenes.source_strategy(shape, steps, faces, name=f"src{i}", switches=False, kinds=_rotated(KINDS, rot // 3 + i),
                                        interior=_open_interior(shape, faces)))
        s["amp"] = draw(st.sampled_from([1.0, 0.5, 2.0, -1.5, 0.3, -0.7]))
        overlap = draw(st.integers(0, 7)) > 0
        s["switch"] = _window(draw, steps, must_cover=t_common if overlap else None)
        sources.append(s)

    plane_slices = [(s["axis"], s["pos"]) for s in sources if s["type"].endswith("_plane")]
    objects = []
    for i in range(draw(st.integers(0, 2))):
        lo, hi = draw(scenes.box_strategy(shape, min_size=1))
        m = draw(scenes.material_strategy(tiers=("iso", "diag", "full"), lossy=True, lo=1.0, hi=5.0))
        if any(lo[ax] <= p < hi[ax] for ax, p in plane_slices) and _is_aniso(m):
            m = _iso(m)  # plane-source faces must sit in locally isotropic cells
        objects.append({"name": f"box{i}", "lo": lo, "hi": hi, "material": m, "order": i})
    bg = {"eps": draw(st.sampled_from([1.0, 2.25, 4.0]))}
    if draw(st.integers(0, 3)) == 0:
        bg["mu"] = 1.5
    if draw(st.integers(0, 3)) == 0:
        bg["sigE"] = 2e3

    dets = []
    kinds = [draw(st.sampled_from(LIN)), draw(st.sampled_from(QUAD))]
    if draw(st.integers(0, 2)) == 0:
        kinds.append(draw(st.sampled_from(LIN + QUAD)))
    for i, k in enumerate(kinds):
        d = draw(scenes.detector_strategy(shape, steps, name=f"det{i}", kinds=(k,), switches=False))
        d["switch"] = _window(draw, steps)
        if draw(st.integers(0, 3)) > 0:
            _aim(d, sources[i % n_src], shape)
        _fix_poynting_axis(d)
        dets.append(d)

    mode = draw(st.sampled_from(["common", "common", "per_source"]))
    if mode == "common":
        lam = draw(st.sampled_from([2.0, 0.5, -1.5, 3.0]))
        lams, lam0 = [lam] * n_src, lam
    else:
        lams = [draw(st.sampled_from([2.0, 0.5, -1.0, 3.0, -0.25, 0.0, 1.0])) for _ in range(n_src)]
        lam0 = draw(st.sampled_from([2.0, -0.5, 0.0, 1.0]))
    init_amp = draw(st.sampled_from([0.0, 0.0, 0.0, 0.2, 1.0]))
    scene = {"shape": shape, "steps": steps, "courant": draw(st.sampled_from([0.99, 0.7])), "grid": grid,
             "faces": faces, "background": bg, "objects": objects, "detectors": dets}
    return {"scene": scene, "sources": sources, "lams": lams, "lam0": lam0, "mode": mode,
            "init": {"amp": init_amp, "seed": draw(st.integers(0, 2**31 - 1))}}


# ----------------------------------------------------------------------------------------------
# runs
# ----------------------------------------------------------------------------------------------
TWIN = "__cells"
ALL = "__all"
COMPS = ["Ex", "Ey", "Ez", "Hx", "Hy", "Hz"]


def _with_aux(scene):
    """Auxiliary detectors that only serve to put a scale on round-off (they are never compared themselves):

    * `__all`: raw E,H of the whole domain at every step.  Round-off made where the field is large (~eps*max|F|)
      travels with the wave, so the noise floor in a quiet corner is absolute, not relative to the local field
      (seen: |F| = 0.2 globally, 1e-10 at a detector, superposition error 1e-18 there = 1e-8 of the local field).
    * an unreduced twin of every reduced Energy/Poynting detector: the raw per-cell values decide whether the record
      is above the noise of a product of fields, and give the cancellation factor sum|S_i| / |sum S_i| of a flux sum."""
    sc = copy.deepcopy(scene)
    sc["detectors"].append({"type": "field", "name": ALL, "exact": False, "switch": {}, "lo": [0, 0, 0],
                            "hi": list(scene["shape"]), "reduce": False, "components": list(COMPS)})
    for d in scene["detectors"]:
        if d["type"] in ("poynting", "energy") and d.get("reduce"):
            t = copy.deepcopy(d)
            t.update(name=d["name"] + TWIN, reduce=False)
            t.pop("as_slices", None)
            sc["detectors"].append(t)
    return sc


def _run(scene, sources, lane, init=None):
    """One separately placed run. init = (E0, H0) numpy or None. -> (E, H, {det: {key: array}}, built)"""
    import fdtdx
    from fdtdx.fdtd.fdtd import custom_fdtd_forward

    spec = copy.deepcopy(scene)
    spec["sources"] = copy.deepcopy(sources)
    b = scenes.build(spec, lane)
    if init is None:
        state = fdtdx.run_fdtd(b.arrays, b.objects, b.config, b.key, show_progress=False)
    else:
        arrays = scenes.set_fields(b.arrays, init[0], init[1])
        state = custom_fdtd_forward(arrays, b.objects, b.config, b.key, reset_container=False,
                                    record_detectors=True, start_time=0, end_time=spec["steps"], show_progress=False)
    assert int(state[0]) == spec["steps"]
    arr = state[1]
    recs = {name: {k: np.asarray(v) for k, v in d.items()} for name, d in arr.detector_states.items()}
    return np.asarray(arr.fields.E), np.asarray(arr.fields.H), recs, b


def _amax(x):
    x = np.asarray(x)
    return float(np.abs(x).max()) if x.size else 0.0


def body(ctx, case):
    scene, sources = case["scene"], case["sources"]
    lams, lam0, mode = case["lams"], case["lam0"], case["mode"]
    n = len(sources)
    steps = scene["steps"]
    lane = ctx.lane
    tol = ctx.tol(1e-9, 2e-4)
    dets = {d["name"]: d["type"] for d in scene["detectors"]}
    by_name = {d["name"]: d for d in scene["detectors"]}
    scene = _with_aux(scene)
    rho = ctx.tol(1e-3, 0.1)  # quiet-region floor, as a fraction of the global max|F| over space and time
    theta = ctx.tol(1e-3, 0.1)  # quadratic records: compared when max|raw record| >= theta * max|F| * max|F_local|

    # ---- classification (from the case alone) --------------------------------------------------
    kinds = sorted({f["kind"] for f in scene["faces"].values()})
    ctx.classify(*("face=" + k for k in kinds), *sorted({"src=" + s["type"] for s in sources}),
                 *sorted({"det=" + t for t in dets.values()}), "mode=" + mode, "grid=" + scene["grid"]["kind"],
                 "init" if case["init"]["amp"] else "no-init", f"n_src={n}",
                 "boxes" if scene["objects"] else "no-boxes")

    # ---- single runs ---------------------------------------------------------------------------
    singles = [_run(scene, [s], lane) for s in sources]
    built0 = singles[0][3]

    # initial state (wall-consistent), shared by I, J, K
    F = None
    if case["init"]["amp"]:
        shape = tuple(scene["shape"])
        E0 = scenes.random_field(case["init"]["seed"], shape, False, (), case["init"]["amp"])
        H0 = scenes.random_field(case["init"]["seed"] + 1, shape, False, (), case["init"]["amp"])
        arr = scenes.project_walls(scenes.set_fields(built0.arrays, E0, H0), built0.objects)
        F = (np.asarray(arr.fields.E), np.asarray(arr.fields.H))
    init_run = _run(scene, [], lane, init=F) if F is not None else None

    joint = _run(scene, sources, lane, init=F)
    scaled_sources = []
    for s, l in zip(sources, lams):
        s2 = copy.deepcopy(s)
        s2["amp"] = s["amp"] * l
        scaled_sources.append(s2)
    FK = None if F is None else (lam0 * F[0], lam0 * F[1])
    scaled = _run(scene, scaled_sources, lane, init=FK)

    # ---- non-trivial rule ----------------------------------------------------------------------
    on = [set(scenes.switch_on_steps(s["switch"], steps)) for s in sources]
    live = [i for i in range(n) if sources[i]["amp"] != 0 and max(_amax(singles[i][0]), _amax(singles[i][1])) > 0]
    overlapping = any(on[i] & on[j] for i in live for j in live if i < j)
    ctx.classify("overlap" if overlapping else "no-overlap")
    if max([_amax(joint[0]), _amax(joint[1])]) == 0.0:
        raise Skip()
    ctx.nontrivial(overlapping)

    # ---- superposition and scaling of linear quantities ----------------------------------------
    def combos(get):
        """-> (joint value, expected joint, scaled value, expected scaled, scale of the largest term)"""
        terms = [np.asarray(get(r), dtype=np.complex128 if np.iscomplexobj(get(r)) else np.float64) for r in singles]
        ini = None if init_run is None else np.asarray(get(init_run))
        exp_j = sum(terms[1:], terms[0].copy())
        exp_k = sum((l * t for l, t in zip(lams[1:], terms[1:])), lams[0] * terms[0])
        if ini is not None:
            exp_j = exp_j + ini
            exp_k = exp_k + lam0 * ini
        big = max([_amax(t) for t in terms] + ([_amax(ini)] if ini is not None else []) + [_amax(get(joint))])
        bigk = max([abs(l) * _amax(t) for l, t in zip(lams, terms)]
                   + ([abs(lam0) * _amax(ini)] if ini is not None else []) + [_amax(get(scaled))])
        return get(joint), exp_j, get(scaled), exp_k, big, bigk

    allrec = lambda r: r[2][ALL]["fields"]  # noqa: E731
    runs = singles + ([init_run] if init_run is not None else [])
    fmax = max([_amax(allrec(r)) for r in runs] + [_amax(allrec(joint))])
    fmax_k = max([abs(l) * _amax(allrec(r)) for l, r in zip(list(lams) + [lam0], runs)] + [_amax(allrec(scaled))])
    ctx.check(fmax > 0 and np.isfinite(fmax), "fields vanish or are not finite at every step", observed=fmax)

    for idx, nm in ((0, "E"), (1, "H")):
        j, ej, k, ek, big, bigk = combos(lambda r, idx=idx: r[idx])
        ctx.check(np.isfinite(j).all() and np.isfinite(k).all(), f"non-finite final {nm}")
        big, bigk = max(big, rho * fmax), max(bigk, rho * fmax_k)  # the final state may be much quieter than the history
        ctx.close(j, ej, scale=big, tol=tol, msg=f"final {nm}: joint run != sum of single runs", metric="superpose_" + nm)
        ctx.close(k, ek, scale=max(bigk, 1e-300), tol=tol,
                  msg=f"final {nm}: run with scaled amplitude factors != scaled sum", metric="scale_" + nm)

    for name, typ in dets.items():
        if typ not in LIN:
            continue
        for key in joint[2][name]:
            j, ej, k, ek, big, bigk = combos(lambda r, name=name, key=key: r[2][name][key])
            c = 2.0 if typ == "phasor" else 1.0  # a continuous-mode phasor is (2/N) * sum of N unit-modulus terms
            big = max(big, c * rho * fmax)
            bigk = max(bigk, c * rho * fmax_k)
            if big == 0.0:
                ctx.classify("zero-linear-record")
                continue
            ctx.close(j, ej, scale=big, tol=tol, msg=f"{typ} detector {name}[{key}]: joint != sum of singles",
                      metric="superpose_" + typ)
            ctx.close(k, ek, scale=max(bigk, 1e-300), tol=tol,
                      msg=f"{typ} detector {name}[{key}]: scaled-amplitude run != scaled sum", metric="scale_" + typ)

    # ---- quadratic records under a common factor ----------------------------------------------
    if mode == "common":
        lam = lams[0]
        for name, typ in dets.items():
            if typ not in QUAD:
                continue
            for key in joint[2][name]:
                qj, qk = joint[2][name][key], scaled[2][name][key]
                big = _amax(qj)
                if big == 0.0:
                    ctx.classify("zero-quadratic-record")
                    continue
                d = by_name[name]
                raw = joint[2][name + TWIN][key] if name + TWIN in joint[2] else qj
                region = (slice(None), slice(None), *(slice(max(lo - 1, 0), hi + 1) for lo, hi in zip(d["lo"], d["hi"])))
                fj, floc = _amax(allrec(joint)), _amax(allrec(joint)[region])
                if _amax(raw) < theta * fj * floc:
                    # a product of fields carries the absolute noise ~4*eps*max|F|*|F_local|: below theta*max|F|*|F_local|
                    # the relative noise of the record exceeds the stated tolerance (seen: S = 1e-26 from components
                    # of 1e-13 in the cell of a dipole of 0.1, relative difference 2e-5)
                    ctx.classify("quadratic-below-noise-not-checked")
                    continue
                if typ == "poynting" and name + TWIN in joint[2]:  # reduced flux: cancellation factor of the sum
                    tw = raw.astype(np.float64)
                    tw = tw.reshape(tw.shape[0], 3, -1) if d.get("keep_all") else tw.reshape(tw.shape[0], -1)
                    a, b = _amax(np.abs(tw).sum(axis=-1)), _amax(tw.sum(axis=-1))
                    if b == 0.0:
                        ctx.classify("flux-sum-fully-cancelled")
                        continue
                    # rectilinear grids: face areas inside one plane vary by at most (1.6/0.6)^2 < 8
                    big *= max(1.0, a / b * (8.0 if scene["grid"]["kind"] == "rect" else 1.0))
                ctx.classify("quadratic-checked")
                ctx.close(qk, lam * lam * qj.astype(np.float64), scale=max(1.0, lam * lam) * big, tol=tol,
                          msg=f"{typ} detector {name}[{key}]: common factor {lam} does not scale the record by {lam * lam}",
                          metric="quad_" + typ)


SUBS = [
    Sub(name="superposition", body=body, strategy=lambda ctx: case_strategy(ctx), quick=8, thorough=320,
        lanes=("f64", "f32"), f32_fraction=0.25, quick_shards=3, max_seconds_quick=420.0,
        rule="fixed scene; runs: each source alone, initial state alone, joint, scaled; numpy linear combination"),
]
