"""C05 — forward results do not depend on the gradient strategy; reversible slice boundaries partition the run."""

from __future__ import annotations

import numpy as np
from hypothesis import strategies as st

from pbt import scenes
from pbt.engine import Sub

ID = "C05"
RULE = (
    "(partition) every total step count T in 1..600 (thorough; quick: 1..200) with ALL slice counts k in 1..T — exhaustive; "
    "non-trivial = T >= 2. (strategy) Hypothesis draws an open scene (PML/PEC/PMC/periodic/zero-halo faces, 1-2 sources "
    "with schedules/profiles, 1-2 detectors, material boxes, uniform or stretched grid, 6..30 steps) and a list of "
    "gradient configurations: checkpointed(n) with n in 1..T and reversible(r) with r in 0..T-1; each is run with "
    "run_fdtd and compared with the gradient-free run. Non-trivial = some r >= 1 or n < T."
)
ASSUMPTIONS = [
    "same arithmetic is expected in every strategy: tolerance 1e-12 relative (f64), 1e-5 (f32)",
    "slice boundaries are observed through fdtdx.fdtd.fdtd._reversible_slice_boundaries (the function the run uses) and, "
    "end-to-end, through the final step count / state of reversible runs with every checkpoint count",
]


def partition_cases(ctx):
    top = 600 if ctx.tier == "thorough" else 200
    for T in range(1, top + 1):
        yield {"T": T}


def partition_body(ctx, case):
    from fdtdx.fdtd.fdtd import _reversible_slice_boundaries

    T = case["T"]
    ctx.nontrivial(T >= 2)
    for k in range(1, T + 1):
        b = _reversible_slice_boundaries(T, k)
        ok = (len(b) == k + 1 and b[0] == 0 and b[-1] == T and all(isinstance(x, int) for x in b)
              and all(b[i] < b[i + 1] for i in range(k)))
        ctx.check(ok, f"slice boundaries for T={T}, k={k} are not a strictly increasing partition 0..T", observed=b,
                  expected=f"{k + 1} strictly increasing ints from 0 to {T}")


@st.composite
def strat_cases(draw, ctx):
    # half of the scenes contain lossy boxes (sigma_E and/or sigma_H): the gradient strategies rebuild the array
    # container in several places and every copy must carry the conductivity arrays along
    spec = draw(scenes.sim_scene_strategy(steps=(6, 30), lossy=draw(st.booleans()), n_objects=(0, 2)))
    if spec["objects"] == [] and draw(st.booleans()):
        spec["background"]["sigH"] = draw(st.sampled_from([1e8, 1e9]))
    T = spec["steps"]
    cfgs = []
    for _ in range(draw(st.integers(1, 2))):
        if draw(st.booleans()):
            cfgs.append({"method": "checkpointed", "n": draw(st.integers(1, T))})
        else:
            cfgs.append({"method": "reversible", "ckpt": draw(st.sampled_from([0, 1, 2, T - 1, draw(st.integers(0, T - 1))]))})
    # a third of the cases run every strategy twice, the second time on the arrays the first run returned (a used
    # container): the strategies must agree there too
    rerun = draw(st.booleans())
    if rerun:
        # an accumulating detector (phasor) is what makes stale detector data visible in a second run
        spec["detectors"].append(draw(scenes.detector_strategy(spec["shape"], T, name="det_ph", kinds=("phasor",))))
        if not any(c["method"] == "reversible" for c in cfgs):
            cfgs.append({"method": "reversible", "ckpt": draw(st.sampled_from([0, 1]))})
    return {"scene": spec, "configs": cfgs, "rerun": rerun}


def _run(spec, lane, gradient, rerun=False):
    import fdtdx

    b = scenes.build(spec, lane, gradient=gradient)
    t, arrays = fdtdx.run_fdtd(arrays=b.arrays, objects=b.objects, config=b.config, key=b.key, show_progress=False)
    if rerun:
        t, arrays = fdtdx.run_fdtd(arrays=arrays, objects=b.objects, config=b.config, key=b.key, show_progress=False)
    return int(t), np.asarray(arrays.fields.E), np.asarray(arrays.fields.H), scenes.detector_arrays(arrays)


def strat_body(ctx, case):
    spec = case["scene"]
    T = spec["steps"]
    rerun = bool(case.get("rerun"))
    if rerun:
        ctx.classify("rerun-on-used-container")
    t0, E0, H0, D0 = _run(spec, ctx.lane, None, rerun)
    ctx.check(t0 == T, f"gradient-free run ended at step {t0}, expected {T}", t0, T)
    tol = ctx.tol(1e-12, 1e-5)
    nt = False
    for g in case["configs"]:
        label = f"{g['method']}({g.get('n', g.get('ckpt'))})"
        ctx.classify(g["method"])
        if g["method"] == "reversible" and g["ckpt"] >= 1:
            nt = True
            ctx.classify("reversible_ckpt>=1")
        if g["method"] == "checkpointed" and g["n"] < T:
            nt = True
        t, E, H, D = _run(spec, ctx.lane, g, rerun)
        ctx.check(t == T, f"{label}: final step count {t} != {T}", t, T)
        scale = max(np.abs(E0).max(), np.abs(H0).max(), 1e-30)
        ctx.close(E, E0, scale=scale, tol=tol, msg=f"{label}: final E differs from gradient-free run", metric="E_err")
        ctx.close(H, H0, scale=scale, tol=tol, msg=f"{label}: final H differs from gradient-free run", metric="H_err")
        ctx.check(set(D) == set(D0), f"{label}: detector set differs", sorted(D), sorted(D0))
        for n in D0:
            for k in D0[n]:
                ctx.close(D[n][k], D0[n][k], tol=max(tol, 1e-10 if ctx.f64 else 1e-4),
                          msg=f"{label}: detector {n}/{k} differs from gradient-free run", metric="det_err")
    ctx.classify(*("face=" + k for k in sorted({f["kind"] for f in spec["faces"].values()})))
    ctx.nontrivial(nt)


SUBS = [
    Sub(name="partition", body=partition_body, cases=partition_cases, lanes=("f64",), exhaustive=True,
        exhaustive_quick=True, rule="all (T,k) with 1<=k<=T<=600 (quick: T<=200)"),
    Sub(name="strategy", body=strat_body, strategy=lambda ctx: strat_cases(ctx), quick=16, thorough=480,
        lanes=("f64", "f32"), f32_fraction=0.3, quick_shards=2,
        rule="random scene x gradient configurations vs the gradient-free run"),
]
