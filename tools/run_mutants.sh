#!/bin/bash
# tools/run_mutants.sh <tsv> : each line "PROP<TAB>file-under-fdtdx<TAB>sed -E expression<TAB>note"; runs the quick tier against each mutant.
while IFS=$'\t' read -r prop file expr note; do
  [ -z "$prop" ] && continue; [[ "$prop" == \#* ]] && continue
  out=$(cd /verif && tools/with_patch.sh -e "$expr" "$file" -- ./check "$prop" --no-evidence ${MUT_ARGS:-} 2>&1)
  rc=$?
  line=$(echo "$out" | grep -m1 -A1 "^VIOLATION" | tr '\n' ' ' | cut -c1-220)
  echo -e "$prop\trc=$rc\t$note\t$expr\t$line$( [ $rc -ne 1 ] && echo "$out" | tail -2 | tr '\n' ' ' | cut -c1-200)"
done < "$1"
