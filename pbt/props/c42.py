"""C42 — results do not depend on the number of devices the arrays are sharded over.

Each case (one scene spec) is run in three child processes that differ only in
`XLA_FLAGS=--xla_force_host_platform_device_count={1,2,4}` (`backend="cpu"`, so fdtdx shards every field and material
array along x over all host devices — `create_named_sharded_matrix(sharding_axis=1)` in `_init_arrays`).  The children
report the device count and how many devices E / inv_permittivities are laid out on (before and after the run); the
parent compares final fields and every detector record of the 2- and 4-device runs against the 1-device run.

Child entry points (same bootstrap as the engine, honours VERIF_REPO_SRC):
    python -m pbt.props.c42 --child <specfile> <outfile>     one spec, then exit (thorough tier: one child at a time)
    python -m pbt.props.c42 --serve <lane>                   one JSON request per stdin line (quick tier: the three
                                                             servers stay alive and amortise import + warm-up)
"""

from __future__ import annotations

import atexit
import json
import os
import shutil
import subprocess
import sys
import tempfile
import traceback

import numpy as np
from hypothesis import strategies as st

from pbt import engine, scenes
from pbt.engine import Skip, Sub

ID = "C42"
DEVICE_COUNTS = (1, 2, 4)
RULE = (
    "Hypothesis draws a scene with shape from {8x7x6, 12x6x7, 16x6x6} (x divisible by 4; 2..4 cells per shard on 4 "
    "devices), uniform or rectilinear grid, every axis periodic or two faces from {halo, PEC, PMC, PML(2..3)}, "
    "background + 0..2 material boxes (isotropic/diagonal/full tensor, lossy), 1..2 sources (uniform/Gaussian plane, "
    "electric/magnetic dipole) and 2..3 detectors of all four kinds, reduced and unreduced, 10..24 steps; the spec is "
    "run with run_fdtd in three child processes with 1, 2 and 4 emulated host devices. Non-trivial = every child "
    "saw exactly its device count, E/H and the material arrays were laid out on all of them after placement, the "
    "final fields are non-zero in at least two of the four x-slabs of the 4-device layout (the wave has crossed a shard "
    "cut; whether a source, box or detector touches a cut is recorded as a class). "
    "Distinct = sha1 of the case JSON."
)
ASSUMPTIONS = [
    "multi-device execution is emulated with XLA host devices on one CPU (the only multi-device platform available "
    "here); GPU/TPU collectives are not exercised",
    "'identical' is read as: final E/H equal to 1e-11 (f64) / 1e-5 (f32) relative to max|field| (observed: bit-equal or 1-3 ulp, "
    "the max difference is reported in the evidence), detector records equal to 1e-9 (f64) / 5e-5 (f32) relative to "
    "max|record| because reductions over a sharded axis are summed in a different order; round-off differences (1-3 "
    "ulp of max|F|, made where the field is large) travel with the wave, so Field/Phasor records use scale = "
    "max(max|record|, rho*max|F| over the whole domain and all steps) with rho = 1e-3 (f64) / 1 (f32), Energy/Poynting "
    "records are always compared when the field histories are bit-equal, otherwise only when their raw per-cell values "
    "reach theta*max|F|*max|F_local| (theta = 1e-3 f64 / 0.3 f32; unreduced twin detector for reduced records), and reduced Poynting "
    "sums are scaled by their cancellation factor sum|S_i|/|sum S_i| from an unreduced twin detector (otherwise a "
    "mean that cancels to 1e-23 would be compared with itself)",
    "a child that does not see the requested device count is a harness error, never a violation",
]

# x-extent divisible by 4 (2..4 cells per shard on 4 devices); a small menu because every new shape costs seconds
# of one-off XLA compiles in each of the three children
SHAPES = ((8, 7, 6), (12, 6, 7), (16, 6, 6))
_SCRATCH = None
_SERVERS: dict = {}
_TAG = "@@C42 "
_TIMEOUT_S = 1200.0


# ----------------------------------------------------------------------------------------------
# generator
# ----------------------------------------------------------------------------------------------
def _window(draw, steps):
    kind = draw(st.sampled_from(["always", "always", "window", "interval"]))
    if kind == "always":
        return {}
    iv = draw(st.integers(2, 3)) if kind == "interval" else 1
    a = draw(st.integers(0, steps - 1))
    a -= a % iv
    s = {"start_step": a}
    if draw(st.booleans()):
        s["end_step"] = draw(st.integers(a, steps))
    if iv > 1:
        s["interval"] = iv
    return s


def _is_aniso(m):
    return any(isinstance(m.get(k), list) for k in ("eps", "mu", "sigE", "sigH"))


def _iso(m):
    return {k: (v[0] if isinstance(v, list) else v) for k, v in m.items()}


def _fit_pml(shape, faces, min_interior):
    """Thin the drawn PMLs (never below 2 cells) until `min_interior` cells remain between them on every axis."""
    for ax in range(3):
        fs = [f for f in (faces[f"min_{'xyz'[ax]}"], faces[f"max_{'xyz'[ax]}"]) if f["kind"] == "pml"]
        while fs and shape[ax] - sum(f["thickness"] for f in fs) < min_interior:
            thick = max(fs, key=lambda f: f["thickness"])
            if thick["thickness"] <= 2:
                fs.remove(thick)
                thick.pop("thickness")
                thick["kind"] = "none"
            else:
                thick["thickness"] -= 1


def _open_interior(shape, faces):
    """Per-axis cell range clear of PML layers and of the one-cell PEC/PMC wall layers (a dipole inside a wall cell is
    clamped by the wall and radiates nothing)."""
    out = []
    for ax, (lo, hi) in enumerate(scenes.interior_range(shape, faces)):
        if faces[f"min_{'xyz'[ax]}"]["kind"] in ("pec", "pmc"):
            lo += 1
        if faces[f"max_{'xyz'[ax]}"]["kind"] in ("pec", "pmc"):
            hi -= 1
        out.append((lo, hi))
    return out


KINDS = ("uniform_plane", "gaussian_plane", "dipole_e", "dipole_m")


def _rotated(seq, k):
    k %= len(seq)
    return tuple(seq[k:]) + tuple(seq[:k])


def _aim(d, s, shape):
    """Shift detector box d (size kept) so that it contains a cell lit by source s — otherwise most random boxes sit
    where the wave has not arrived within the run and their quadratic records are below the round-off noise."""
    if s["type"] in ("uniform_plane", "gaussian_plane"):
        p = [n // 2 for n in shape]
        p[s["axis"]] = s["pos"]
    elif s["type"] == "tfsf_region":
        p = [(a + b) // 2 for a, b in zip(s["lo"], s["hi"])]
    else:
        p = list(s["pos"])
    for a in range(3):
        size = d["hi"][a] - d["lo"][a]
        if not d["lo"][a] <= p[a] < d["hi"][a]:
            d["lo"][a] = max(0, min(p[a], shape[a] - size))
            d["hi"][a] = d["lo"][a] + size


def _fix_poynting_axis(d):
    if d["type"] == "poynting" and not d.get("keep_all"):
        thin = [a for a in range(3) if d["hi"][a] - d["lo"][a] == 1]
        if len(thin) != 1:
            d["fixed_axis"] = thin[0]


@st.composite
def case_strategy(draw, ctx):
    # Hypothesis' first example is the all-minimal one: rotate the menus per (seed, shard, lane) so that the workers
    # of one run do not all spend an example on the same case
    rot = int(getattr(ctx, "seed", 0)) * 7 + int(getattr(ctx, "shard", 0)) * 4 + (2 if getattr(ctx, "lane", "") == "f32" else 0)
    shape = list(SHAPES[(draw(st.integers(0, len(SHAPES) - 1)) + rot) % len(SHAPES)])
    steps = draw(st.integers(10, 24))
    faces = draw(scenes.faces_strategy(kinds=("none", "pec", "pmc", "periodic", "pml", "pml"), pml_thickness=(2, 3)))
    _fit_pml(shape, faces, 4)
    grid = draw(scenes.grid_strategy(shape, faces, kinds=("uniform", "uniform", "rect")))
    interior = scenes.interior_range(shape, faces)

    sources = []
    for i in range(draw(st.sampled_from([1, 2, 2]))):
        s = draw(scenes.source_strategy(shape, steps, faces, name=f"src{i}", switches=False, kinds=_rotated(KINDS, rot // 3 + i),
                                        interior=_open_interior(shape, faces)))
        s["switch"] = _window(draw, steps)
        sources.append(s)
    planes = [(s["axis"], s["pos"]) for s in sources if s["type"].endswith("_plane")]
    objects = []
    for i in range(draw(st.sampled_from([1, 1, 2]))):
        lo, hi = draw(scenes.box_strategy(shape, min_size=1))
        m = draw(scenes.material_strategy(tiers=("iso", "diag", "full"), lossy=True, lo=1.0, hi=5.0))
        if _is_aniso(m) and any(lo[a] <= p < hi[a] for a, p in planes):
            m = _iso(m)
        objects.append({"name": f"box{i}", "lo": lo, "hi": hi, "material": m, "order": i})
    # two boxes of identical extent at different positions in most scenes (writes of the same shape to different
    # places of equally shaped arrays)
    if objects and draw(st.integers(0, 3)) > 0:
        o = objects[0]
        size = [o["hi"][a] - o["lo"][a] for a in range(3)]
        lo2 = [draw(st.integers(0, shape[a] - size[a])) for a in range(3)]
        if lo2 != o["lo"]:
            m2 = draw(scenes.material_strategy(tiers=("iso",), lossy=True, lo=1.0, hi=5.0))
            objects.append({"name": "twin", "lo": lo2, "hi": [lo2[a] + size[a] for a in range(3)], "material": m2, "order": 7})
    bg = {"eps": draw(st.sampled_from([1.0, 2.25]))}
    if draw(st.integers(0, 3)) == 0:
        bg["mu"] = 1.5
    if draw(st.integers(0, 3)) == 0:
        bg["sigE"] = 2e3
    # most uniform-grid scenes also contain a lossy ellipsoid in a lossy background: mask-shaped objects write
    # conductivities through the sharding-preserving *add* path (on top of a non-zero prior), which boxes never use
    if grid.get("kind", "uniform") == "uniform" and draw(st.integers(0, 4)) > 0:
        lo = [draw(st.integers(0, shape[a] - 4)) for a in range(3)]
        size = [2 * draw(st.integers(1, min(3, (shape[a] - lo[a]) // 2))) for a in range(3)]
        if not any(lo[a] <= p < lo[a] + size[a] for a, p in planes):
            objects.append({"name": "ball", "sphere": True, "lo": lo, "hi": [lo[a] + size[a] for a in range(3)],
                            "material": {"eps": draw(st.sampled_from([2.0, 4.0])), "sigE": draw(st.sampled_from([4e3, 1e4]))},
                            "order": 5})
            bg["sigE"] = 2e3
    dets = []
    kinds = [draw(st.sampled_from(("energy", "poynting"))), draw(st.sampled_from(("field", "phasor")))]
    if draw(st.booleans()):
        kinds.append(draw(st.sampled_from(("field", "phasor", "energy", "poynting"))))
    for i, k in enumerate(kinds):
        d = draw(scenes.detector_strategy(shape, steps, name=f"det{i}", kinds=(k,), switches=False))
        d["switch"] = _window(draw, steps)
        if i == 0:
            d["reduce"] = True  # at least one record reduced over (part of) the sharded axis
        if draw(st.integers(0, 3)) > 0:
            _aim(d, sources[i % len(sources)], shape)
        _fix_poynting_axis(d)
        dets.append(d)
    scene = {"shape": shape, "steps": steps, "courant": draw(st.sampled_from([0.99, 0.7])), "grid": grid, "faces": faces,
             "background": bg, "objects": objects, "sources": sources, "detectors": dets}
    return {"scene": scene}


# ----------------------------------------------------------------------------------------------
# child side
# ----------------------------------------------------------------------------------------------
def _ndev(x):
    try:
        return len(x.sharding.device_set)
    except Exception:
        return 0


def _shard_axis_pieces(x):
    """number of distinct index ranges along axis 1 over the addressable shards (== devices when split along x)"""
    try:
        return len({(s.index[1].start, s.index[1].stop) for s in x.addressable_shards})
    except Exception:
        return 0


def _child_run(specfile, outfile):
    """Runs one spec in this process (bootstrap must already have happened). Writes an .npz + returns meta."""
    import fdtdx
    import jax

    with open(specfile) as f:
        req = json.load(f)
    meta = {"devices": jax.device_count(), "expect": req["expect_devices"], "error": None, "owner": None}
    arrays_out = {}
    try:
        b = scenes.build(req["scene"], req["lane"])
        a0 = b.arrays
        meta["E_devices_placed"] = _ndev(a0.fields.E)
        meta["E_pieces_placed"] = _shard_axis_pieces(a0.fields.E)
        meta["H_devices_placed"] = _ndev(a0.fields.H)
        meta["eps_devices_placed"] = _ndev(a0.inv_permittivities)
        meta["eps_pieces_placed"] = _shard_axis_pieces(a0.inv_permittivities)
        state = fdtdx.run_fdtd(a0, b.objects, b.config, b.key, show_progress=False)
        arr = state[1]
        meta["steps_done"] = int(state[0])
        meta["E_devices_final"] = _ndev(arr.fields.E)
        meta["E_pieces_final"] = _shard_axis_pieces(arr.fields.E)
        arrays_out["E"] = np.asarray(arr.fields.E)
        arrays_out["H"] = np.asarray(arr.fields.H)
        arrays_out["inv_eps"] = np.asarray(arr.inv_permittivities)
        for name, d in arr.detector_states.items():
            for k, v in d.items():
                arrays_out[f"det::{name}::{k}"] = np.asarray(v)
    except Exception as e:  # noqa
        meta["error"] = "".join(traceback.format_exception(type(e), e, e.__traceback__))[-3000:]
        meta["owner"] = engine._innermost_owner(e.__traceback__)
    np.savez(outfile, meta=np.asarray(json.dumps(meta)), **arrays_out)
    return meta


def _child_main(argv):
    if argv[0] == "--child":
        specfile, outfile = argv[1], argv[2]
        with open(specfile) as f:
            lane = json.load(f)["lane"]
        engine.bootstrap(lane)
        _child_run(specfile, outfile)
        return 0
    if argv[0] == "--serve":
        engine.bootstrap(argv[1])
        sys.stdout.write(_TAG + "ready\n")
        sys.stdout.flush()
        for line in sys.stdin:
            line = line.strip()
            if not line:
                continue
            req = json.loads(line)
            try:
                _child_run(req["spec"], req["out"])
                sys.stdout.write(_TAG + "done\n")
            except Exception as e:  # noqa
                sys.stdout.write(_TAG + "fail " + repr(e).replace("\n", " ")[:500] + "\n")
            sys.stdout.flush()
        return 0
    raise SystemExit("usage: python -m pbt.props.c42 --child <specfile> <outfile> | --serve <lane>")


# ----------------------------------------------------------------------------------------------
# parent side
# ----------------------------------------------------------------------------------------------
def _scratch():
    global _SCRATCH
    if _SCRATCH is None:
        os.makedirs("/tmp/verif-c42-scratch", exist_ok=True)
        _SCRATCH = tempfile.mkdtemp(prefix="w", dir="/tmp/verif-c42-scratch")
        atexit.register(_cleanup)
    return _SCRATCH


def _cleanup():
    for p in _SERVERS.values():
        try:
            p.stdin.close()
            p.wait(timeout=20)
        except Exception:
            try:
                p.kill()
            except Exception:
                pass
    _SERVERS.clear()
    if _SCRATCH:
        shutil.rmtree(_SCRATCH, ignore_errors=True)
        try:
            os.rmdir("/tmp/verif-c42-scratch")
        except OSError:
            pass


def _child_env(n):
    env = dict(os.environ)
    env["XLA_FLAGS"] = f"--xla_force_host_platform_device_count={n}"
    env["JAX_PLATFORMS"] = "cpu"
    env["PYTHONDONTWRITEBYTECODE"] = "1"
    env.setdefault("PYTHONHASHSEED", "0")
    for v in ("OMP_NUM_THREADS", "OPENBLAS_NUM_THREADS", "MKL_NUM_THREADS"):
        env.setdefault(v, "1")
    return env


def _reply(p, what):
    """Next protocol line of a child server (anything else a library may print to stdout is ignored)."""
    import select

    while True:
        ready, _, _ = select.select([p.stdout], [], [], _TIMEOUT_S)
        if not ready:
            p.kill()
            raise RuntimeError(f"C42 child timed out after {_TIMEOUT_S:.0f}s while waiting for {what}")
        line = p.stdout.readline()
        if line == "":
            raise RuntimeError(f"C42 child exited (rc={p.poll()}) while waiting for {what}")
        if line.startswith(_TAG):
            return line[len(_TAG):].strip()


def _server(n, lane):
    key = (n, lane)
    p = _SERVERS.get(key)
    if p is not None and p.poll() is None:
        return p
    err = open(os.path.join(_scratch(), f"server-{n}-{lane}.log"), "a")
    p = subprocess.Popen([sys.executable, "-m", "pbt.props.c42", "--serve", lane], cwd=engine.VERIF_DIR,
                         env=_child_env(n), stdin=subprocess.PIPE, stdout=subprocess.PIPE, stderr=err, text=True, bufsize=1)
    _SERVERS[key] = p
    line = _reply(p, "start-up")
    if line != "ready":
        raise RuntimeError(f"C42 child server ({n} devices) did not start: {line!r}; see {err.name}")
    return p


TWIN = "__full"
ALL = "__all"


def _with_aux(scene):
    """Auxiliary detectors, the same in all three children:

    * `__all`: raw E,H of the whole domain at every step — compared like the final fields (identical history) and used
      as the scale of round-off: a 1-3 ulp difference made where the field is large travels with the wave, so the
      noise floor of a record taken in a quiet corner is eps*max|F| in absolute terms, not relative to the record.
    * an unreduced twin of every reduced Poynting detector: its per-cell values give the cancellation factor
      sum|S_i| / |sum S_i| of the reduced sum."""
    import copy

    sc = copy.deepcopy(scene)
    sc["detectors"].append({"type": "field", "name": ALL, "exact": False, "switch": {}, "lo": [0, 0, 0],
                            "hi": list(scene["shape"]), "reduce": False,
                            "components": ["Ex", "Ey", "Ez", "Hx", "Hy", "Hz"]})
    for d in scene["detectors"]:
        if d["type"] in ("poynting", "energy") and d.get("reduce"):
            t = copy.deepcopy(d)
            t.update(name=d["name"] + TWIN, reduce=False)
            t.pop("as_slices", None)
            sc["detectors"].append(t)
    return sc


def _load(out):
    with np.load(out) as z:
        meta = json.loads(str(z["meta"]))
        arrays = {k: z[k] for k in z.files if k != "meta"}
    return meta, arrays


def _run_children(case, lane, persistent):
    """-> {n: (meta, {name: array})}.

    persistent (quick tier): one long-lived server per device count, the three requests run in parallel.
    otherwise (thorough tier, 16 workers): one-shot `--child` processes one after the other, so that a worker never
    has more than one child alive (a child holds 0.5-1 GB)."""
    d = _scratch()
    fp = engine.fingerprint(case)
    scene = _with_aux(case["scene"])
    jobs = []
    for n in DEVICE_COUNTS:
        spec = os.path.join(d, f"{fp}-{n}.json")
        out = os.path.join(d, f"{fp}-{n}.npz")
        with open(spec, "w") as f:
            json.dump({"scene": scene, "lane": lane, "expect_devices": n}, f)
        jobs.append((n, spec, out))
    res = {}
    if persistent:
        procs = {}
        for n, spec, out in jobs:
            procs[n] = _server(n, lane)
            procs[n].stdin.write(json.dumps({"spec": spec, "out": out}) + "\n")
            procs[n].stdin.flush()
        for n, spec, out in jobs:
            line = _reply(procs[n], f"the {n}-device run")
            if line != "done":
                raise RuntimeError(f"C42 child ({n} devices) failed outside fdtdx: {line!r}")
    else:
        for n, spec, out in jobs:
            log = os.path.join(d, f"{fp}-{n}.log")
            with open(log, "w") as lf:
                try:
                    rc = subprocess.run([sys.executable, "-m", "pbt.props.c42", "--child", spec, out],
                                        cwd=engine.VERIF_DIR, env=_child_env(n), stdout=lf, stderr=subprocess.STDOUT,
                                        timeout=_TIMEOUT_S).returncode
                except subprocess.TimeoutExpired:
                    raise RuntimeError(f"C42 child ({n} devices) timed out after {_TIMEOUT_S:.0f}s") from None
            if rc != 0 or not os.path.exists(out):
                tail = open(log).read()[-2000:]
                raise RuntimeError(f"C42 child ({n} devices) died rc={rc}: {tail}")
            os.remove(log)
    for n, spec, out in jobs:
        res[n] = _load(out)
        os.remove(spec)
        os.remove(out)
    return res


def _amax(x):
    x = np.asarray(x)
    return float(np.abs(x).max()) if x.size else 0.0


def body(ctx, case):
    scene = case["scene"]
    nx = scene["shape"][0]
    res = _run_children(case, ctx.lane, persistent=(ctx.tier == "quick"))

    # ---- children sanity (harness) and fdtdx errors --------------------------------------------------
    for n, (meta, _) in res.items():
        if meta["devices"] != n:
            raise RuntimeError(f"child asked for {n} host devices but jax.device_count() == {meta['devices']}")
    errs = {n: m["error"] for n, (m, _) in res.items() if m["error"]}
    if errs:
        if 1 in errs:
            raise RuntimeError("scene fails on a single device too (generator out of domain?):\n" + errs[1])
        n = sorted(errs)[0]
        ctx.check(False, f"run fails on {n} devices but succeeds on 1 device: " + errs[n].strip().splitlines()[-1][:300],
                  observed=errs[n], expected="same result as on 1 device")

    ref_meta, ref = res[1]
    kinds = sorted({f["kind"] for f in scene["faces"].values()})
    ctx.classify(f"nx={nx}", "grid=" + scene["grid"]["kind"], *("face=" + k for k in kinds),
                 *sorted({"src=" + s["type"] for s in scene["sources"]}),
                 *sorted({"det=" + d["type"] + ("/reduced" if d.get("reduce") else "") for d in scene["detectors"]}))

    # ---- were several devices really used? ---------------------------------------------------------
    sharded = True
    for n in DEVICE_COUNTS:
        m = res[n][0]
        ok = (m["E_devices_placed"] == n and m["H_devices_placed"] == n and m["eps_devices_placed"] == n
              and m["E_pieces_placed"] == n and m["eps_pieces_placed"] == n)
        sharded = sharded and ok
        ctx.classify(f"dev{n}:" + ("sharded-over-all" if ok else "NOT-sharded"),
                     f"dev{n}:final-E-on-{m['E_devices_final']}-devices/{m['E_pieces_final']}-x-pieces")
        ctx.check(m["steps_done"] == scene["steps"], f"{n}-device run stopped after {m['steps_done']} steps",
                  observed=m["steps_done"], expected=scene["steps"])

    cuts = sorted({nx * k // 4 for k in (1, 2, 3)})
    spans = [(o["lo"][0], o["hi"][0]) for o in scene["objects"]] + [(d["lo"][0], d["hi"][0]) for d in scene["detectors"]]
    for s in scene["sources"]:
        if s["type"].endswith("_plane"):
            spans.append((s["pos"], s["pos"] + 1) if s["axis"] == 0 else (0, nx))
        else:
            spans.append((s["pos"][0], s["pos"][0] + 1))
    at_cut = any(lo <= c <= hi for lo, hi in spans for c in cuts)
    ctx.classify("object-at-shard-cut" if at_cut else "nothing-at-shard-cut")
    if max(_amax(ref["E"]), _amax(ref["H"])) == 0.0:
        raise Skip()
    q = nx // 4
    slabs = sum(1 for i in range(4) if max(_amax(ref["E"][:, i * q:(i + 1) * q]), _amax(ref["H"][:, i * q:(i + 1) * q])) > 0)
    ctx.classify(f"field-in-{slabs}-of-4-shards")
    ctx.nontrivial(sharded and slabs >= 2)

    # ---- compare -----------------------------------------------------------------------------------
    ftol = ctx.tol(1e-11, 1e-5)
    dtol = ctx.tol(1e-9, 5e-5)
    by_name = {d["name"]: d for d in scene["detectors"]}
    # quiet-region floors as fractions of max|F| over the whole domain and all steps (see _with_aux)
    rho_lin = ctx.tol(1e-3, 1.0)
    theta = ctx.tol(1e-3, 0.3)
    for n in DEVICE_COUNTS[1:]:
        got = res[n][1]
        ctx.check(set(got) == set(ref), f"{n}-device run returns different records", observed=sorted(got), expected=sorted(ref))
        ctx.close(got["inv_eps"], ref["inv_eps"], tol=ftol, msg=f"inverse permittivity array differs on {n} devices",
                  metric=f"inv_eps_diff_{n}dev")
        allref = ref[f"det::{ALL}::fields"]
        fmax = max(_amax(allref), 1e-300)
        for nm in ("E", "H"):
            ctx.check(np.isfinite(got[nm]).all(), f"non-finite {nm} on {n} devices")
            big = max(_amax(ref[nm]), _amax(got[nm]), rho_lin * fmax)  # the final state may be quieter than the history
            err = ctx.close(got[nm], ref[nm], scale=big, tol=ftol, msg=f"final {nm} on {n} devices differs from 1 device",
                            metric=f"{nm}_diff_{n}dev")
            ctx.classify(f"{nm}-bit-equal" if err == 0.0 else f"{nm}-roundoff-differs")
        err = ctx.close(got[f"det::{ALL}::fields"], allref, scale=fmax, tol=ftol,
                        msg=f"field history (all cells, all steps) on {n} devices differs from 1 device",
                        metric=f"history_diff_{n}dev")
        ctx.classify("history-bit-equal" if err == 0.0 else "history-roundoff-differs")
        for k in ref:
            if not k.startswith("det::"):
                continue
            name = k.split("::")[1]
            d = by_name.get(name)
            if d is None:  # auxiliary detectors
                continue
            big = max(_amax(ref[k]), _amax(got[k]))
            if d["type"] in ("field", "phasor"):
                c = 2.0 if d["type"] == "phasor" else 1.0
                big = max(big, c * rho_lin * fmax)
            else:
                rawk = f"det::{name}{TWIN}::" + k.split("::")[2]
                raw = ref[rawk] if rawk in ref else ref[k]
                region = (slice(None), slice(None), *(slice(max(lo - 1, 0), hi + 1) for lo, hi in zip(d["lo"], d["hi"])))
                if err > 0.0 and _amax(raw) < theta * fmax * _amax(allref[region]):
                    # the field histories differ by round-off: a product of fields then carries the absolute noise
                    # ~4*eps*max|F|*|F_local|, above the tolerance for records below theta*max|F|*|F_local|
                    ctx.classify("quadratic-below-noise-not-checked")
                    continue
                if d["type"] == "poynting" and d.get("reduce"):
                    tw = ref[f"det::{name}{TWIN}::poynting_flux"].astype(np.float64)
                    tw = tw.reshape(tw.shape[0], 3, -1) if d.get("keep_all") else tw.reshape(tw.shape[0], -1)
                    a, b = _amax(np.abs(tw).sum(axis=-1)), _amax(tw.sum(axis=-1))
                    if b == 0.0:
                        ctx.classify("poynting-sum-fully-cancelled")
                        continue
                    kappa = a / b * (8.0 if scene["grid"]["kind"] == "rect" else 1.0)  # rect: face areas vary < 8x
                    ctx.metric("poynting_cancellation_factor", kappa)
                    big = big * max(1.0, kappa)
            if big == 0.0:
                continue
            ctx.classify("record-compared:" + d["type"] + ("/reduced" if d.get("reduce") else ""))
            ctx.close(got[k], ref[k], scale=big, tol=dtol, msg=f"detector record {k[5:]} on {n} devices differs from 1 device",
                      metric=f"det_diff_{n}dev")


SUBS = [
    Sub(name="device_count", body=body, strategy=lambda ctx: case_strategy(ctx), quick=4, thorough=64,
        lanes=("f64", "f32"), f32_fraction=0.25, quick_shards=1, max_seconds_quick=600.0,
        rule="one spec, three child processes with 1/2/4 emulated host devices, results compared with the 1-device run"),
]

if __name__ == "__main__":
    sys.exit(_child_main(sys.argv[1:]))
