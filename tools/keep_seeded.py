#!/usr/bin/env python3
"""tools/keep_seeded.py <group> <ID> <caught: quick|quick-after-strengthening|thorough|missed> "<needs>" "<detail>"
Copies /tmp/wt_out/<group>/<ID>/{patch.diff,demo.py,notes.md} to /verif/seeded/<ID>/ and writes meta.json."""
import json, os, shutil, sys, subprocess
g, pid, caught, needs, detail = sys.argv[1:6]
src = f"/tmp/wt_out/{g}/{pid}"
dst = f"/verif/seeded/{pid}" + os.environ.get("SEED_SUFFIX", "")
os.makedirs(dst, exist_ok=True)
for f in ("patch.diff", "demo.py", "notes.md"):
    if os.path.exists(os.path.join(src, f)):
        shutil.copy(os.path.join(src, f), os.path.join(dst, f))
rev = subprocess.run(["git", "-C", "/repo", "rev-parse", "--short", "HEAD"], capture_output=True, text=True).stdout.strip()
meta = {
    "property": pid,
    "written_by": f"independent sub-agent {g} (given only the property text and its own scratch worktree of /repo)",
    "needs_to_manifest": needs,
    "confirmed_by_me": {
        "applies_to_repo_rev": rev,
        "demo_exit_on_clean_tree": 0,
        "demo_exit_on_patched_tree": 1,
        "how": "tools/eval_seeded.sh: scratch copy of /repo/src + patch -p1; demo.py <src root> on clean and patched copy; then ./check <ID> --tier quick with VERIF_REPO_SRC pointing at the patched copy",
        "existing_tests": "relevant unit/integration test files re-run by the sub-agent with PYTHONPATH=<worktree>/src (see notes.md); the pinned suite imports the stale installed fdtdx and is unaffected by any change to /repo/src",
    },
    "detection": {"check": f"./check {pid} --tier quick", "result": caught, "detail": detail},
}
json.dump(meta, open(os.path.join(dst, "meta.json"), "w"), indent=1)
print("kept", dst)
