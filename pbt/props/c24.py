"""C24 — the binary median filter and the pillar discretisation match their definitions.

Oracles (numpy, brute force, written from the property text):

* median: pad the volume face by face as configured ("constant" with the face's value, "edge" = replicate),
  count the ones in the odd-sized box around every voxel, output 1 iff the count exceeds half the box.  Where
  two faces with different constant values meet, the value of the shared edge/corner padding cells is not
  defined by the configuration; the oracle evaluates all six axis orders and only asserts voxels whose majority
  is the same for every order (bounds are propagated through repeated applications, the filter is monotone).
* pillar: enumerate all ``n_materials ** height`` columns, keep those with background only as a suffix at the
  high-index ("top") end and — when requested — at most one distinct non-background material; the output column
  must be one of them and its distance to the input column must equal the minimum over all of them (ties free).
"""

from __future__ import annotations

import itertools

import numpy as np
from hypothesis import strategies as st

from pbt.engine import Skip, Sub

ID = "C24"
RULE = (
    "median: Hypothesis draws a shape 1..8 per axis, odd kernel sizes from {1,3,5,7} per axis (kernel 1 on "
    "singleton axes half of the time), 1..3 repeats, a padding configuration (one mode/value for all faces, or "
    "per-face modes from {constant, edge} with per-face values from {0,1}; widths >= kernel//2 per face, single or "
    "per-face; or one of the two configurations shipped in discrete.py), int32 or float storage, and 4 binary "
    "inputs per configuration (iid with a drawn density from a drawn seed, or an explicitly drawn bit list for "
    "<= 48 voxels); every input is compared voxel by voxel with the brute-force majority. Non-trivial = some "
    "kernel size > 1 and the expected output differs from the input or is non-constant. "
    "pillar: Hypothesis draws 2..4 isotropic materials (distinct permittivities from a palette, dictionary order "
    "shuffled), the background (default = lowest permittivity, or any material named explicitly), axis 0..2, "
    "column height 1..5, the other two extents 1..4, both distance metrics, single_polymer_columns, and 4 "
    "continuous inputs per configuration (uniform over the inverse-permittivity range +- 0.15, exact allowed "
    "values per voxel, allowed values + noise, or an exactly allowed column pattern); each output column is "
    "checked for membership and optimality against the brute-force enumeration. Non-trivial = height >= 2 and "
    "(>= 3 materials or a non-default background). allowed_columns: exhaustive comparison of "
    "compute_allowed_indices with the brute-force set for heights 1..5, 2..4 materials, every background index, "
    "both settings of single_polymer_columns. Distinct = sha1 of the case JSON."
)
ASSUMPTIONS = [
    "padding modes generated: 'constant' and 'edge' (the ones used by the library's own configurations); widths "
    ">= kernel//2 (narrower widths expose the convolution's implicit zero fill, which the docs do not define)",
    "edge/corner padding cells shared by faces with different constants are treated as undefined (either value accepted)",
    "'top end' of a column = high-index end of the axis; 'allowed' is defined by the property text, not by compute_allowed_indices",
    "the input of PillarDiscretization is compared with the materials' inverse permittivities (docstring of "
    "ClosestIndex / nearest_index); metric 'permittivity_differences_plus_average_permittivity' is read as "
    "mean|diff(v) - diff(a)| + |mean(v) - mean(a)| with an empty mean = 0 (height 1)",
    "optimality tolerance 1e-9 (f64) / 1e-5 (f32) absolute on distances of order 1; ties are free",
]

PERMS = list(itertools.permutations(range(3)))


# ------------------------------------------------------------------------------------------------
# median
# ------------------------------------------------------------------------------------------------
def expand_cfg(cfg):
    w = list(cfg["widths"])
    m = list(cfg["modes"])
    v = cfg.get("values")
    if len(w) == 1:
        w = w * 6
    if len(m) == 1:
        m = m * 6
    if v is None:
        v = [0] * 6
    v = list(v)
    if len(v) == 1:
        v = v * 6
    return w, m, v


def pad_in_order(a: np.ndarray, w, m, v, order) -> np.ndarray:
    for ax in order:
        for end in (0, 1):
            e = 2 * ax + end
            pw = [(0, 0)] * 3
            pw[ax] = (0, w[e]) if end else (w[e], 0)
            if m[e] == "constant":
                a = np.pad(a, pw, mode="constant", constant_values=v[e])
            else:
                a = np.pad(a, pw, mode="edge")
    return a


def box_count(p: np.ndarray, shape, w, k) -> np.ndarray:
    """Number of ones in the k-box around every in-domain voxel of the padded array p (brute force)."""
    out = np.zeros(shape, dtype=np.int64)
    h = [kk // 2 for kk in k]
    for dx in range(-h[0], h[0] + 1):
        for dy in range(-h[1], h[1] + 1):
            for dz in range(-h[2], h[2] + 1):
                out += p[
                    w[0] + dx : w[0] + dx + shape[0],
                    w[2] + dy : w[2] + dy + shape[1],
                    w[4] + dz : w[4] + dz + shape[2],
                ]
    return out


def median_bounds(x: np.ndarray, cfg, k, repeats):
    w, m, v = expand_cfg(cfg)
    lo = x.astype(np.int64)
    hi = x.astype(np.int64)
    half = (k[0] * k[1] * k[2]) // 2
    for _ in range(repeats):
        plo = np.minimum.reduce([pad_in_order(lo, w, m, v, o) for o in PERMS])
        phi = np.maximum.reduce([pad_in_order(hi, w, m, v, o) for o in PERMS])
        lo = (box_count(plo, x.shape, w, k) > half).astype(np.int64)
        hi = (box_count(phi, x.shape, w, k) > half).astype(np.int64)
    return lo, hi


@st.composite
def median_case(draw, ctx):
    shape = [draw(st.integers(1, 8)) for _ in range(3)]
    k = []
    for n in shape:
        if n == 1 and draw(st.booleans()):
            k.append(1)
        else:
            k.append(draw(st.sampled_from([1, 3, 3, 3, 5, 5, 7])))
    if max(k) == 1:
        k[draw(st.integers(0, 2))] = 3
    style = draw(st.sampled_from(["uniform", "uniform", "perface", "perface", "shipped"]))
    need = [k[e // 2] // 2 for e in range(6)]
    if style == "shipped":
        which = draw(st.sampled_from(["BOTTOM_Z_PADDING_CONFIG", "BOTTOM_Z_PADDING_CONFIG_REPEAT"]))
        cfg = {"shipped": which}
    else:
        if draw(st.booleans()):
            widths = [max(need) + draw(st.integers(0, 2))]
        else:
            widths = [need[e] + draw(st.integers(0, 2)) for e in range(6)]
        if style == "uniform":
            modes = [draw(st.sampled_from(["constant", "edge"]))]
            values = draw(st.sampled_from([None, [0], [1]]))
        else:
            modes = [draw(st.sampled_from(["constant", "edge"])) for _ in range(6)]
            values = [draw(st.integers(0, 1)) for _ in range(6)]
        cfg = {"widths": widths, "modes": modes, "values": values}
    nvox = shape[0] * shape[1] * shape[2]
    inputs = []
    for _ in range(4):
        if nvox <= 48 and draw(st.integers(0, 2)) == 0:
            inputs.append({"bits": draw(st.lists(st.integers(0, 1), min_size=nvox, max_size=nvox))})
        else:
            inputs.append({"seed": draw(st.integers(0, 2**31 - 1)),
                           "density": draw(st.sampled_from([0.1, 0.3, 0.5, 0.5, 0.7, 0.9]))})
    return {"shape": shape, "kernel": k, "repeats": draw(st.sampled_from([1, 1, 2, 3])), "padding": cfg,
            "dtype": draw(st.sampled_from(["float", "int32"])), "inputs": inputs}


SHIPPED = {
    "BOTTOM_Z_PADDING_CONFIG": {"widths": [10], "modes": ["constant"] * 6, "values": [1, 0, 1, 1, 1, 0]},
    "BOTTOM_Z_PADDING_CONFIG_REPEAT": {"widths": [20], "modes": ["edge", "edge", "edge", "edge", "constant", "edge"],
                                       "values": [1]},
}


def _dummy_init(ctx, t, shape, materials, in_type):
    import jax.numpy as jnp
    import fdtdx

    cfg = fdtdx.SimulationConfig(time=100e-15, grid=fdtdx.UniformGrid(spacing=500e-9), backend="cpu",
                                 dtype=jnp.float64 if ctx.f64 else jnp.float32)
    t = t.init_module(config=cfg, materials=materials, matrix_voxel_grid_shape=tuple(shape),
                      single_voxel_size=(5e-7, 5e-7, 5e-7), output_shape={"params": tuple(shape)})
    return t.init_type({"params": in_type})


def body_median(ctx, case):
    import jax
    import jax.numpy as jnp
    import fdtdx
    from fdtdx.core.misc import PaddingConfig
    from fdtdx.objects.device.parameters import discrete
    from fdtdx.typing import ParameterType

    shape = tuple(case["shape"])
    k = list(case["kernel"])
    pc = case["padding"]
    if "shipped" in pc:
        padding_cfg = getattr(discrete, pc["shipped"])
        ocfg = SHIPPED[pc["shipped"]]
        # the oracle's copy of the shipped configuration is checked against the library constant
        w, m, v = expand_cfg(ocfg)
        lw, lm, lv = expand_cfg({"widths": padding_cfg.widths, "modes": padding_cfg.modes, "values": padding_cfg.values})
        if (w, m) != (lw, lm) or any(m[e] == "constant" and v[e] != lv[e] for e in range(6)):
            raise Skip()
    else:
        ocfg = pc
        kw = {"widths": tuple(pc["widths"]), "modes": tuple(pc["modes"])}
        if pc["values"] is not None:
            kw["values"] = tuple(pc["values"])
        padding_cfg = PaddingConfig(**kw)
    materials = {"poly": fdtdx.Material(permittivity=2.4), "air": fdtdx.Material(permittivity=1.0)}
    t = discrete.BinaryMedianFilterModule(padding_cfg=padding_cfg, kernel_sizes=tuple(k), num_repeats=case["repeats"])
    t = _dummy_init(ctx, t, shape, materials, ParameterType.BINARY)
    fn = jax.jit(lambda a: t({"params": a})["params"])
    dt = jnp.int32 if case["dtype"] == "int32" else (jnp.float64 if ctx.f64 else jnp.float32)

    w, m, v = expand_cfg(ocfg)
    mixed = len({(m[e], v[e] if m[e] == "constant" else None) for e in range(6)}) > 1
    ctx.classify("kernel=" + "x".join(map(str, k)), "repeats=%d" % case["repeats"], "dtype=" + case["dtype"],
                 "padding=" + ("shipped" if "shipped" in pc else ("perface" if mixed else "uniform")))
    nontrivial = False
    for inp in case["inputs"]:
        if "bits" in inp:
            x = np.array(inp["bits"], dtype=np.int64).reshape(shape)
        else:
            x = (np.random.default_rng(inp["seed"]).random(shape) < inp["density"]).astype(np.int64)
        out = np.asarray(fn(jnp.asarray(x, dtype=dt)))
        ctx.check(out.shape == shape, "median output shape differs", observed=list(out.shape), expected=list(shape))
        lo, hi = median_bounds(x, ocfg, k, case["repeats"])
        got = np.asarray(out, dtype=np.float64)
        bad = (got < lo) | (got > hi) | ~np.isin(got, [0.0, 1.0])
        undecided = int((lo != hi).sum())
        if undecided:
            ctx.classify("has_order_dependent_voxels")
        ctx.metric("order_dependent_voxel_fraction", undecided / x.size)
        if (lo != x).any() or (lo.min() != lo.max()):
            nontrivial = True
        if (lo != x).any():
            ctx.classify("filter_changes_input")
        if bad.any():
            i = tuple(int(q) for q in np.argwhere(bad)[0])
            ctx.check(False, f"median filter differs from the box majority at {int(bad.sum())} of {x.size} voxels "
                             f"(first {i}: got {got[i]}, majority {int(lo[i])}..{int(hi[i])}); kernel {k}, repeats "
                             f"{case['repeats']}, padding {ocfg}", observed=float(got[i]), expected=int(lo[i]))
    ctx.nontrivial(nontrivial and max(k) > 1)


# ------------------------------------------------------------------------------------------------
# pillar
# ------------------------------------------------------------------------------------------------
EPS_PALETTE = [1.0, 1.5, 2.25, 4.0, 6.25, 11.7]
NAMES = ["m_air", "m_b", "m_c", "m_d"]


def allowed_columns(n_mat: int, height: int, bg: int, single: bool) -> list[tuple[int, ...]]:
    out = []
    for col in itertools.product(range(n_mat), repeat=height):
        first_bg = next((i for i, c in enumerate(col) if c == bg), height)
        if any(c != bg for c in col[first_bg:]):
            continue  # background below non-background: not only at the top end
        if single and len({c for c in col if c != bg}) > 1:
            continue
        out.append(col)
    return out


def column_distance(v: np.ndarray, a: np.ndarray, metric: str) -> float:
    if metric == "euclidean":
        return float(np.sqrt(((v - a) ** 2).sum()))
    dd = np.abs(np.diff(v) - np.diff(a))
    return float((dd.mean() if dd.size else 0.0) + abs(v.mean() - a.mean()))


@st.composite
def pillar_case(draw, ctx):
    n_mat = draw(st.sampled_from([2, 3, 3, 4]))
    eps = draw(st.permutations(EPS_PALETTE))[:n_mat]  # dictionary order = drawn order (not sorted)
    axis = draw(st.integers(0, 2))
    height = draw(st.sampled_from([1, 2, 3, 3, 4, 5]))
    shape = [draw(st.integers(1, 4)) for _ in range(3)]
    shape[axis] = height
    bg = draw(st.sampled_from([None, None] + list(range(n_mat))))  # position in the dictionary, None = default
    inputs = [{"seed": draw(st.integers(0, 2**31 - 1)),
               "mode": draw(st.sampled_from(["uniform", "uniform", "snapped", "near", "allowed"]))} for _ in range(4)]
    return {"eps": list(eps), "axis": axis, "shape": shape, "background": bg,
            "single": draw(st.booleans()),
            "metric": draw(st.sampled_from(["euclidean", "permittivity_differences_plus_average_permittivity"])),
            "inputs": inputs}


def body_pillar(ctx, case):
    import jax
    import jax.numpy as jnp
    import fdtdx
    from fdtdx.objects.device.parameters.discretization import PillarDiscretization
    from fdtdx.typing import ParameterType

    eps = case["eps"]
    n_mat = len(eps)
    names = NAMES[:n_mat]
    materials = {nm: fdtdx.Material(permittivity=e) for nm, e in zip(names, eps)}
    order = sorted(range(n_mat), key=lambda i: eps[i])  # material index -> dictionary position
    inv = np.array([1.0 / eps[i] for i in order])  # inverse permittivity per material index (ascending permittivity)
    bg_pos = case["background"]
    bg_idx = 0 if bg_pos is None else order.index(bg_pos)
    axis, shape, single, metric = case["axis"], tuple(case["shape"]), case["single"], case["metric"]
    height = shape[axis]

    t = PillarDiscretization(axis=axis, single_polymer_columns=single, distance_metric=metric,
                             background_material=None if bg_pos is None else names[bg_pos])
    t = _dummy_init(ctx, t, shape, materials, ParameterType.CONTINUOUS)
    fn = jax.jit(lambda a: t({"params": a})["params"])
    fdt = jnp.float64 if ctx.f64 else jnp.float32

    allowed = allowed_columns(n_mat, height, bg_idx, single)
    allowed_set = set(allowed)
    allowed_vals = inv[np.array(allowed, dtype=np.int64)]  # (n_allowed, height)
    ctx.classify("materials=%d" % n_mat, "height=%d" % height, "axis=%d" % axis, "metric=" + metric[:9],
                 "single" if single else "multi", "bg=default" if bg_pos is None else ("bg=idx%d" % bg_idx))
    ctx.nontrivial(height >= 2 and (n_mat >= 3 or bg_idx != 0))
    tol = ctx.tol(1e-9, 1e-5)
    for inp in case["inputs"]:
        rng = np.random.default_rng(inp["seed"])
        mode = inp["mode"]
        if mode == "uniform":
            x = rng.uniform(inv.min() - 0.15, inv.max() + 0.15, shape)
        elif mode == "allowed":
            cols = rng.integers(0, len(allowed), size=[n for a, n in enumerate(shape) if a != axis])
            x = np.moveaxis(allowed_vals[cols], -1, axis)
        else:
            x = inv[rng.integers(0, n_mat, shape)]
            if mode == "near":
                x = x + rng.normal(0, 0.04, shape)
        xj = jnp.asarray(x, dtype=fdt)
        xv = np.asarray(xj, dtype=np.float64)  # the values the transform actually sees
        out = np.asarray(fn(xj))
        ctx.check(out.shape == shape, "pillar output shape differs", observed=list(out.shape), expected=list(shape))
        got = np.asarray(out, dtype=np.float64)
        ctx.check(bool(np.isin(got, np.arange(n_mat)).all()), "pillar output is not an array of material indices",
                  observed=np.unique(got).tolist()[:8], expected=list(range(n_mat)))
        gcols = np.moveaxis(got, axis, -1).reshape(-1, height).astype(np.int64)
        vcols = np.moveaxis(xv, axis, -1).reshape(-1, height)
        for ci in range(gcols.shape[0]):
            col = tuple(int(c) for c in gcols[ci])
            ctx.check(col in allowed_set,
                      f"output column {col} is not allowed (background index {bg_idx} only at the top end"
                      f"{', one non-background material per column' if single else ''}); axis {axis}, column #{ci}",
                      observed=list(col), expected="allowed column")
            dists = np.array([column_distance(vcols[ci], allowed_vals[j], metric) for j in range(len(allowed))])
            dgot = column_distance(vcols[ci], inv[np.array(col)], metric)
            ctx.metric("excess_distance", dgot - dists.min())
            if not (dgot <= dists.min() + tol):
                best = allowed[int(np.argmin(dists))]
                ctx.check(False, f"output column {col} has {metric} distance {dgot:.6g} to the input column "
                                 f"{vcols[ci].round(4).tolist()}, but allowed column {best} has {dists.min():.6g}; axis {axis}, "
                                 f"inverse permittivities {inv.round(4).tolist()}", observed=dgot, expected=float(dists.min()),
                          tolerance=tol)
        if mode == "allowed":
            ctx.classify("input_is_allowed_column")


# ------------------------------------------------------------------------------------------------
# allowed-column enumeration (exhaustive)
# ------------------------------------------------------------------------------------------------
def allowed_cases(ctx):
    for height in range(1, 6):
        for n_mat in (2, 3, 4):
            for bg in range(n_mat):
                for single in (False, True):
                    yield {"height": height, "n_mat": n_mat, "bg": bg, "single": single}


def body_allowed(ctx, case):
    from fdtdx.objects.device.parameters.utils import compute_allowed_indices

    got = np.asarray(compute_allowed_indices(num_layers=case["height"], indices=list(range(case["n_mat"])),
                                             fill_holes_with_index=[case["bg"]],
                                             single_polymer_columns=case["single"]))
    ctx.check(got.ndim == 2 and got.shape[1] == case["height"], "allowed index array has the wrong shape",
              observed=list(got.shape), expected=["n", case["height"]])
    gs = {tuple(int(c) for c in row) for row in got}
    es = set(allowed_columns(case["n_mat"], case["height"], case["bg"], case["single"]))
    ctx.classify("single" if case["single"] else "multi", "materials=%d" % case["n_mat"])
    ctx.nontrivial(case["height"] >= 2 and case["n_mat"] >= 3)
    ctx.check(gs == es, f"allowed columns differ from the definition: {len(gs - es)} extra (e.g. {sorted(gs - es)[:3]}), "
                        f"{len(es - gs)} missing (e.g. {sorted(es - gs)[:3]})", observed=len(gs), expected=len(es))


SUBS = [
    Sub(name="median", body=body_median, strategy=lambda ctx: median_case(ctx), quick=60, thorough=4000,
        lanes=("f64", "f32"), f32_fraction=0.25, rule="voxelwise brute-force box majority under the configured padding"),
    Sub(name="pillar", body=body_pillar, strategy=lambda ctx: pillar_case(ctx), quick=60, thorough=4000,
        lanes=("f64", "f32"), f32_fraction=0.25, rule="every output column is allowed and distance-optimal"),
    Sub(name="allowed_columns", body=body_allowed, cases=allowed_cases, lanes=("f64",), exhaustive=True,
        exhaustive_quick=True, rule="compute_allowed_indices == brute-force set, heights 1..5, 2..4 materials"),
]
KNOWN_CLASSES = {}
