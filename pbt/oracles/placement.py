"""Independent model of fdtdx object placement (C26 / C27): case format, fdtdx builder, satisfaction predicate,
generators.

A *system* is a JSON dict

    {"grid": {"kind": "uniform", "spacing": d, "shape": [nx, ny, nz], "vol": "gs" | "rs"}
           | {"kind": "quasi", "d": [dx, dy, dz], "shape": [...]}
           | {"kind": "rect", "edges": [[...], [...], [...]], "vol": "gs" | "rs"},
     "objects": [{"name": "o1", "gs": [n|None]*3, "rs": [L|None]*3, "rp": [x|None]*3}, ...],
     "constraints": [item, ...]}

Object index 0 is the simulation volume ("vol"), index k >= 1 is ``objects[k-1]``.  Items (``o`` = constrained object,
``r`` = referenced object):

    {"t": "pos",  "o", "r", "ax": [..], "own": [..], "oth": [..], "m": [..], "gm": [..], "via": builder name}
    {"t": "size", "o", "r", "ax": [..], "oax": [..], "p": [..], "off": [..], "goff": [..], "via": "rel" | "same"}
    {"t": "ext",  "o", "r" (or None), "axis", "dir": "+"|"-", "op": float|None, "off", "goff"}
    {"t": "gc",   "o", "ax": [..], "sides": [..], "c": [int..]}
    {"t": "rc",   "o", "ax": [..], "sides": [..], "c": [float..]}
    {"t": "pas",  "o", "r", "ax": [..]}          same_position_and_size -> (size, pos) constraints

The *semantic* fields (axes, anchors, margins, ...) are what the oracle reads; ``via`` only selects which builder
method of ``SimulationObject`` produces the constraint (place_above, face_to_face_*, place_at_center, same_size, ...),
so a builder that does not mean what its docstring says is caught as well.

The satisfaction predicate (``verify``) is written from the constraint docstrings and DESIGN §9: it only looks at the
final slices and at the *stored* edge coordinates (data) and never calls ``bounds_for_anchor`` / ``coord_to_index`` /
``anchor_coordinate`` / ``axis_extent``.
"""

from __future__ import annotations

import itertools

import numpy as np
from hypothesis import strategies as st

VOL = "vol"


# ----------------------------------------------------------------------------------------------------------------
# helpers on the case
# ----------------------------------------------------------------------------------------------------------------
def names(case):
    return [VOL] + [o["name"] for o in case["objects"]]


def n_flat_constraints(case):
    return sum(2 if c["t"] == "pas" else 1 for c in case["constraints"])


def case_edges(case):
    """float64 edges computed from the case alone (used by the generators; the oracle reads the stored ones)."""
    g = case["grid"] if "grid" in case else case
    if g["kind"] == "uniform":
        return [(np.arange(n + 1) - n / 2.0) * g["spacing"] for n in g["shape"]]
    if g["kind"] == "quasi":
        return [(np.arange(n + 1) - n / 2.0) * d for n, d in zip(g["shape"], g["d"])]
    return [np.asarray(e, dtype=np.float64) for e in g["edges"]]


def widths_uniform(widths):
    """The documented rule of RectilinearGrid: all widths (every axis) equal the first x width within 1e-4 relative.
    The generators only produce grids that are exactly uniform or >= 20 % off, so the tolerance edge is never hit."""
    s = float(widths[0][0])
    return all(float(np.max(np.abs(w - s))) <= 1.0001e-4 * abs(s) for w in widths)


# ----------------------------------------------------------------------------------------------------------------
# case -> fdtdx
# ----------------------------------------------------------------------------------------------------------------
_CFG_CACHE: dict = {}


def _config(case, lane):
    import fdtdx
    import jax.numpy as jnp

    g = case["grid"]
    key = (lane, repr(g))
    if key in _CFG_CACHE:
        return _CFG_CACHE[key]
    if g["kind"] == "uniform":
        grid = fdtdx.UniformGrid(spacing=g["spacing"])
    elif g["kind"] == "quasi":
        grid = fdtdx.QuasiUniformGrid(dx=g["d"][0], dy=g["d"][1], dz=g["d"][2])
    else:
        dt = np.float64 if lane == "f64" else np.float32
        e = [np.asarray(x, dtype=dt) for x in g["edges"]]
        grid = fdtdx.RectilinearGrid(x_edges=e[0], y_edges=e[1], z_edges=e[2])
    cfg = fdtdx.SimulationConfig(
        time=1e-15, grid=grid, backend="cpu", dtype=jnp.float64 if lane == "f64" else jnp.float32
    )
    if len(_CFG_CACHE) > 64:
        _CFG_CACHE.clear()
    _CFG_CACHE[key] = cfg
    return cfg


def _tup(x):
    return tuple(x)


def build(case, lane="f64"):
    """-> (objects [volume first], flat constraint list, unresolved config)."""
    import fdtdx

    g = case["grid"]
    cfg = _config(case, lane)
    ed = case_edges(case)
    shape = tuple(len(e) - 1 for e in ed)
    if g.get("vol", "gs") == "rs":
        ext = g.get("vol_rs") or [float(e[-1] - e[0]) for e in ed]
        vol = fdtdx.SimulationVolume(name=VOL, partial_real_shape=_tup(ext))
    else:
        vol = fdtdx.SimulationVolume(name=VOL, partial_grid_shape=shape)
    mat = fdtdx.Material(permittivity=2.0)
    objs = [vol]
    for o in case["objects"]:
        kw = {}
        if any(v is not None for v in o.get("gs", [None] * 3)):
            kw["partial_grid_shape"] = _tup(o["gs"])
        if any(v is not None for v in o.get("rs", [None] * 3)):
            kw["partial_real_shape"] = _tup(o["rs"])
        if any(v is not None for v in o.get("rp", [None] * 3)):
            kw["partial_real_position"] = _tup(o["rp"])
        objs.append(fdtdx.UniformMaterialObject(name=o["name"], material=mat, **kw))
    cons = []
    for c in case["constraints"]:
        ob = objs[c["o"]]
        t = c["t"]
        if t == "pos":
            r = objs[c["r"]]
            via = c.get("via", "rel")
            ax, own, oth, m, gm = _tup(c["ax"]), _tup(c["own"]), _tup(c["oth"]), _tup(c["m"]), _tup(c["gm"])
            if via == "rel":
                cons.append(ob.place_relative_to(r, axes=ax, own_positions=own, other_positions=oth, margins=m,
                                                 grid_margins=gm))
            elif via == "rel_scalar":  # scalar spelling of a single-axis constraint
                cons.append(ob.place_relative_to(r, axes=ax[0], own_positions=own[0], other_positions=oth[0],
                                                 margins=float(m[0]), grid_margins=int(gm[0])))
            elif via == "above":
                cons.append(ob.place_above(r, margins=m, grid_margins=gm))
            elif via == "below":
                cons.append(ob.place_below(r, margins=m, grid_margins=gm))
            elif via == "f2f+":
                cons.append(ob.face_to_face_positive_direction(r, axes=ax, margins=m, grid_margins=gm))
            elif via == "f2f-":
                cons.append(ob.face_to_face_negative_direction(r, axes=ax, margins=m, grid_margins=gm))
            elif via == "center":
                cons.append(ob.place_at_center(r, axes=ax, margins=m, grid_margins=gm))
            elif via == "center_pos":
                cons.append(ob.place_at_center(r, axes=ax, own_positions=own, other_positions=oth, margins=m,
                                               grid_margins=gm))
            elif via == "same_pos":
                cons.append(ob.same_position(r, axes=ax, margins=m, grid_margins=gm))
            else:
                raise ValueError(via)
        elif t == "size":
            r = objs[c["r"]]
            if c.get("via", "rel") == "same":
                cons.append(ob.same_size(r, axes=_tup(c["ax"]), offsets=_tup(c["off"]), grid_offsets=_tup(c["goff"])))
            else:
                cons.append(ob.size_relative_to(r, axes=_tup(c["ax"]), other_axes=_tup(c["oax"]),
                                                proportions=_tup(c["p"]), offsets=_tup(c["off"]),
                                                grid_offsets=_tup(c["goff"])))
        elif t == "ext":
            r = None if c["r"] is None else objs[c["r"]]
            cons.append(ob.extend_to(r, axis=c["axis"], direction=c["dir"], other_position=c["op"],
                                     offset=c["off"], grid_offset=c["goff"]))
        elif t == "gc":
            cons.append(ob.set_grid_coordinates(axes=_tup(c["ax"]), sides=_tup(c["sides"]), coordinates=_tup(c["c"])))
        elif t == "rc":
            cons.append(fdtdx.RealCoordinateConstraint(object=ob.name, axes=_tup(c["ax"]), sides=_tup(c["sides"]),
                                                       coordinates=_tup(c["c"])))
        elif t == "pas":
            pc, sc = ob.same_position_and_size(objs[c["r"]], axes=_tup(c["ax"]))
            cons.extend([sc, pc])
        else:
            raise ValueError(t)
    return objs, cons, cfg


def solve(case, lane="f64", obj_perm=None, con_perm=None):
    """Run the real solver.  -> (ok, slices {name: ((lo,hi),)*3}, errors, stored edges as float64 arrays)."""
    from fdtdx.fdtd.initialization import _resolve_grid_from_volume, resolve_object_constraints

    objs, cons, cfg = build(case, lane)
    if obj_perm is not None:
        objs = [objs[i] for i in obj_perm]
    if con_perm is not None:
        cons = [cons[i] for i in con_perm]
    cfg = _resolve_grid_from_volume(objs, cfg)
    edges = [np.asarray(cfg.grid.edges(a)).astype(np.float64) for a in range(3)]
    try:
        slices, errors = resolve_object_constraints(objs, cons, cfg)
    except Exception as e:  # noqa: BLE001 - place_objects documents raising on unresolvable input: a failed placement
        return False, {}, {"<raised>": f"{type(e).__name__}: {e}"}, edges
    ok = not any(bool(v) for v in errors.values())
    return ok, slices, errors, edges


# ----------------------------------------------------------------------------------------------------------------
# structure of a system: what determines each (object, axis)
# ----------------------------------------------------------------------------------------------------------------
def sources(case):
    """{(k, axis): {"size": n, "pos": n, "lo": n, "hi": n}} counting the determinations the system states."""
    src = {}

    def s(k, a):
        return src.setdefault((k, a), {"size": 0, "pos": 0, "lo": 0, "hi": 0})

    for i, o in enumerate(case["objects"]):
        k = i + 1
        for a in range(3):
            if o.get("gs", [None] * 3)[a] is not None:
                s(k, a)["size"] += 1
            if o.get("rs", [None] * 3)[a] is not None:
                s(k, a)["size"] += 1
            if o.get("rp", [None] * 3)[a] is not None:
                s(k, a)["pos"] += 1
    for c in case["constraints"]:
        t = c["t"]
        if t == "pos":
            for a in c["ax"]:
                s(c["o"], a)["pos"] += 1
        elif t == "size":
            for a in c["ax"]:
                s(c["o"], a)["size"] += 1
        elif t == "pas":
            for a in c["ax"]:
                s(c["o"], a)["pos"] += 1
                s(c["o"], a)["size"] += 1
        elif t == "ext":
            s(c["o"], c["axis"])["lo" if c["dir"] == "-" else "hi"] += 1
        elif t in ("gc", "rc"):
            for a, sd in zip(c["ax"], c["sides"]):
                s(c["o"], a)["lo" if sd == "-" else "hi"] += 1
    return src


def redundant(sr):
    """True when an (object, axis) states more than the solver can consume without re-checking something:
    two size sources, a position next to two bounds, a position without any size source, a doubly stated bound..."""
    if sr is None:
        return False
    if sr["size"] > 1 or sr["lo"] > 1 or sr["hi"] > 1:
        return True
    if sr["size"] == 1:
        return sr["pos"] + sr["lo"] + sr["hi"] > 1
    return sr["pos"] > 0


def has_inf_extension(case):
    """Some (object, axis) leaves a bound to extension-to-infinity (fewer than two determinations)."""
    src = sources(case)
    for k in range(1, len(case["objects"]) + 1):
        for a in range(3):
            sr = src.get((k, a))
            if sr is None or sr["size"] + sr["pos"] + sr["lo"] + sr["hi"] < 2:
                return True
    return False


# ----------------------------------------------------------------------------------------------------------------
# the satisfaction predicate
# ----------------------------------------------------------------------------------------------------------------
def verify(case, slices, edges, slack_rel=1e-9):
    """-> list of problems; each {"kind", "obj", "axis", "msg", "observed", "expected", "redundant"}."""
    nm = names(case)
    N = [len(e) - 1 for e in edges]
    w = [np.diff(e) for e in edges]
    wmin_all = min(float(x.min()) for x in w)
    slack = [slack_rel * float(x.min()) for x in w]
    uni = widths_uniform(w)
    g = case["grid"]
    if g["kind"] == "uniform":
        delta = float(g["spacing"])
    elif g["kind"] == "quasi":
        delta = float(g["d"][0])
    else:
        delta = float(w[0][0])
    src = sources(case)
    out = []

    def bad(kind, k, a, msg, observed=None, expected=None):
        out.append({"kind": kind, "obj": nm[k], "axis": a, "msg": f"{kind}: {nm[k]} axis {a}: {msg}",
                    "observed": observed, "expected": expected, "redundant": redundant(src.get((k, a)))})

    # --- shape of the answer, volume, bounds -----------------------------------------------------------------
    exp_shape = [len(e) - 1 for e in case_edges(case)]
    if N != exp_shape:
        out.append({"kind": "grid", "obj": VOL, "axis": -1, "msg": f"resolved grid shape {N} != {exp_shape}",
                    "observed": N, "expected": exp_shape, "redundant": False})
        return out
    for k, name in enumerate(nm):
        if name not in slices:
            out.append({"kind": "missing", "obj": name, "axis": -1, "msg": f"no slice for {name}", "observed": None,
                        "expected": None, "redundant": False})
    if out:
        return out
    S = {k: slices[name] for k, name in enumerate(nm)}
    for k in range(len(nm)):
        for a in range(3):
            lo, hi = S[k][a]
            if not (isinstance(lo, (int, np.integer)) and isinstance(hi, (int, np.integer))):
                bad("unresolved", k, a, f"bounds {lo},{hi}", [lo, hi])
            elif k == 0 and (lo, hi) != (0, N[a]):
                bad("volume", k, a, f"volume spans {(lo, hi)} instead of (0, {N[a]})", [lo, hi], [0, N[a]])
            elif not (0 <= lo < hi <= N[a]):
                bad("bounds", k, a, f"slice {(lo, hi)} not inside (0, {N[a]}) with positive size", [lo, hi], [0, N[a]])
    if out:
        return out

    def anchor(k, a, p):
        lo, hi = S[k][a]
        e = edges[a]
        return float(e[lo] + 0.5 * (p + 1.0) * (e[hi] - e[lo]))

    def nearest_edge(k, a, side, x, kind):
        b = S[k][a][0 if side == "-" else 1]
        d = np.abs(edges[a] - x)
        if not d[b] <= d.min() + slack[a]:
            bad(kind, k, a, f"bound '{side}' = edge {b} (distance {d[b]:.6g}) is not a nearest edge to {x:.9g} "
                f"(edge {int(np.argmin(d))}, distance {d.min():.6g})", int(b), int(np.argmin(d)))

    def size_rule(k, a, L, kind):
        n = S[k][a][1] - S[k][a][0]
        c = edges[a] - edges[a][0]
        if uni:
            d = np.abs(c - L)
            if not d[n] <= d.min() + slack[a]:
                bad(kind, k, a, f"size {n} cells is not a nearest cell count for length {L:.9g} "
                    f"(nearest {int(np.argmin(d))})", int(n), int(np.argmin(d)))
        else:
            # documented rule on stretched grids (_real_length_to_grid_size): number of cells, counted from the
            # lower domain edge, that covers L (upper snapping), exact edge alignment tolerated, clamped to the axis.
            tol = 2e-6 * wmin_all
            covers = c[n] >= L - tol
            minimal = n == 0 or c[n - 1] < L + tol
            clamped = n == N[a] and c[n] < L + tol
            if not ((covers and minimal) or clamped):
                exp = int(min(np.searchsorted(c, L - tol, side="left"), N[a]))
                bad(kind, k, a, f"size {n} cells is not the covering cell count for length {L:.9g} "
                    f"(edges from the lower domain edge: covering count {exp})", int(n), exp)

    def interval_opt(k, a, x, p, kind, what):
        lo, hi = S[k][a]
        n = hi - lo
        e = edges[a]
        cl = np.arange(0, N[a] - n + 1)
        anc = e[cl] + 0.5 * (p + 1.0) * (e[cl + n] - e[cl])
        d = np.abs(anc - x)
        da = abs(anchor(k, a, p) - x)
        if not da <= d.min() + slack[a]:
            j = int(np.argmin(d))
            bad(kind, k, a, f"{what}: interval {(lo, hi)} has its anchor(p={p}) {da:.6g} away from {x:.9g}; interval "
                f"{(j, j + n)} of the same size is closer ({d.min():.6g})", [int(lo), int(hi)], [j, j + n])
        return da, float(d.min())

    info = {"clamped": 0, "max_dev_cells": 0.0}

    # --- object attributes --------------------------------------------------------------------------------------
    for i, o in enumerate(case["objects"]):
        k = i + 1
        for a in range(3):
            gs = o.get("gs", [None] * 3)[a]
            rs = o.get("rs", [None] * 3)[a]
            rp = o.get("rp", [None] * 3)[a]
            n = S[k][a][1] - S[k][a][0]
            if gs is not None and n != gs:
                bad("grid_shape", k, a, f"size {n} != partial_grid_shape {gs}", int(n), int(gs))
            if rs is not None:
                size_rule(k, a, float(rs), "real_shape")
            if rp is not None:
                x = float(rp) + 0.5 * (float(edges[a][0]) + float(edges[a][-1]))
                interval_opt(k, a, x, 0.0, "real_position", "partial_real_position (centre)")
            if src.get((k, a)) is None and S[k][a] != (0, N[a]):
                bad("unconstrained", k, a, f"unconstrained axis spans {S[k][a]} instead of (0, {N[a]})",
                    list(S[k][a]), [0, N[a]])

    # --- constraints --------------------------------------------------------------------------------------------
    for c in case["constraints"]:
        t = c["t"]
        k = c["o"]
        if t in ("pos", "pas"):
            r = c["r"]
            for i, a in enumerate(c["ax"]):
                own = float(c["own"][i]) if t == "pos" else 0.0
                oth = float(c["oth"][i]) if t == "pos" else 0.0
                m = (c["m"][i] or 0.0) if t == "pos" else 0.0
                gm = (c["gm"][i] or 0) if t == "pos" else 0
                x = anchor(r, a, oth) + float(m) + (gm * delta if gm else 0.0)
                da, dmin = interval_opt(k, a, x, own, "position", f"position relative to {nm[r]}")
                info["max_dev_cells"] = max(info["max_dev_cells"], da / float(w[a].max()))
                if da > 0.75 * float(w[a].max()):
                    info["clamped"] += 1
        if t in ("size", "pas"):
            r = c["r"]
            for i, a in enumerate(c["ax"]):
                oa = c["oax"][i] if t == "size" else a
                p = float(c["p"][i]) if t == "size" else 1.0
                off = (c["off"][i] or 0.0) if t == "size" else 0.0
                goff = (c["goff"][i] or 0) if t == "size" else 0
                lo, hi = S[r][oa]
                L = p * float(edges[oa][hi] - edges[oa][lo]) + float(off) + (goff * delta if goff else 0.0)
                size_rule(k, a, L, "size")
        if t == "ext":
            a = c["axis"]
            if c["r"] is None:
                b = S[k][a][0 if c["dir"] == "-" else 1]
                exp = 0 if c["dir"] == "-" else N[a]
                if b != exp:
                    bad("extension", k, a, f"bound '{c['dir']}' = {b}, expected the volume bound {exp}", int(b), exp)
            else:
                op = c["op"]
                if op is None:  # documented default: the corresponding side of the target
                    op = -1.0 if c["dir"] == "+" else 1.0
                x = anchor(c["r"], a, float(op)) + float(c["off"] or 0.0) + (c["goff"] * delta if c["goff"] else 0.0)
                nearest_edge(k, a, c["dir"], x, "extension")
        if t == "gc":
            for a, sd, v in zip(c["ax"], c["sides"], c["c"]):
                b = S[k][a][0 if sd == "-" else 1]
                if b != v:
                    bad("grid_coordinate", k, a, f"bound '{sd}' = {b} != {v}", int(b), int(v))
        if t == "rc":
            for a, sd, v in zip(c["ax"], c["sides"], c["c"]):
                nearest_edge(k, a, sd, float(v), "real_coordinate")
    verify.last_info = info
    return out


verify.last_info = {}


# ----------------------------------------------------------------------------------------------------------------
# generators
# ----------------------------------------------------------------------------------------------------------------
SPACINGS = [1.0, 0.05, 1e-7, 2.5e-8]
SHAPES = [4, 5, 6, 8, 9, 12]
FACTORS = [0.6, 0.8, 1.0, 1.25, 1.6]
ANCH = [-1.0, 0.0, 1.0, -0.5, 0.5]
FRACS = [0.0, 0.0, 0.25, -0.25, 0.4, -0.4]

_anchor_st = st.one_of(st.sampled_from(ANCH), st.sampled_from(ANCH), st.floats(-1.0, 1.0, allow_nan=False))
_frac_st = st.one_of(st.sampled_from(FRACS), st.floats(-0.45, 0.45, allow_nan=False))


@st.composite
def grid_strategy(draw, kinds=("uniform", "uniform", "rect", "rect", "rectuni", "quasi")):
    # few distinct axis lengths: fdtdx indexes jax edge arrays with python ints, every new (length, index) pair is a
    # 40 ms XLA compilation, so the lengths are kept to a small palette to amortise that over a run
    kind = draw(st.sampled_from(kinds))
    d = draw(st.sampled_from(SPACINGS))
    shape = [draw(st.sampled_from(SHAPES)) for _ in range(3)]
    if kind == "uniform":
        g = {"kind": "uniform", "spacing": d, "shape": shape, "vol": draw(st.sampled_from(["gs", "rs"]))}
        if g["vol"] == "rs":  # round(length / spacing) must give the shape back
            g["vol_rs"] = [(n + draw(st.sampled_from([0.0, 0.0, 0.3, -0.3]))) * d for n in shape]
        return g
    if kind == "quasi":
        shape = [n + (n % 2) for n in shape]
        f = [draw(st.sampled_from([1.0, 1.0, 0.5, 2.0])) for _ in range(3)]
        return {"kind": "quasi", "d": [d * x for x in f], "shape": shape}
    edges = []
    for n in shape:
        if kind == "rectuni":
            wd = np.full(n, d)
        else:
            wd = np.asarray([draw(st.sampled_from(FACTORS)) for _ in range(n)]) * d
        origin = draw(st.sampled_from(["centre", "zero", "shift"]))
        e = np.concatenate([[0.0], np.cumsum(wd)])
        if origin == "centre":
            e = e - e[-1] / 2.0
        elif origin == "shift":
            e = e + 3.3 * d
        edges.append([float(x) for x in e])
    return {"kind": "rect", "edges": edges, "vol": draw(st.sampled_from(["gs", "gs", "rs"]))}


MODES = ["free", "free", "size_pos", "size_pos", "size_pos", "size_side", "size_side", "two_sides", "two_sides",
         "two_sides", "size_only", "trap", "over", "clone"]


class _Gen:
    """Emits the sources of one (object, axis) consistent with a given interval (the planted one, or — for a
    noisy source — a freshly drawn wrong one)."""

    def __init__(self, draw, grid, n_obj, noise):
        self.draw = draw
        self.grid = grid
        self.edges = case_edges(grid)
        self.N = [len(e) - 1 for e in self.edges]
        self.w = [np.diff(e) for e in self.edges]
        self.uni = widths_uniform(self.w)
        self.delta = float(self.w[0][0])
        self.wmin_all = min(float(x.min()) for x in self.w)
        self.n_obj = n_obj
        self.noise = noise  # "none" | "some" | "all"
        self.axis_iv_noise = False
        self.layout = {0: [(0, n) for n in self.N]}
        # (object, axis) whose bounds are known without waiting for an extension-to-infinity round; the solver
        # extends *every* open bound at the first fixpoint, so sources referring to a late axis usually end in a
        # reported inconsistency (or, before the fix of F8, in a silently ignored constraint)
        self.early = {(0, a): True for a in range(3)}
        self.objs = []
        self.cons = []

    # -- draws -------------------------------------------------------------------------------------------------
    def interval(self, a):
        lo = self.draw(st.integers(0, self.N[a] - 1))
        hi = self.draw(st.integers(lo + 1, self.N[a]))
        return lo, hi

    def noisy(self):
        """-> (use a wrong interval for this source, refer to an arbitrary object)."""
        if self.noise == "none":
            return False, False
        if self.noise == "all":
            return self.axis_iv_noise, True
        b = self.draw(st.integers(0, 7)) == 0
        return b, b

    def other(self, k, noisy, a):
        if noisy and self.n_obj > 1:
            r = self.draw(st.integers(0, self.n_obj - 1))
            return r if r < k else r + 1  # any object but k, cycles allowed
        r = self.draw(st.integers(0, k - 1))
        if not self.early.get((r, a), False) and self.draw(st.integers(0, 5)):
            cand = [q for q in range(k) if self.early.get((q, a), False)]
            r = self.draw(st.sampled_from(cand))
        return r

    def lay(self, r, a):
        """Planted interval of object r; objects not laid out yet (noisy forward references) get a random one."""
        if r in self.layout and self.layout[r][a] is not None:
            return self.layout[r][a]
        return self.interval(a)

    def anc(self, a, iv, p):
        e = self.edges[a]
        return float(e[iv[0]] + 0.5 * (p + 1.0) * (e[iv[1]] - e[iv[0]]))

    def split_grid(self, value):
        """Move part of a metric offset into an index-space offset (uniform grids only)."""
        if not self.uni or self.draw(st.integers(0, 2)) != 0:
            return value, 0
        gq = self.draw(st.sampled_from([1, -1, 2, -2, 3]))
        return value - gq * self.delta, gq

    # -- sources -----------------------------------------------------------------------------------------------
    def length_for(self, a, n):
        e = self.edges[a]
        if self.uni:
            f = self.draw(_frac_st)
            if n + f <= 0:
                f = abs(f)
            return (n + f) * float(self.w[a][0])
        f = self.draw(st.sampled_from([0.0, 0.3, 0.9, 0.5]))
        n = max(1, min(n, self.N[a]))
        return float((e[n] - e[0]) - f * (e[n] - e[n - 1]))

    def size_source(self, k, a, iv, o):
        wrong, noisy = self.noisy()
        if wrong:
            iv = self.interval(a)
        n = iv[1] - iv[0]
        kind = self.draw(st.sampled_from(["gs", "rs", "sc", "sc"]))
        if kind == "gs":
            o["gs"][a] = n
            return True
        elif kind == "rs":
            o["rs"][a] = self.length_for(a, n)
            return True
        else:
            oa = a if self.draw(st.integers(0, 3)) else self.draw(st.integers(0, 2))
            r = self.other(k, noisy, oa)
            riv = self.lay(r, oa)
            E = float(self.edges[oa][riv[1]] - self.edges[oa][riv[0]])
            p = self.draw(st.sampled_from([1.0, 1.0, 0.5, 2.0, 0.25, 1.5]))
            off, goff = self.split_grid(self.length_for(a, n) - p * E)
            via = "same" if (p == 1.0 and oa == a and self.draw(st.booleans())) else "rel"
            self.cons.append({"t": "size", "o": k, "r": r, "ax": [a], "oax": [oa], "p": [p], "off": [off],
                              "goff": [goff], "via": via})
            return self.early.get((r, oa), False)

    def pos_source(self, k, a, iv, o):
        wrong, noisy = self.noisy()
        if wrong:
            n = iv[1] - iv[0]
            lo = self.draw(st.integers(0, self.N[a] - n))
            iv = (lo, lo + n)
        wm = float(self.w[a].min())
        if self.draw(st.integers(0, 3)) == 0:
            mid = 0.5 * (self.edges[a][0] + self.edges[a][-1])
            o["rp"][a] = float(self.anc(a, iv, 0.0) - mid + self.draw(_frac_st) * wm)
            return True
        r = self.other(k, noisy, a)
        riv = self.lay(r, a)
        if self.draw(st.integers(0, 2)) == 0:  # the face-to-face / centred pairs the convenience builders stand for
            own, oth = self.draw(st.sampled_from([(-1.0, 1.0), (1.0, -1.0), (0.0, 0.0)]))
        else:
            own = self.draw(_anchor_st)
            oth = self.draw(_anchor_st)
        base = self.anc(a, iv, own) - self.anc(a, riv, oth)
        tie = self.uni and self.draw(st.integers(0, 9)) == 0
        m = base + (0.5 * wm if tie else self.draw(_frac_st) * wm)
        m, gm = self.split_grid(m)
        via = "rel"
        pick = self.draw(st.sampled_from([0, 1, 1, 2]))
        if pick and own == -1.0 and oth == 1.0:
            via = "above" if (a == 2 and pick == 1) else "f2f+"
        elif pick and own == 1.0 and oth == -1.0:
            via = "below" if (a == 2 and pick == 1) else "f2f-"
        elif pick and own == 0.0 and oth == 0.0:
            via = "center" if pick == 1 else "same_pos"
        elif pick == 1:
            via = "center_pos"
        elif pick == 2:
            via = "rel_scalar"
        self.cons.append({"t": "pos", "o": k, "r": r, "ax": [a], "own": [own], "oth": [oth], "m": [m], "gm": [gm],
                          "via": via})
        return self.early.get((r, a), False)

    def side_source(self, k, a, side, iv, allow_inf):
        wrong, noisy = self.noisy()
        if wrong:
            iv = self.interval(a)
        b = iv[0] if side == "-" else iv[1]
        e = self.edges[a]
        opts = ["rc", "eo", "eo"]
        if self.uni:
            opts.append("gc")
        at_wall = (side == "-" and b == 0) or (side == "+" and b == self.N[a])
        if at_wall:
            opts += ["en", "en"]
            if allow_inf:
                opts += ["inf", "inf"]
        kind = self.draw(st.sampled_from(opts))
        if kind == "inf":
            return False
        early = True
        if kind == "gc":
            if wrong:  # also coordinates next to / outside the volume
                b = b + self.draw(st.sampled_from([0, 0, 0, 1, -1, self.N[a]]))
            self.cons.append({"t": "gc", "o": k, "ax": [a], "sides": [side], "c": [int(b)]})
        elif kind == "rc":
            wl = float(e[b] - e[b - 1]) if b > 0 else float(e[1] - e[0])
            wr = float(e[b + 1] - e[b]) if b < self.N[a] else float(e[-1] - e[-2])
            f = self.draw(_frac_st)
            self.cons.append({"t": "rc", "o": k, "ax": [a], "sides": [side],
                              "c": [float(e[b] + f * (wr if f > 0 else wl))]})
        elif kind == "en":
            self.cons.append({"t": "ext", "o": k, "r": None, "axis": a, "dir": side, "op": None, "off": 0.0,
                              "goff": 0})
        else:
            r = self.other(k, noisy, a)
            early = self.early.get((r, a), False)
            riv = self.lay(r, a)
            op = self.draw(st.one_of(st.none(), _anchor_st))
            ope = op if op is not None else (-1.0 if side == "+" else 1.0)
            off = float(e[b]) - self.anc(a, riv, ope) + self.draw(_frac_st) * float(self.w[a].min())
            off, goff = self.split_grid(off)
            self.cons.append({"t": "ext", "o": k, "r": r, "axis": a, "dir": side, "op": op, "off": off,
                              "goff": goff})
        return early

    # -- one object --------------------------------------------------------------------------------------------
    def add_object(self, k):
        o = {"name": f"o{k}", "gs": [None] * 3, "rs": [None] * 3, "rp": [None] * 3}
        self.layout[k] = [None, None, None]
        for a in range(3):
            mode = self.draw(st.sampled_from(MODES))
            N = self.N[a]
            self.early[(k, a)] = False
            # free systems: half of the axes keep their sources mutually consistent (only the cross-object
            # references are arbitrary), the other half draw every source from its own interval
            self.axis_iv_noise = self.noise == "all" and self.draw(st.booleans())
            if mode == "free":
                self.layout[k][a] = (0, N)
                continue
            if mode == "size_only":
                iv = (0, self.draw(st.integers(1, N)))
            elif mode == "clone":
                r = self.draw(st.integers(0, k - 1))
                if not self.early[(r, a)] and self.draw(st.integers(0, 5)):
                    r = 0
                iv = self.layout[r][a]
                self.layout[k][a] = iv
                self.cons.append({"t": "pas", "o": k, "r": r, "ax": [a]})
                self.early[(k, a)] = self.early[(r, a)]
                continue
            else:
                iv = self.interval(a)
            self.layout[k][a] = iv
            side = self.draw(st.sampled_from(["-", "+"]))
            if mode == "size_only":
                self.size_source(k, a, iv, o)
            elif mode == "size_pos":
                e1 = self.size_source(k, a, iv, o)
                e2 = self.pos_source(k, a, iv, o)
                self.early[(k, a)] = e1 and e2
            elif mode == "size_side":
                e1 = self.size_source(k, a, iv, o)
                e2 = self.side_source(k, a, side, iv, False)
                self.early[(k, a)] = e1 and e2
            elif mode == "two_sides":
                e1 = self.side_source(k, a, "-", iv, True)
                e2 = self.side_source(k, a, "+", iv, True)
                self.early[(k, a)] = e1 and e2
            elif mode == "trap":  # position + one bound, no size source (consistent, but see F8)
                self.pos_source(k, a, iv, o)
                self.side_source(k, a, side, iv, False)
            elif mode == "over":  # consistent over-determination
                e1 = self.size_source(k, a, iv, o)
                e2 = self.pos_source(k, a, iv, o)
                e3 = self.side_source(k, a, side, iv, False)
                self.early[(k, a)] = e1 and e2 and e3
        self.objs.append(o)


def _merge(draw, cons):
    """Randomly merge single-axis constraints of the same kind/objects into multi-axis ones."""
    out = []
    for c in cons:
        tgt = None
        if c["t"] in ("pos", "size", "gc", "rc", "pas") and c.get("via", "rel") == "rel":
            for d in out:
                if (d["t"] == c["t"] and d.get("via", "rel") == "rel" and d["o"] == c["o"]
                        and d.get("r") == c.get("r") and c["ax"][0] not in d["ax"]):
                    tgt = d
                    break
        if tgt is not None and draw(st.booleans()):
            for key in ("ax", "own", "oth", "m", "gm", "oax", "p", "off", "goff", "sides", "c"):
                if key in c:
                    tgt[key] = tgt[key] + c[key]
        else:
            out.append(c)
    return out


@st.composite
def system_strategy(draw, noise="none", max_objects=8, grid_kinds=None):
    grid = draw(grid_strategy(kinds=grid_kinds) if grid_kinds else grid_strategy())
    n = draw(st.sampled_from([m for m in (1, 2, 2, 3, 3, 4, 4, 5, 6, 7, 8) if m <= max_objects]))
    gen = _Gen(draw, grid, n, noise)
    for k in range(1, n + 1):
        gen.add_object(k)
    cons = _merge(draw, gen.cons)
    return {"grid": grid, "objects": gen.objs, "constraints": cons,
            "planted": [[list(iv) for iv in gen.layout[k]] for k in range(1, n + 1)] if noise == "none" else None}


@st.composite
def orders_strategy(draw, case, k=1):
    """k pairs (object permutation, flat constraint permutation)."""
    no = len(case["objects"]) + 1
    nc = n_flat_constraints(case)
    return [[draw(st.permutations(list(range(no)))), draw(st.permutations(list(range(nc))))] for _ in range(k)]


# ----------------------------------------------------------------------------------------------------------------
# bounded exhaustive family: one axis (z), 6 cells, two objects, a small palette of items per object
# ----------------------------------------------------------------------------------------------------------------
SMALL_N = 6


def small_palette(k, r):
    """Items object k (1 or 2) may carry; r is the other object."""
    pal = []
    for n in (2, 3):
        pal.append(("gs", n))
    for sd in ("-", "+"):
        for v in (1, 4):
            pal.append(("gc", sd, v))
    for ref in (0, r):
        for own, oth in ((-1.0, 1.0), (1.0, -1.0), (0.0, 0.0)):
            pal.append(("pos", ref, own, oth))
    for ref in (None, r):
        for sd in ("-", "+"):
            pal.append(("ext", ref, sd))
    pal.append(("size", r, 1.0))
    pal.append(("size", 0, 0.5))
    return pal


def small_system(items1, items2):
    objs = [{"name": "a", "gs": [None] * 3, "rs": [None] * 3, "rp": [None] * 3},
            {"name": "b", "gs": [None] * 3, "rs": [None] * 3, "rp": [None] * 3}]
    cons = []
    for k, items in ((1, items1), (2, items2)):
        for it in items:
            if it[0] == "gs":
                if objs[k - 1]["gs"][2] is not None:
                    return None  # two static sizes cannot be spelled on one object
                objs[k - 1]["gs"][2] = it[1]
            elif it[0] == "gc":
                cons.append({"t": "gc", "o": k, "ax": [2], "sides": [it[1]], "c": [it[2]]})
            elif it[0] == "pos":
                cons.append({"t": "pos", "o": k, "r": it[1], "ax": [2], "own": [it[2]], "oth": [it[3]], "m": [0.0],
                             "gm": [0], "via": "rel"})
            elif it[0] == "ext":
                cons.append({"t": "ext", "o": k, "r": it[1], "axis": 2, "dir": it[2], "op": None, "off": 0.0,
                             "goff": 0})
            elif it[0] == "size":
                cons.append({"t": "size", "o": k, "r": it[1], "ax": [2], "oax": [2], "p": [it[2]], "off": [0.0],
                             "goff": [0], "via": "rel"})
    return {"grid": {"kind": "uniform", "spacing": 1.0, "shape": [2, 2, SMALL_N], "vol": "gs"}, "objects": objs,
            "constraints": cons, "planted": None}


def small_item_sets(k, r, max_items):
    pal = small_palette(k, r)
    sets = [()]
    for m in range(1, max_items + 1):
        sets.extend(itertools.combinations(pal, m))
    return sets


def small_systems(max1, max2):
    """All systems with up to max1 items on object a and up to max2 on object b (a deterministic order)."""
    s1 = small_item_sets(1, 2, max1)
    s2 = small_item_sets(2, 1, max2)
    for i1 in s1:
        for i2 in s2:
            sysm = small_system(i1, i2)
            if sysm is not None:
                yield sysm


# ----------------------------------------------------------------------------------------------------------------
# recognising the "never verified" class (F8 / F9) for KNOWN_CLASSES
# ----------------------------------------------------------------------------------------------------------------
def pinned_system(case, slices, edges):
    """The same system with every object pinned to ``slices`` by coordinate constraints (listed first), plus two
    inert helper objects (``zf`` unconstrained, ``zd`` one cell centred on ``zf``) that cannot be resolved before the
    first extension-to-infinity round and therefore force the solver through one more full pass over all constraints
    with every bound known.  If the solver rejects this system, its own constraint handling regards ``slices`` as
    inconsistent with the constraints, i.e. the plain run returned them without ever checking."""
    nm = names(case)
    pins = []
    for k in range(1, len(nm)):
        sl = slices[nm[k]]
        pins.append({"t": "rc", "o": k, "ax": [0, 1, 2, 0, 1, 2], "sides": ["-", "-", "-", "+", "+", "+"],
                     "c": [float(edges[a][sl[a][0]]) for a in range(3)] + [float(edges[a][sl[a][1]]) for a in range(3)]})
    n = len(nm)
    objs = list(case["objects"]) + [
        {"name": "zf", "gs": [None] * 3, "rs": [None] * 3, "rp": [None] * 3},
        {"name": "zd", "gs": [1, 1, 1], "rs": [None] * 3, "rp": [None] * 3},
    ]
    helper = {"t": "pos", "o": n + 1, "r": n, "ax": [0, 1, 2], "own": [0.0] * 3, "oth": [0.0] * 3, "m": [0.0] * 3,
              "gm": [0] * 3, "via": "center"}
    return {"grid": case["grid"], "objects": objs, "constraints": pins + list(case["constraints"]) + [helper],
            "planted": None}, len(pins)


def verified_verdict(case, lane="f64", obj_perm=None, con_perm=None):
    """-> (plain ok, slices, problems, verified ok).  ``verified ok`` is False when the plain run succeeds with
    slices that violate the predicate *and* the solver itself rejects those slices once forced to re-check."""
    ok, sl, err, ed = solve(case, lane, obj_perm, con_perm)
    if not ok:
        return ok, sl, [], False
    probs = verify(case, sl, ed)
    if not probs or any(p["kind"] in ("grid", "missing", "unresolved", "volume", "bounds") for p in probs):
        return ok, sl, probs, True
    pinned, npin = pinned_system(case, sl, ed)
    nflat = n_flat_constraints(case)
    cp = None
    if con_perm is not None:
        cp = list(range(npin)) + [npin + i for i in con_perm] + [npin + nflat]
    op = None
    if obj_perm is not None:
        op = list(obj_perm) + [len(obj_perm), len(obj_perm) + 1]
    ok2, sl2, err2, _ = solve(pinned, lane, op, cp)
    rejected = (not ok2) and all(not err2.get(z) for z in ("zf", "zd"))
    return ok, sl, probs, not rejected
