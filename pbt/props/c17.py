"""C17 — phasor detectors compute the windowed discrete Fourier transform.

history   A random field history E_k, H_k (k = 0..T-1, T <= 60) is fed step by step through
          ``update_detector_states`` (jit, time step advanced by the check).  Several phasor-type detectors with
          exact_interpolation=False sit in the scene.  Reference model, restated from the docs of phasor.py:

              kept   = every stride-th element of the switch's active steps (counted from the first active step)
              w(k)   = 1 | exp(-(k dt - c)^2 / (2 s^2)) | Tukey(start, end, alpha) evaluated at t = k dt
              P(f)   = scale * sum_{k in kept} w(k) * F_k * exp(+i 2 pi f k dt)
              scale  = 2 / sum_{k in kept} w(k)   (continuous)      or      stride   (pulse)
              stride = dft_subsample, or for "auto": max(1, floor(1 / (12 f_max dt)))

          PhasorPoyntingFluxDetector.compute_poynting_flux == [1/2 in continuous mode] * sum_cells Re(E x H*)_c * area_c,
          negated for direction "-"; ClosedSurfacePhasorPoyntingFluxDetector.compute_net_flux == [1/2] * sum over
          active axes of (max face - min face) of Re(E x H*)_a * area_a, negated for "inward"; its stored face phasors
          equal P on the first / last cell layer of the box.
real_run  a short real run_fdtd with a dipole source: PhasorDetector state == the same reference DFT applied to the
          FieldDetector history of the same region in the same run (production time loop supplies the time steps).
"""

from __future__ import annotations

import math

import numpy as np
from hypothesis import strategies as st

from pbt import scenes
from pbt.engine import Skip, Sub
from pbt.oracles import detectors as od

ID = "C17"
RULE = (
    "Hypothesis draws a 4..6 cells per axis domain (uniform or rectilinear), T in 8..60 steps, a dense gaussian field "
    "history from a drawn seed, and 3..4 detectors out of {PhasorDetector, PhasorPoyntingFluxDetector, "
    "ClosedSurfacePhasorPoyntingFluxDetector}, each with its own box, 1..3 frequencies (periods 4.3..60.5 steps, never a "
    "multiple of 12 so that the 'auto' stride is unambiguous), component subset, dft_subsample in {1..5, 'auto'}, "
    "apodization in {None, GaussianWindow, TukeyWindow(alpha 0/0.3/0.5/1)}, switch in {always, window, window + "
    "interval, explicit step list with gaps}, scaling_mode in {continuous, pulse}, direction / keep_all_components / "
    "orientation / axes. Non-trivial = at least one detector of the case has stride > 1, a window, or a switch with a "
    "gap, and its reference phasor is non-zero. Distinct = sha1 of the case JSON."
)
ASSUMPTIONS = [
    "time of step k is k*dt, exponent sign is +i*omega*t, the window is sampled at k*dt (read from phasor.py docs and "
    "restated in the oracle; frequencies enter the oracle only as period-in-steps, so dt cancels)",
    "the stride thins the list of *active* steps (switch first, then every stride-th), and sum(window) runs over "
    "the kept steps only",
    "window edges are placed off the sample times (half-step offsets), so no sample sits on a Tukey edge",
    "windows whose sum over the kept steps is < 0.05 are skipped (placement raises for non-positive sums by contract)",
    "tolerance: complex128 lane 1e-11 (5e-7 with an apodization window, because fdtdx keeps the window weights and "
    "their sum in float32 regardless of the detector dtype), complex64 lane 3e-5, relative to scale*sum(w)*max|field| "
    "(phasors); 1e-10 (3e-6 windowed) / 2e-4 relative to sum_cells |S| area (fluxes)",
    "exact_interpolation=False in the history sub, so C17 does not depend on the co-location oracle of C15",
]

PERIODS = [4.3, 5.7, 7.31, 9.5, 11.13, 13.9, 17.37, 23.71, 29.3, 37.9, 47.45, 60.5]
PERIODS_LONG = [23.71, 26.9, 33.1, 37.9, 47.45, 52.3, 60.5]


# ----------------------------------------------------------------------------------------------------------------
# reference model
# ----------------------------------------------------------------------------------------------------------------
def resolve_stride(sub, periods):
    if sub == "auto":
        return max(1, math.floor(min(periods) / 12.0))
    return max(1, int(sub))


def window_values(win, T):
    k = np.arange(T, dtype=np.float64)
    if win is None:
        return np.ones(T)
    if win["kind"] == "gauss":
        return np.exp(-((k - win["center"]) ** 2) / (2.0 * win["sigma"] ** 2))
    a, b, alpha = win["start"], win["end"], win["alpha"]
    x = (k - a) / (b - a)
    inside = (x >= 0) & (x <= 1)
    if alpha <= 0:
        return np.where(inside, 1.0, 0.0)
    h = alpha / 2.0
    out = np.ones(T)
    left = x < h
    right = x > 1 - h
    out[left] = 0.5 * (1 + np.cos(np.pi * (x[left] / h - 1)))
    out[right & ~left] = 0.5 * (1 + np.cos(np.pi * ((x[right & ~left] - 1) / h + 1)))
    return np.where(inside, out, 0.0)


def reference_phasor(hist, d, T):
    """hist: (T, 6, nx, ny, nz) region history (Ex..Hz).  -> (phasor (nf, 6, ...), info)"""
    stride = resolve_stride(d["stride"], d["periods"])
    active = scenes.switch_on_steps(d["switch"], T)
    kept = active[::stride]
    w = window_values(d["window"], T)
    wsum = float(sum(w[k] for k in kept))
    scale = 2.0 / wsum if d["scaling"] == "continuous" else float(stride)
    out = np.zeros((len(d["periods"]),) + hist.shape[1:], dtype=np.complex128)
    for fi, P in enumerate(d["periods"]):
        for k in kept:
            out[fi] += w[k] * hist[k] * np.exp(2j * np.pi * k / P)
    gap = len(active) > 0 and (active[-1] - active[0] + 1) != len(active)
    return out * scale, dict(stride=stride, kept=kept, wsum=wsum, scale=scale, gap=gap,
                             bound=scale * wsum * float(np.abs(hist).max()))


def poynting(ph):
    """ph: (nf, 6, ...) -> Re(E x conj(H)) (nf, 3, ...)"""
    E, Hc = ph[:, :3], np.conj(ph[:, 3:])
    return np.stack([E[:, 1] * Hc[:, 2] - E[:, 2] * Hc[:, 1],
                     E[:, 2] * Hc[:, 0] - E[:, 0] * Hc[:, 2],
                     E[:, 0] * Hc[:, 1] - E[:, 1] * Hc[:, 0]], axis=1).real


# ----------------------------------------------------------------------------------------------------------------
# generators
# ----------------------------------------------------------------------------------------------------------------
@st.composite
def _switch(draw, T):
    kind = draw(st.sampled_from(["always", "window", "interval", "fixed", "window"]))
    if kind == "always":
        return {}
    if kind == "fixed":
        m = draw(st.integers(2, min(12, T)))
        return {"fixed_on_time_steps": sorted(draw(st.sets(st.integers(0, T - 1), min_size=m, max_size=m)))}
    a = draw(st.integers(0, T // 2))
    b = draw(st.integers(a + min(4, T - 1 - a), T - 1))
    s = {"start_step": a, "end_step": b}
    if kind == "interval":
        s["interval"] = draw(st.integers(2, 3))
        if not [t for t in range(T) if a <= t <= b and t % s["interval"] == 0]:
            del s["interval"]
    return s


@st.composite
def _window(draw, T, kept):
    """Window placed *on* the kept steps (construction instead of rejection: a window that misses every recorded
    step makes placement raise by contract)."""
    kind = draw(st.sampled_from([None, "gauss", "tukey"]))
    if kind is None:
        return None
    i = draw(st.integers(0, len(kept) - 1))
    if kind == "gauss":
        return {"kind": "gauss", "center": kept[i] + draw(st.sampled_from([0.0, 0.5, 0.25, -0.25])),
                "sigma": draw(st.sampled_from([1.5, 3.0, 6.0, 15.0]))}
    j = draw(st.integers(i, len(kept) - 1))
    m = draw(st.integers(1, 4))
    a = kept[i] - m - 0.5
    b = max(kept[j], kept[i] + 1) + draw(st.integers(1, 4)) + 0.5
    return {"kind": "tukey", "start": a, "end": b, "alpha": draw(st.sampled_from([0.0, 0.3, 0.5, 1.0]))}


@st.composite
def _detector(draw, i, n, T, kind=None):
    kind = kind or draw(st.sampled_from(["phasor", "phasor", "plane", "closed"]))
    stride = draw(st.sampled_from(["auto", 1, 2, "auto", 3, 4, 5, "auto", 2, 3]))
    # 'auto' = floor(period_min / 12): draw long periods there, so that the derived stride is > 1 and sensitive to
    # the oversampling constant
    pool = PERIODS_LONG if stride == "auto" and draw(st.integers(0, 4)) > 0 else PERIODS
    d = {"name": f"d{i}", "kind": kind,
         "periods": sorted(draw(st.sets(st.sampled_from(pool), min_size=1, max_size=3))),
         "stride": stride,
         "switch": draw(_switch(T)), "scaling": draw(st.sampled_from(["continuous", "pulse"]))}
    kept = scenes.switch_on_steps(d["switch"], T)[::resolve_stride(d["stride"], d["periods"])]
    d["window"] = draw(_window(T, kept))
    lo, hi = draw(scenes.box_strategy(n))
    for a in range(3):  # keep boxes small: the reference DFT is a python loop
        hi[a] = min(hi[a], lo[a] + 3)
    if kind == "phasor":
        d["components"] = draw(st.sampled_from([list(od.COMPS), ["Ex", "Hz"], ["Ey", "Hx", "Hy"], ["Ez"], ["Hy"],
                                                ["Ex", "Ey", "Ez", "Hy"]]))
    elif kind == "plane":
        axis = draw(st.integers(0, 2))
        if draw(st.integers(0, 3)) > 0:
            hi[axis] = lo[axis] + 1
        ext = [hi[a] - lo[a] for a in range(3)]
        d.update(axis=axis, direction=draw(st.sampled_from(["+", "-"])), keep_all=draw(st.booleans()),
                 fixed=bool(ext[axis] > 1 or sum(e == 1 for e in ext) != 1 or draw(st.booleans())))
    else:
        d.update(orientation=draw(st.sampled_from(["outward", "outward", "inward"])),
                 axes=draw(st.sampled_from([None, None, None, [0, 1, 2], [0], [1, 2], [2, 0]])))
    d["lo"], d["hi"] = lo, hi
    return d


@st.composite
def _small_scene(draw, T):
    n = [draw(st.integers(4, 6)) for _ in range(3)]
    if draw(st.booleans()):
        grid = {"kind": "rect", "widths": [[draw(st.sampled_from([0.6, 0.75, 1.0, 1.25, 1.6])) for _ in range(n[a])]
                                           for a in range(3)]}
    else:
        grid = {"kind": "uniform"}
    return {"shape": n, "steps": T, "courant": draw(st.sampled_from([0.7, 0.99])), "grid": grid, "faces": {}}


@st.composite
def history_cases(draw, ctx):
    T = draw(st.sampled_from([8, 13, 20, 31, 45, 60]))
    spec = draw(_small_scene(T))
    nd = draw(st.integers(3, 4))
    kinds = ["phasor", draw(st.sampled_from(["plane", "closed"]))] + [None] * (nd - 2)
    dets = [draw(_detector(i, spec["shape"], T, kinds[i])) for i in range(nd)]
    return {"scene": spec, "dets": dets, "seed": draw(st.integers(0, 2**31 - 1))}


# ----------------------------------------------------------------------------------------------------------------
# building phasor-type detectors
# ----------------------------------------------------------------------------------------------------------------
def make_detector(d, dt, cdt, exact):
    import fdtdx

    win = d["window"]
    if win is None:
        ap = None
    elif win["kind"] == "gauss":
        ap = fdtdx.GaussianWindow(center_time=win["center"] * dt, sigma_time=win["sigma"] * dt)
    else:
        ap = fdtdx.TukeyWindow(start_time=win["start"] * dt, end_time=win["end"] * dt, alpha=win["alpha"])
    kw = dict(name=d["name"], wave_characters=tuple(fdtdx.WaveCharacter(period=float(P) * dt) for P in d["periods"]),
              dtype=cdt, scaling_mode=d["scaling"], dft_subsample=d["stride"], apodization=ap,
              switch=scenes._switch(d["switch"], dt, None), exact_interpolation=exact)
    if d["kind"] == "phasor":
        return fdtdx.PhasorDetector(components=tuple(d["components"]), reduce_volume=False, **kw)
    if d["kind"] == "plane":
        return fdtdx.PhasorPoyntingFluxDetector(direction=d["direction"], keep_all_components=d["keep_all"],
                                                fixed_propagation_axis=d["axis"] if d["fixed"] else None, **kw)
    return fdtdx.ClosedSurfacePhasorPoyntingFluxDetector(orientation=d["orientation"],
                                                         axes=None if d["axes"] is None else tuple(d["axes"]), **kw)


def compare_detector(ctx, d, det, state, region_hist, T, w):
    """region_hist: (T, 6, *ext) what the detector was fed on its box."""
    lo, hi = d["lo"], d["hi"]
    ext = [hi[a] - lo[a] for a in range(3)]
    ref, info = reference_phasor(region_hist, d, T)
    # fdtdx stores the per-step window weights (and hence their sum) in float32 whatever the detector dtype, so a
    # windowed phasor carries float32 round-off of the weights (~6e-8 each) even in the complex128 lane
    ptol = ctx.tol(1e-11 if d["window"] is None else 5e-7, 3e-5)
    ftol = ctx.tol(1e-10 if d["window"] is None else 3e-6, 2e-4)
    bound = max(info["bound"], 1e-300)
    tag = f"{d['name']} ({d['kind']}, stride {d['stride']}->{info['stride']}, window " \
          f"{d['window']['kind'] if d['window'] else None}, {d['scaling']}, kept {len(info['kept'])}/{T})"
    ctx.classify("kind=" + d["kind"], "stride=%s" % d["stride"], "window=%s" % (d["window"]["kind"] if d["window"] else "none"),
                 "scaling=" + d["scaling"], "gap" if info["gap"] else "contiguous",
                 "switch=" + ("always" if not d["switch"] else "fixed" if "fixed_on_time_steps" in d["switch"] else
                              "interval" if "interval" in d["switch"] else "window"))
    if d["kind"] == "phasor":
        idx = [od.COMPS.index(c) for c in od.COMPS if c in d["components"]]
        got = np.asarray(state["phasor"])
        want = ref[:, idx]
        ctx.check(got.shape == (1, *want.shape), f"{tag}: phasor state shape {got.shape}", observed=list(got.shape),
                  expected=[1, *want.shape])
        ctx.close(got[0], want, scale=bound, tol=ptol, metric="phasor_err",
                  msg=f"{tag}: accumulated phasor != windowed DFT of the fed history")
    elif d["kind"] == "plane":
        got = np.asarray(state["phasor"])
        ctx.close(got[0], ref, scale=bound, tol=ptol, metric="phasor_err",
                  msg=f"{tag}: accumulated phasor != windowed DFT of the fed history")
        S = poynting(ref)
        if d["direction"] == "-":
            S = -S
        half = 0.5 if d["scaling"] == "continuous" else 1.0
        A = [np.broadcast_to(od.face_areas(w, lo, hi, a), ext) for a in range(3)]
        flux = np.asarray(det.compute_poynting_flux(state))
        if d["keep_all"]:
            terms = np.stack([S[:, c] * A[c] for c in range(3)], axis=1)
        else:
            terms = S[:, d["axis"]] * A[d["axis"]]
        want = half * terms.sum(axis=(-3, -2, -1))
        ctx.check(flux.shape == want.shape, f"{tag}: flux shape {flux.shape}", observed=list(flux.shape), expected=list(want.shape))
        ctx.close(flux, want, scale=max(half * float(np.abs(terms).sum(axis=(-3, -2, -1)).max()), 1e-300), tol=ftol,
                  metric="flux_err", msg=f"{tag}: compute_poynting_flux != [1/2] sum Re(E x H*) . area of the reference phasors")
    else:
        active = [a for a in range(3) if ext[a] > 1] if d["axes"] is None else list(d["axes"])
        S = poynting(ref)
        net = np.zeros(len(d["periods"]))
        mag = np.zeros(len(d["periods"]))
        for a in active:
            A = od.face_areas(w, lo, hi, a)
            for side, sign in (("max", 1.0), ("min", -1.0)):
                sl = [slice(None)] * 5
                sl[a + 2] = slice(-1, None) if side == "max" else slice(0, 1)
                key = f"phasor_axis{a}_{side}"
                ctx.check(key in state, f"{tag}: state lacks {key}", observed=sorted(state))
                ctx.close(np.asarray(state[key])[0], ref[tuple(sl)], scale=bound, tol=ptol, metric="phasor_err",
                          msg=f"{tag}: stored {side} face phasor on axis {a} != windowed DFT of the fed history")
                contrib = S[tuple(sl)][:, a] * A
                net += sign * contrib.sum(axis=(-3, -2, -1))
                mag += np.abs(contrib).sum(axis=(-3, -2, -1))
        extra_keys = sorted(set(state) - {f"phasor_axis{a}_{s}" for a in active for s in ("min", "max")})
        ctx.check(not extra_keys, f"{tag}: unexpected state entries {extra_keys}")
        if d["orientation"] == "inward":
            net = -net
        half = 0.5 if d["scaling"] == "continuous" else 1.0
        got = np.asarray(det.compute_net_flux(state))
        ctx.check(got.shape == net.shape, f"{tag}: net flux shape {got.shape}", observed=list(got.shape))
        ctx.close(got, half * net, scale=max(half * float(mag.max()), 1e-300), tol=ftol, metric="flux_err",
                  msg=f"{tag}: compute_net_flux != [1/2] signed face sum of Re(E x H*) . area of the reference phasors")
    return (info["stride"] > 1 or d["window"] is not None or info["gap"]) and float(np.abs(ref).max()) > 0


def _precheck(dets, T):
    """Skip windows that (nearly) vanish on the kept steps: placement raises for those by contract."""
    for d in dets:
        stride = resolve_stride(d["stride"], d["periods"])
        kept = scenes.switch_on_steps(d["switch"], T)[::stride]
        if not kept or sum(window_values(d["window"], T)[k] for k in kept) < 0.05:
            raise Skip()


def history_body(ctx, case):
    spec, T = case["scene"], case["scene"]["steps"]
    _precheck(case["dets"], T)
    _, cdt = od.lane_dtypes(ctx.lane)
    put = od.placer(spec)

    def extra(cfg, vol):
        objs = [make_detector(d, cfg.time_step_duration, cdt, False) for d in case["dets"]]
        return objs, [put(o, d["lo"], d["hi"]) for o, d in zip(objs, case["dets"])]

    b = scenes.build(spec, ctx.lane, extra_objects=extra)
    od.check_slices(b, {d["name"]: (d["lo"], d["hi"]) for d in case["dets"]})
    n = tuple(spec["shape"])
    fdt = np.float64 if ctx.lane == "f64" else np.float32
    hist = np.random.default_rng(case["seed"]).standard_normal((T, 6, *n)).astype(fdt)
    fwd = od.jit_update(b, False)
    arrays = b.arrays
    for k in range(T):
        arrays = fwd(k, scenes.set_fields(arrays, hist[k, :3], hist[k, 3:]), hist[max(k - 1, 0), 3:])
    w = od.stored_widths(b)
    dets = {d.name: d for d in b.objects.detectors}
    ctx.classify("grid=" + spec["grid"]["kind"], "T=%d" % T)
    nontrivial = False
    for d in case["dets"]:
        reg = hist[(slice(None), slice(None)) + tuple(slice(d["lo"][a], d["hi"][a]) for a in range(3))].astype(np.float64)
        nontrivial |= compare_detector(ctx, d, dets[d["name"]], arrays.detector_states[d["name"]], reg, T, w)
    ctx.nontrivial(nontrivial)


# ----------------------------------------------------------------------------------------------------------------
# real run: phasor state vs DFT of the FieldDetector history of the same run
# ----------------------------------------------------------------------------------------------------------------
@st.composite
def real_cases(draw, ctx):
    T = draw(st.sampled_from([16, 24, 36]))
    spec = draw(_small_scene(T))
    n = spec["shape"]
    spec["faces"] = {f"{s}_{ax}": {"kind": draw(st.sampled_from(["none", "pec", "pmc"]))} for ax in "xyz" for s in ("min", "max")}
    spec["sources"] = [{"type": draw(st.sampled_from(["dipole_e", "dipole_m"])), "name": "src0", "wl_cells": 8.0, "amp": 1.0,
                        "profile": {"kind": "cw"}, "switch": {}, "pos": [draw(st.integers(1, n[a] - 2)) for a in range(3)],
                        "pol": draw(st.integers(0, 2))}]
    lo, hi = draw(scenes.box_strategy(n))
    for a in range(3):
        hi[a] = min(hi[a], lo[a] + 3)
    dets = []
    for i in range(2):
        d = draw(_detector(i, n, T, "phasor"))
        d["lo"], d["hi"] = lo, hi
        if d["window"] is None and resolve_stride(d["stride"], d["periods"]) == 1:
            d["stride"] = draw(st.sampled_from([2, 3, 4]))  # keep the bulk of the (expensive) real runs non-trivial
        dets.append(d)
    return {"scene": spec, "dets": dets, "lo": lo, "hi": hi, "exact": draw(st.booleans())}


def real_body(ctx, case):
    import fdtdx

    spec, T, lo, hi = case["scene"], case["scene"]["steps"], case["lo"], case["hi"]
    _precheck(case["dets"], T)
    fdt, cdt = od.lane_dtypes(ctx.lane)
    put = od.placer(spec)

    def extra(cfg, vol):
        objs = [make_detector(d, cfg.time_step_duration, cdt, case["exact"]) for d in case["dets"]]
        objs.append(fdtdx.FieldDetector(name="hist", dtype=fdt, exact_interpolation=case["exact"], plot=False))
        return objs, [put(o, lo, hi) for o in objs]

    b = scenes.build(spec, ctx.lane, extra_objects=extra)
    od.check_slices(b, {d.name: (lo, hi) for d in b.objects.detectors})
    _, arrays = fdtdx.run_fdtd(arrays=b.arrays, objects=b.objects, config=b.config, key=b.key, show_progress=False)
    hist = np.asarray(arrays.detector_states["hist"]["fields"]).astype(np.float64)  # (T, 6, *ext)
    if hist.shape[0] != T:
        raise RuntimeError(f"history has {hist.shape[0]} rows, expected {T}")
    w = od.stored_widths(b)
    dets = {d.name: d for d in b.objects.detectors}
    ctx.classify("grid=" + spec["grid"]["kind"], "T=%d" % T, "exact" if case["exact"] else "raw", "real_run")
    nontrivial = False
    for d in case["dets"]:
        nontrivial |= compare_detector(ctx, d, dets[d["name"]], arrays.detector_states[d["name"]], hist, T, w)
    ctx.nontrivial(nontrivial and float(np.abs(hist).max()) > 0)


SUBS = [
    Sub(name="history", body=history_body, strategy=lambda ctx: history_cases(ctx), quick=20, thorough=1600,
        lanes=("f64", "f32"), f32_fraction=0.3, quick_shards=2,
        rule="random field history fed through update_detector_states; every phasor-type detector == reference "
             "windowed DFT (stride, window, switch, scaling), plane / closed-surface flux == Re(E x H*) . area"),
    Sub(name="real_run", body=real_body, strategy=lambda ctx: real_cases(ctx), quick=4, thorough=300,
        lanes=("f64", "f32"), f32_fraction=0.25, quick_shards=2,
        rule="run_fdtd with a dipole: PhasorDetector state == reference DFT of the FieldDetector history of the same run"),
]
KNOWN_CLASSES = {}
