#!/bin/bash
# tools/run_all_quick_seed.sh <seed> : every claimed check's quick tier at the given seed, no evidence written
cd /verif
for p in $(python3 -c "import json; print(' '.join(c['property_id'] for c in json.load(open('MANIFEST.json'))['checks']))"); do
  s=$(date +%s); out=$(./check $p --tier quick --seed $1 --no-evidence 2>&1); rc=$?
  echo "$p seed=$1 rc=$rc $(( $(date +%s) - s ))s :: $(echo "$out" | grep '^\[' | tail -1 | cut -c1-200)"
  [ $rc -ne 0 ] && echo "$out" | grep -A1 "^VIOLATION\|HARNESS" | head -8
done
