#!/usr/bin/env python3
"""Regenerates MANIFEST.json from tools/manifest_entries.json (one entry per claimed property) and the
list of not-applicable properties. A property is only listed under checks if pbt/props/<id>.py exists."""
import json, os
V = os.path.dirname(os.path.dirname(os.path.abspath(__file__)))
entries = json.load(open(os.path.join(V, "tools", "manifest_entries.json")))
props = [json.loads(l) for l in open(os.path.join(V, "properties.jsonl"))]
checks, na = [], []
for p in props:
    pid = p["id"]
    e = entries.get(pid)
    if e and "not_applicable" not in e and os.path.exists(os.path.join(V, "pbt", "props", pid.lower() + ".py")):
        checks.append({
            "property_id": pid,
            "quick_cmd": f"./check {pid} --tier quick",
            "thorough_cmd": f"./check {pid} --tier thorough",
            "evidence_file": f"evidence/{pid}.json",
            "replay_cmd_template": f"./check {pid} --replay {{path}}",
            "engine": "pbt",
            "level_claimed": {"category": "exploration", "text": e["text"], "design_ref": e.get("design_ref", "DESIGN.md §3 " + pid)},
            "level_note": e["note"],
            "technique": e["technique"],
        })
    else:
        na.append({"property_id": pid, "reason": (e or {}).get("not_applicable", "check not built yet in this round (planned: see DESIGN.md §3 " + pid + ")")})
m = {
    "version": 1,
    "setup_cmd": "./setup.sh",
    "hooks": {"guard": "FDTDX_VERIF", "enable": "none needed: checks import /repo/src directly (PYTHONPATH), no hook commits exist",
              "baseline_off_cmd": "cd /repo && /venv/bin/python -m pytest -ra -q -p no:cacheprovider --timeout=900 --continue-on-collection-errors",
              "source_commits": [], "add_only": True},
    "engines": [{"name": "pbt", "path": "pbt/", "serves_properties": [c["property_id"] for c in checks],
                 "kind_free_text": "Hypothesis-driven property-based testing (plus bounded exhaustive enumeration) with independent numpy/Fraction oracles; worker processes per float lane; replay files"}],
    "checks": checks,
    "not_applicable": na,
    "notes": "Every check: exit 0 held / exit 1 + VIOLATION line / exit 2 harness error (inconclusive). VERIF_SEED and VERIF_TIER honoured. See DESIGN.md.",
}
json.dump(m, open(os.path.join(V, "MANIFEST.json"), "w"), indent=1)
print(len(checks), "checks,", len(na), "not claimed")
