"""C30 — recorded boundary data decompresses to what was recorded.

A `Recorder` is driven exactly the way the time loop drives it (fdtd/update.py `collect_interfaces` /
`add_interfaces`): `init_state(shapes, T, backend)`, then `compress(values_t, state, t, key)` for t = 0..T-1
(forward pass), then `decompress(state, t, key)` for t = T-1 down to the start step (backward pass, descending).

Oracle (reference model, plain numpy float64/complex128, written from the class docstrings and the property text):
save steps S = {s, s+k, s+2k, ...} ∪ {T-1}; decompress(t) = recorded value if t in S, else the linear
interpolation in *time* between the two enclosing members of S; `DtypeConversion` to a wider dtype is exact,
to a narrower dtype is within that dtype's precision.
"""

from __future__ import annotations

import numpy as np
from hypothesis import strategies as st

from pbt.engine import Skip, Sub

ID = "C30"
RULE = (
    "everyk_exhaustive enumerates every (T, k, start) with 1 <= T <= 40, 1 <= k <= 8, 0 <= start < T (6560 triples; "
    "quick tier: a stratified slice over the strata start {0, <k, >=k, T-1} x k {1, <T, >=T} x last segment "
    "{full, short}) with a random value history whose seed is a fixed function of the triple, pipeline "
    "[LinearReconstructEveryK(k, start)], eager mode. pipelines draws T <= 40, k <= 8, start, 1-2 recorded arrays "
    "(real or complex, random small shapes), a module list from {[], [Dtype], [EveryK], [Dtype, EveryK], "
    "[EveryK, Dtype], [Dtype, EveryK, Dtype]} with widening or narrowing target dtypes and an optional "
    "exclude_filter, and runs compress/decompress under jax.jit with a traced time step like the real loop. "
    "Non-trivial = at least one decompressed step is an interpolated (non-saved) step or a dtype conversion is "
    "active, and T >= 2. Distinct = sha1 of the case JSON."
)
ASSUMPTIONS = [
    "saved steps are start, start+k, ... plus the last step T-1 (LinearReconstructEveryK.init_shapes); 'the two "
    "enclosing saved steps' are the neighbours of t in that set, interpolation is linear in time",
    "only t >= start is asserted (property text); decompress(t < start) is undefined",
    "start < T (otherwise there is nothing to record; init_shapes raises IndexError there)",
    "recorded arrays have the real layout (3, *interface shape); an all-ones shape with a single saved step makes "
    "core/jax/sharding.create_named_sharded_matrix raise StopIteration (no axis to shard) — outside this property",
    "interpolation arithmetic happens in the dtype the values have at that point of the pipeline: tolerance "
    "8*eps(dtype)*(|prev|+|next|) plus 4 smallest-subnormal; saved steps without narrowing must be bit-exact",
    "stacked time filters (two LinearReconstructEveryK in one recorder) are not asserted: their semantics "
    "(interpolation in index space of the outer filter) is not documented",
]

_EPS = {
    "float16": 2.0**-10,
    "bfloat16": 2.0**-7,
    "float32": 2.0**-23,
    "float64": 2.0**-52,
    "complex64": 2.0**-23,
    "complex128": 2.0**-52,
}
_TINY = {
    "float16": 2.0**-24,
    "bfloat16": 2.0**-133,
    "float32": 2.0**-149,
    "float64": 0.0,
    "complex64": 2.0**-149,
    "complex128": 0.0,
}
# (mantissa bits incl. hidden bit, exponent bits): dst holds every value of src exactly iff both are >=
_FMT = {"bfloat16": (8, 8), "float16": (11, 5), "float32": (24, 8), "float64": (53, 11),
        "complex64": (24, 8), "complex128": (53, 11)}


def _is_complex(d):
    return d.startswith("complex")


def _widens(src, dst):
    """dst represents every value of src exactly."""
    if _is_complex(src) != _is_complex(dst):
        return False
    return _FMT[dst][0] >= _FMT[src][0] and _FMT[dst][1] >= _FMT[src][1]


# ------------------------------------------------------------------------------------------------
# reference model
# ------------------------------------------------------------------------------------------------
def save_steps(T, k, s):
    S = list(range(s, T, k))
    if S[-1] != T - 1:
        S.append(T - 1)
    return S


def reference(T, k, s, hist):
    """hist: (T, ...) float64/complex128 -> {t: (expected, prev, next, saved?)} for t in s..T-1."""
    S = save_steps(T, k, s)
    Sset = set(S)
    out = {}
    for t in range(s, T):
        if t in Sset:
            out[t] = (hist[t], hist[t], hist[t], True)
        else:
            p = max(x for x in S if x < t)
            n = min(x for x in S if x > t)
            w = (t - p) / (n - p)
            out[t] = (hist[p] + w * (hist[n] - hist[p]), hist[p], hist[n], False)
    return out


# ------------------------------------------------------------------------------------------------
# driving the real recorder
# ------------------------------------------------------------------------------------------------
def _jdtype(name):
    import jax.numpy as jnp

    return getattr(jnp, name)


def build_modules(mods):
    from fdtdx.interfaces.modules import DtypeConversion
    from fdtdx.interfaces.time_filter import LinearReconstructEveryK

    out = []
    for m in mods:
        if m["type"] == "everyk":
            out.append(LinearReconstructEveryK(k=m["k"], start_recording_after=m["s"]))
        else:
            out.append(DtypeConversion(dtype=_jdtype(m["dtype"]), exclude_filter=tuple(m.get("exclude", []))))
    return out


def make_history(seed, T, arrays):
    """-> {name: (T, *shape) numpy array in the *input* dtype}"""
    import jax.numpy as jnp

    rng = np.random.default_rng(int(seed) & 0xFFFFFFFF)
    hist = {}
    for a in arrays:
        shp = (T, *a["shape"])
        v = rng.normal(size=shp) * a.get("scale", 1.0)
        if _is_complex(a["dtype"]):
            v = v + 1j * rng.normal(size=shp) * a.get("scale", 1.0)
        # cast through jax so bfloat16/float16 rounding is the library's own representation of the input
        hist[a["name"]] = np.asarray(jnp.asarray(v).astype(_jdtype(a["dtype"])))
    return hist


def drive(case, use_jit):
    import jax
    import jax.numpy as jnp
    from fdtdx.interfaces.recorder import Recorder

    T = case["T"]
    rec = Recorder(modules=build_modules(case["mods"]))
    shapes = {a["name"]: jax.ShapeDtypeStruct(tuple(a["shape"]), _jdtype(a["dtype"])) for a in case["arrays"]}
    if case.get("reinit_T"):
        # the recorder was already initialised for a longer run (e.g. a compiled config placed again with a shorter
        # simulation time): initialising the returned recorder again must behave like a fresh one
        rec, _ = rec.init_state(input_shape_dtypes=shapes, max_time_steps=case["reinit_T"], backend="cpu")
    rec, state = rec.init_state(input_shape_dtypes=shapes, max_time_steps=T, backend="cpu")
    hist = make_history(case["seed"], T, case["arrays"])
    key = jax.random.PRNGKey(case["seed"] & 0xFFFF)
    start = max([m["s"] for m in case["mods"] if m["type"] == "everyk"], default=0)

    def comp(values, state, t, key):
        return rec.compress(values=values, state=state, time_step=t, key=key)

    def dec(state, t, key):
        return rec.decompress(state=state, time_step=t, key=key)

    out = {}
    if use_jit:
        comp, dec = jax.jit(comp), jax.jit(dec)
        ctxm = _null()
    else:
        ctxm = jax.disable_jit()
    with ctxm:
        for t in range(T):
            key, sub = jax.random.split(key)
            vals = {n: jnp.asarray(h[t]) for n, h in hist.items()}
            state = comp(vals, state, jnp.asarray(t, dtype=jnp.int32), sub)
        for t in range(T - 1, start - 1, -1):  # the backward pass walks down
            key, sub = jax.random.split(key)
            vals, state = dec(state, jnp.asarray(t, dtype=jnp.int32), sub)
            out[t] = {n: np.asarray(v) for n, v in vals.items()}
    return hist, out, start


class _null:
    def __enter__(self):
        return self

    def __exit__(self, *a):
        return False


def pipeline_precision(mods, arr):
    """-> (eps_saved, eps_interp, tiny): relative precision promised at saved / interpolated steps.

    eps_saved = coarsest dtype a *narrowing* conversion passes the data through (0.0 = bit-exact);
    eps_interp additionally covers the interpolation arithmetic (carried out in the dtype the data has at the
    filter's position in the pipeline) and the final rounding to the recorded dtype."""
    cur = arr["dtype"]
    eps_saved = 0.0
    eps_interp = _EPS[arr["dtype"]]
    tiny = 0.0
    for m in mods:
        if m["type"] == "dtype":
            if any(e in arr["name"] for e in m.get("exclude", [])):
                continue
            if not _widens(cur, m["dtype"]):
                eps_saved = max(eps_saved, _EPS[m["dtype"]])
                tiny = max(tiny, _TINY[m["dtype"]])
            cur = m["dtype"]
        else:
            eps_interp = max(eps_interp, _EPS[cur])
            tiny = max(tiny, _TINY[cur])
    return eps_saved, max(eps_interp, eps_saved), tiny


def check_case(ctx, case, use_jit):
    T = case["T"]
    filt = [m for m in case["mods"] if m["type"] == "everyk"]
    if len(filt) > 1:
        raise Skip()
    k, s = (filt[0]["k"], filt[0]["s"]) if filt else (1, 0)
    hist, out, start = drive(case, use_jit)
    n_interp = 0
    worst = 0.0
    for a in case["arrays"]:
        name = a["name"]
        h = hist[name].astype(np.complex128 if _is_complex(a["dtype"]) else np.float64)
        ref = reference(T, k, s, h)
        eps_saved, eps_interp, tiny = pipeline_precision(case["mods"], a)
        narrowed = eps_saved > 0.0
        for t in range(start, T):
            exp, prev, nxt, saved = ref[t]
            got = out[t][name]
            ctx.check(got.shape == exp.shape, f"decompress({t})['{name}'] has shape {got.shape}, recorded {exp.shape}")
            ctx.check(str(got.dtype) == a["dtype"], f"decompress({t})['{name}'] dtype {got.dtype}, recorded {a['dtype']}",
                      observed=str(got.dtype), expected=a["dtype"])
            g = got.astype(exp.dtype)
            if saved and not narrowed:
                ok = np.array_equal(g, exp)
                ctx.check(ok, f"T={T} k={k} start={s}: decompress({t})['{name}'] at a saved step differs from the "
                              f"recorded value (no narrowing conversion in the pipeline)",
                          observed=_first(g, exp)[0], expected=_first(g, exp)[1], tolerance=0.0)
                continue
            if not saved:
                n_interp += 1
            eps = eps_saved if saved else eps_interp
            bound = 8.0 * eps * (np.abs(prev) + np.abs(nxt)) + 4.0 * tiny
            err = np.abs(g - exp)
            bad = ~(err <= bound)
            if bad.any():
                idx = np.unravel_index(int(np.argmax(np.where(bad, err, -1.0))), err.shape)
                S = save_steps(T, k, s)
                kind = "saved step" if saved else (
                    f"interpolated step between saved steps {max(x for x in S if x < t)} and {min(x for x in S if x > t)}")
                ctx.check(False, f"T={T} k={k} start={s} mods={_mods_str(case['mods'])}: decompress({t})['{name}'] "
                                 f"({kind}) = {_py(g[idx])}, reference model {_py(exp[idx])}",
                          observed=_py(g[idx]), expected=_py(exp[idx]), tolerance=float(bound[idx]))
            scale = float(np.max(np.abs(prev) + np.abs(nxt))) or 1.0
            worst = max(worst, float(err.max()) / scale)
    ctx.metric("max_rel_err", worst)
    return n_interp


def _first(g, exp):
    d = g != exp
    if not d.any():
        return None, None
    idx = np.unravel_index(int(np.argmax(d)), d.shape)
    return _py(g[idx]), _py(exp[idx])


def _py(x):
    x = complex(x)
    return x.real if x.imag == 0 else {"re": x.real, "im": x.imag}


def _mods_str(mods):
    return "[" + ", ".join(("EveryK(%d,%d)" % (m["k"], m["s"])) if m["type"] == "everyk" else "Dtype(%s)" % m["dtype"]
                           for m in mods) + "]"


# ------------------------------------------------------------------------------------------------
# sub 1: exhaustive index arithmetic
# ------------------------------------------------------------------------------------------------
T_MAX, K_MAX = 40, 8


def _triple_case(T, k, s):
    return {
        "T": T,
        "mods": [{"type": "everyk", "k": k, "s": s}],
        "arrays": [{"name": "pml_E", "shape": [3], "dtype": "float64"}],
        "seed": (T * 1000003 + k * 10007 + s * 101 + 12345) & 0x7FFFFFFF,
    }


def _stratum(T, k, s):
    a = "s0" if s == 0 else ("sLast" if s == T - 1 else ("s<k" if s < k else "s>=k"))
    b = "k1" if k == 1 else ("k>=T" if k >= T else "k<T")
    c = "short-last" if (T - 1 - s) % k else "full-last"
    return a, b, c


def enumerate_triples(ctx):
    triples = [(T, k, s) for T in range(1, T_MAX + 1) for k in range(1, K_MAX + 1) for s in range(T)]
    if ctx.tier == "thorough":
        for t in triples:
            yield _triple_case(*t)
        return
    # quick: stratified slice, evenly spaced inside every stratum, rotated by the seed
    strata = {}
    for t in triples:
        strata.setdefault(_stratum(*t), []).append(t)
    per = 4
    for key in sorted(strata):
        lst = strata[key]
        n = min(per, len(lst))
        step = len(lst) / n
        off = (ctx.seed * 7) % max(1, int(step))
        for i in range(n):
            c = _triple_case(*lst[min(len(lst) - 1, int(i * step) + off)])
            if i % 2:  # every other case of the slice runs on a recorder that was initialised before for a longer run
                c = dict(c, reinit_T=c["T"] + 1 + (i + len(key)) % 7)
            yield c


def body_exhaustive(ctx, case):
    T = case["T"]
    m = case["mods"][0]
    ctx.classify(*("%s" % x for x in _stratum(T, m["k"], m["s"])))
    n_interp = check_case(ctx, case, use_jit=False)
    ctx.classify("has-interpolated-step" if n_interp else "all-steps-saved")
    ctx.nontrivial(T >= 2 and n_interp > 0)


# ------------------------------------------------------------------------------------------------
# sub 2: pipelines under jit
# ------------------------------------------------------------------------------------------------
@st.composite
def pipeline_strategy(draw, ctx):
    f64 = ctx.f64
    T = draw(st.integers(2, T_MAX))
    k = draw(st.integers(1, K_MAX))
    s = draw(st.one_of(st.just(0), st.integers(0, T - 1), st.integers(0, min(T - 1, k))))
    layout = draw(st.sampled_from(["none", "D", "F", "F", "DF", "DF", "FD", "FD", "DFD"]))
    in_real = ["float32", "float64"] if f64 else ["float32", "float16"]
    in_cplx = ["complex64", "complex128"] if f64 else ["complex64"]
    cplx = draw(st.integers(0, 3)) == 0
    in_dtype = draw(st.sampled_from(in_cplx if cplx else in_real))
    if cplx:
        targets = ["complex64", "complex128"] if f64 else ["complex64"]
    else:
        targets = ["bfloat16", "float16", "float32"] + (["float64"] if f64 else [])
    n_arr = draw(st.integers(1, 2))
    names = ["pml_E", "pml_H"][:n_arr]
    arrays = []
    for nm in names:
        # like the real interface arrays (3, *interface_grid_shape): leading axis = field component
        shape = [3] + draw(st.lists(st.integers(1, 3), min_size=0, max_size=2))
        arrays.append({"name": nm, "shape": shape, "dtype": in_dtype,
                       "scale": draw(st.sampled_from([1.0, 1.0, 30.0, 1e-2]))})
    mods = []
    for ch in layout if layout != "none" else "":
        if ch == "F":
            mods.append({"type": "everyk", "k": k, "s": s})
        else:
            d = {"type": "dtype", "dtype": draw(st.sampled_from(targets))}
            if n_arr == 2 and draw(st.integers(0, 2)) == 0:
                d["exclude"] = [draw(st.sampled_from(["_H", "_E", "pml_H"]))]
            mods.append(d)
    case = {"T": T, "mods": mods, "arrays": arrays, "seed": draw(st.integers(0, 2**31 - 1))}
    if draw(st.integers(0, 2)) == 0:
        case["reinit_T"] = T + draw(st.integers(1, 9))
    return case


def body_pipeline(ctx, case):
    mods = case["mods"]
    filt = [m for m in mods if m["type"] == "everyk"]
    conv = [m for m in mods if m["type"] == "dtype"]
    a0 = case["arrays"][0]
    ctx.classify("layout=" + ("".join("F" if m["type"] == "everyk" else "D" for m in mods) or "none"),
                 "in=" + a0["dtype"])
    for m in conv:
        ctx.classify("conv=" + ("widen" if _widens(a0["dtype"], m["dtype"]) else "narrow"))
        if m.get("exclude"):
            ctx.classify("exclude_filter")
    if filt:
        ctx.classify("start>0" if filt[0]["s"] > 0 else "start=0", "k=1" if filt[0]["k"] == 1 else "k>1")
    n_interp = check_case(ctx, case, use_jit=True)
    ctx.classify("has-interpolated-step" if n_interp else "all-steps-saved")
    ctx.nontrivial(n_interp > 0 or bool(conv))


def mixed_dtype_cases(ctx):
    """Pipelines whose latent is *mixed-dtype*: a narrowing DtypeConversion that excludes one of two recorded arrays,
    in front of (or around) the every-k filter, so one array is interpolated in half precision and the other in its own
    dtype. Enumerated because the random sub meets this combination in ~2 % of its cases."""
    n = 0
    for k, T in ((3, 8), (4, 11), (5, 11), (7, 16)):
        for s in (0, 1):
            for narrow in ("float16", "bfloat16"):
                for exclude in ("_H", "_E"):
                    for layout in ("DF", "DFD"):
                        n += 1
                        if ctx.tier == "quick" and n % 2:
                            continue
                        mods = [{"type": "dtype", "dtype": narrow, "exclude": [exclude]}, {"type": "everyk", "k": k, "s": s}]
                        if layout == "DFD":
                            mods.append({"type": "dtype", "dtype": "float32"})
                        yield {"T": T, "mods": mods, "seed": 4242 + n + 7919 * ctx.seed, "arrays": [
                            {"name": "pml_E", "shape": [3, 2], "dtype": "float32", "scale": 1.0},
                            {"name": "pml_H", "shape": [3, 2], "dtype": "float32", "scale": 30.0}]}


SUBS = [
    Sub(name="mixed_dtype", body=body_pipeline, cases=mixed_dtype_cases, lanes=("f32",), max_seconds_quick=120.0,
        rule="enumerated mixed-dtype latents: narrowing conversion excluding one of two arrays x every-k filter"),
    Sub(name="everyk_exhaustive", body=body_exhaustive, cases=enumerate_triples, lanes=("f64",),
        exhaustive=True, exhaustive_quick=False, max_seconds_quick=150.0, quick_shards=2,
        rule="all (T<=40, k<=8, start<T) in the thorough tier, stratified slice in the quick tier; random history"),
    Sub(name="pipelines", body=body_pipeline, strategy=lambda ctx: pipeline_strategy(ctx), quick=30, thorough=2400, quick_shards=2,
        lanes=("f64", "f32"), f32_fraction=0.25, max_seconds_quick=150.0,
        rule="random module lists (dtype conversion before/after/around the time filter) under jit"),
]


# ------------------------------------------------------------------------------------------------
# classes of inputs on which the unchanged tree is known to violate the property
# ------------------------------------------------------------------------------------------------
def _filters(case):
    return [(case["T"], m["k"], m["s"]) for m in case.get("mods", []) if m["type"] == "everyk"]


def _f4(case):
    """start > 0 and the first segment [start, min(start+k, T-1)] contains a non-saved step, and the last step
    keeps its own slot (k < T) -> that step is interpolated from time 0 instead of from the start step."""
    return any(s > 0 and k < T and min(s + k, T - 1) - s >= 2 for T, k, s in _filters(case))


def _f4b(case):
    """k >= T with start < T-1: `_time_to_arr_idx[:k] = 0` wipes the slot of the last step, which then
    overwrites slot 0 (the value recorded at the start step)."""
    return any(k >= T and s < T - 1 for T, k, s in _filters(case))


KNOWN_CLASSES = {"F4": _f4, "F4b": _f4b}
