"""C26 — whenever object placement succeeds, the resolved slices satisfy every constraint.

Observation point: ``fdtdx.fdtd.initialization.resolve_object_constraints`` (the pure-Python solver behind
``place_objects``), driven through the builder methods of ``SimulationObject``.  Oracle: ``pbt.oracles.placement.verify``
— a predicate over the final slices and the stored edge coordinates, written from the constraint docstrings
(DESIGN §9): inside the volume with positive size; anchors optimal among the same-size intervals of the axis (ties
free); sizes a nearest (uniform grid) / covering (stretched grid, as documented) cell count; extended bounds and real
coordinates a nearest edge; grid coordinates equal; an axis nothing refers to spans the whole volume.
"""

from __future__ import annotations

import os

from hypothesis import strategies as st

from pbt.engine import Sub
from pbt.oracles import placement as P

ID = "C26"
RULE = (
    "Hypothesis builds constraint systems over 1..8 named UniformMaterialObjects in a volume of 4..12 cells per axis on "
    "a UniformGrid, QuasiUniformGrid or explicit RectilinearGrid (uniform or stretched widths 0.6..1.6 d, centred or "
    "shifted origin). 'planted': a true layout is drawn first and every (object, axis) gets sources consistent with it "
    "(static grid/real shape, SizeConstraint, PositionConstraint through every builder spelling, "
    "partial_real_position, Grid/RealCoordinateConstraint, extend_to an object or the wall, or nothing = extension to "
    "infinity), in modes size+position, size+one bound, two bounds, size only, position+one bound without a size, "
    "consistent over-determination, clone; offsets sit up to 0.45 cell off the exact value, some exactly on a tie, "
    "part of a metric offset is moved into grid_margins/grid_offsets on uniform grids. 'perturbed': one source in eight "
    "is made consistent with a different interval / refers to an arbitrary object (cycles allowed). 'free': every "
    "source is. 'small': all systems of two objects on a 6-cell axis with up to 3+2 items from an 18-item palette. "
    "Objects and constraints are passed in a drawn order. Failed placements are counted but vacuous; non-trivial = "
    "placement succeeded with >= 3 constraints/specifications of >= 2 kinds. Distinct = sha1 of the case JSON."
)
ASSUMPTIONS = [
    "success = no entry of the returned error dict is set (what place_objects uses); an exception escaping "
    "resolve_object_constraints (e.g. a zero-size object with a partial_real_position) is a failed placement",
    "position: the object's anchor is as close to the target as any same-size interval inside the axis allows "
    "(ties free) — a target outside the axis is therefore satisfied by the clamped interval, as "
    "RectilinearGrid.bounds_for_anchor documents",
    "size on a uniform grid: a nearest cell count to proportion*extent(other)+offset+grid_offset*d; on a stretched grid "
    "the documented rule of _real_length_to_grid_size (cells counted from the lower domain edge that cover the "
    "length, exact edge alignment tolerated within 2e-6 of the smallest cell, clamped to the axis)",
    "the object's own partial_grid_shape / partial_real_shape / partial_real_position are read as size / centre-"
    "position constraints (violations are reported under their own kind: grid_shape, real_shape, real_position)",
    "an axis is 'unconstrained' when the object has no static shape/position on it and no constraint names the "
    "object as constrained object on it; half-constrained axes are only required to satisfy what they state",
    "nearest/closest is checked as distance <= minimum + 1e-9 * smallest cell on the stored float64 edges",
]


def _with_order(ctx, noise):
    @st.composite
    def strat(draw):
        sysm = draw(P.system_strategy(noise=noise))
        order = draw(P.orders_strategy(sysm, 1))[0]
        return {"system": sysm, "order": order}

    return strat()


def _kinds(sysm):
    kinds = []
    for o in sysm["objects"]:
        for key in ("gs", "rs", "rp"):
            kinds += [key] * sum(v is not None for v in o.get(key, []))
    for c in sysm["constraints"]:
        kinds += [c["t"]] * (len(c["ax"]) if "ax" in c else 1)
    return kinds


def body(ctx, case):
    sysm = case["system"]
    op, cp = case["order"] if case.get("order") else (None, None)
    ok, slices, errors, edges = P.solve(sysm, ctx.lane, op, cp)
    g = sysm["grid"]
    uni = P.widths_uniform([e[1:] - e[:-1] for e in edges])
    kinds = _kinds(sysm)
    ctx.classify("grid=" + g["kind"] + ("" if uni else "/stretched"), "objects=%d" % len(sysm["objects"]),
                 "success" if ok else "failed(vacuous)")
    if not ok:
        if "<raised>" in errors:
            ctx.classify("failed-by-exception")
        return
    probs = P.verify(sysm, slices, edges)
    info = P.verify.last_info
    ctx.classify(*sorted({"has:" + k for k in kinds}))
    if info.get("clamped"):
        ctx.classify("position-target-outside-axis(clamped)")
    if P.has_inf_extension(sysm):
        ctx.classify("extension-to-infinity")
    ctx.metric("max_anchor_deviation_cells", info.get("max_dev_cells", 0.0))
    ctx.nontrivial(len(kinds) >= 3 and len(set(kinds)) >= 2)
    if probs:
        p = probs[0]
        ctx.check(False, f"placement succeeded but {p['msg']}" + (f" (+{len(probs) - 1} more)" if len(probs) > 1 else ""),
                  observed={"slices": {k: [list(x) for x in v] for k, v in slices.items()}, "value": p["observed"]},
                  expected=p["expected"], tolerance="1e-9 of the smallest cell")


def small_cases(ctx):
    full = ctx.tier == "thorough"
    stride = 1 if full else 97
    if full and float(os.environ.get("VERIF_SCALE", "1")) < 1:  # development aid of the driver: thinned, not exhaustive
        stride = max(1, round(1 / float(os.environ["VERIF_SCALE"])))
    for i, sysm in enumerate(P.small_systems(3, 2)):
        if i % stride:
            continue
        n = P.n_flat_constraints(sysm)
        cp = list(range(n))
        if (i // stride) % 2:
            cp.reverse()
        yield {"system": sysm, "order": [[0, 1, 2] if (i // stride) % 3 else [2, 1, 0], cp]}


SUBS = [
    Sub(name="planted", body=body, strategy=lambda ctx: _with_order(ctx, "none"), quick=1200, thorough=60000,
        lanes=("f64",), quick_shards=3, rule="planted-solution systems, drawn object/constraint order"),
    Sub(name="perturbed", body=body, strategy=lambda ctx: _with_order(ctx, "some"), quick=600, thorough=40000,
        lanes=("f64",), quick_shards=3, rule="planted systems with ~1/8 of the sources made inconsistent"),
    Sub(name="free", body=body, strategy=lambda ctx: _with_order(ctx, "all"), quick=600, thorough=40000,
        lanes=("f64",), quick_shards=3, rule="unplanted random systems (cycles, contradictions, under-determination)"),
    Sub(name="small", body=body, cases=small_cases, lanes=("f64",), exhaustive=True, exhaustive_quick=False,
        quick_shards=3,
        rule="every 2-object system on one 6-cell axis with <= 3 (a) and <= 2 (b) items of an 18-item palette; "
             "quick tier: every 97th"),
]


def _never_verified(case):
    """F8: the solver returned slices that violate a constraint it never (re)applied, and rejects exactly those slices
    itself once every object is pinned to them and one more pass is forced (pbt.oracles.placement.pinned_system)."""
    op, cp = case["order"] if case.get("order") else (None, None)
    ok, _sl, probs, verified = P.verified_verdict(case["system"], "f64", op, cp)
    return bool(ok and probs and not verified)


def _real_position_never_validated(case):
    """F8b: the only violated items are partial_real_position specs on an (object, axis) whose two bounds were fixed
    by other means (no size source, or size + another bound): _resolve_static_positions_iterative skips such axes
    ('already fully resolved') instead of validating them, so the solver does not reject the slices even when pinned."""
    op, cp = case["order"] if case.get("order") else (None, None)
    ok, _sl, probs, verified = P.verified_verdict(case["system"], "f64", op, cp)
    return bool(ok and probs and verified and all(p["kind"] == "real_position" and p["redundant"] for p in probs))


KNOWN_CLASSES = {"F8": _never_verified, "F8b": _real_position_never_validated}
