"""C43 — spheres/ellipsoids, cylinders and extruded polygons are rasterised by cell-centre inclusion.

Oracle: the analytic shape is centred on the centre of the object's *placed* bounding box (that is how the
three classes document their coordinate frame: the box is derived from the radii / the vertex bounding box
and "(0, 0) corresponds to the centre of the object's bounding box").  A cell belongs to the mask iff its
centre (mid-point of its two edges on every axis, float64, computed from the scene's own cell widths) lies
strictly inside

    ellipsoid   sum_a ((x_a - c_a) / r_a)^2 < 1
    cylinder    the same in the two transverse axes, every cell along the extrusion axis
    polygon     non-zero crossing number of the transverse point w.r.t. the (simple) vertex loop

Cells whose centre is closer than 1e-4 cell widths to the analytic surface are excluded from the comparison
and counted (metric `ambiguous_cells`); everything else must agree exactly.
"""

from __future__ import annotations

import math

import numpy as np
from hypothesis import strategies as st

from pbt.engine import Sub

ID = "C43"
RULE = (
    "Hypothesis draws a volume (one of 12x12x12, 10x14x9, 14x9x11 cells) on a uniform grid or a rectilinear grid with "
    "cell widths from {0.6..1.6}*d, and 1..3 shapes: sphere (one radius), ellipsoid (three radii), cylinder (axis, "
    "radius, extrusion length) or extruded polygon (axis; star-shaped loop with 3..9 vertices or a rotated/stretched "
    "non-star-shaped template L/U/S/T/arrow; either orientation; with or without the repeated closing vertex). "
    "Diameters / bounding boxes are a pooled integer (quick: 2,3,5,8; thorough: 1..9 cells) plus a real jitter in "
    "(-0.45, 0.45) cells, so the bounding box snaps to the grid and the surface cuts cells at arbitrary positions. "
    "Each shape is placed by its lower corner and goes through fdtdx.place_objects. A shape is non-trivial when its "
    "mask contains both values; distinct = sha1 of the case."
)
ASSUMPTIONS = [
    "the analytic shape is centred on the centre of the placed bounding box (physical centre on non-uniform grids)",
    "cell centre = mid-point of the cell's edges on each axis",
    "cells whose centre lies within 1e-4 cell widths of the surface are not compared (counted as ambiguous)",
    "polygons are simple (non self-intersecting), so every inside rule gives the same analytic interior",
    "a cylinder / polygon mask may be returned with extent 1 along the extrusion axis (broadcast over it)",
    "polygon vertex columns (x', y') map to the two transverse axes in ascending order (the objects' documented "
    "horizontal / vertical axes); vertices are given centred on their bounding box as the class requires",
]

D = 5e-8
BAND = 1e-4

TEMPLATES = {
    "L": [(0, 0), (3, 0), (3, 1), (1, 1), (1, 3), (0, 3)],
    "U": [(0, 0), (3, 0), (3, 3), (2, 3), (2, 1), (1, 1), (1, 3), (0, 3)],
    "S": [(0, 0), (3, 0), (3, 2), (1, 2), (1, 2.5), (3, 2.5), (3, 3.5), (0, 3.5), (0, 1.5), (2, 1.5), (2, 1), (0, 1)],
    "T": [(0, 2), (3, 2), (3, 3), (2, 3), (2, 5), (1, 5), (1, 3), (0, 3)],
    "arrow": [(0, 1), (2, 1), (2, 0), (4, 1.5), (2, 3), (2, 2), (0, 2)],
}


def _edges(grid, shape):
    if grid["kind"] == "rect":
        return [np.concatenate([[0.0], np.cumsum(np.asarray(w, dtype=np.float64))]) for w in grid["widths"]]
    return [np.arange(n + 1, dtype=np.float64) for n in shape]


def _fl(lo, hi):
    return st.floats(lo, hi, allow_nan=False, allow_infinity=False).map(lambda x: round(float(x), 4))


def _size(pool):
    """Physical extent (cell units) = pooled integer + jitter in (-0.45, 0.45): on a uniform grid the box snaps to the
    pooled cell count, so few distinct array shapes occur (XLA compiles every op once per shape, ~1.5 s per new
    box) while the surface still cuts the cells at arbitrary offsets."""
    return st.tuples(st.sampled_from(pool), _fl(-0.45, 0.45)).map(lambda t: round(t[0] + t[1], 4))


@st.composite
def _polygon(draw, max_w, max_h, pool):
    """Simple polygon in cell units, centred on its bounding-box centre, bbox <= (max_w, max_h)."""
    fam = draw(st.sampled_from(["star", "star", "template"]))
    if fam == "star":
        k = draw(st.integers(3, 9))
        pts = []
        for i in range(k):
            ang = 2 * math.pi * (i + draw(_fl(-0.4, 0.4))) / k
            rad = draw(_fl(0.3, 1.0))
            pts.append((rad * math.cos(ang), rad * math.sin(ang)))
        name = f"star{k}"
    else:
        name = draw(st.sampled_from(sorted(TEMPLATES)))
        pts = [tuple(map(float, p)) for p in TEMPLATES[name]]
    rot = math.radians(draw(st.sampled_from([0.0, 0.0, 17.0, 45.0, 90.0, 133.0, 200.0, 311.0])))
    sx, sy = draw(_fl(0.5, 1.0)), draw(_fl(0.5, 1.0))
    pts = np.asarray(pts, dtype=np.float64) * np.array([sx, sy])
    R = np.array([[math.cos(rot), -math.sin(rot)], [math.sin(rot), math.cos(rot)]])
    pts = pts @ R.T
    ext = pts.max(axis=0) - pts.min(axis=0)
    # target bbox: between 1.2 cells and the available room
    tw = min(draw(_size(pool)), max_w)
    th = min(draw(_size(pool)), max_h)
    pts = pts * np.array([tw / ext[0], th / ext[1]])  # per-axis stretch: bbox = (tw, th) exactly, both >= 0.55 cells
    pts = pts - 0.5 * (pts.max(axis=0) + pts.min(axis=0))
    if draw(st.booleans()):
        pts = pts[::-1]
    pts = np.round(pts, 5)
    pts = pts - 0.5 * (pts.max(axis=0) + pts.min(axis=0))
    verts = [[float(x), float(y)] for x, y in pts]
    if draw(st.booleans()):
        verts.append(list(verts[0]))
    return name, verts


VOLUME_SHAPES = [(12, 12, 12), (10, 14, 9), (14, 9, 11)]  # few distinct array shapes keep XLA's per-shape compile cache warm


def _cells_needed(E, L):
    """Upper bound on the number of cells fdtdx gives a box of physical length L (cell units): enough cells,
    counted from the lower domain edge, to cover L (placement itself is C26's business, this only keeps the
    generated box inside the volume)."""
    return max(1, int(np.searchsorted(E, L - 1e-9, side="left")))


@st.composite
def case_strategy(draw, ctx):
    from pbt import scenes

    shape = list(draw(st.sampled_from(VOLUME_SHAPES)))
    grid = draw(scenes.grid_strategy(shape, None, kinds=("uniform", "rect")))
    E = _edges(grid, shape)
    total = [float(E[a][-1]) for a in range(3)]
    n_shapes = draw(st.integers(1, 3))
    pool = [2, 3, 5, 8] if ctx.tier == "quick" else [1, 2, 3, 4, 5, 6, 7, 8, 9]
    shapes = []

    def radius(cap):
        return round(min(draw(_size(pool)), cap) / 2, 5)

    for i in range(n_shapes):
        kind = draw(st.sampled_from(["sphere", "ellipsoid", "cylinder", "polygon"]))
        s = {"kind": kind, "name": f"shape{i}"}
        ext = [None, None, None]  # physical extent per axis in cell units (None: fixed by cell count)
        if kind == "sphere":
            s["r"] = [radius(min(total))] * 3
            ext = [2 * r for r in s["r"]]
        elif kind == "ellipsoid":
            s["r"] = [radius(total[a]) for a in range(3)]
            ext = [2 * r for r in s["r"]]
        else:
            ax = draw(st.integers(0, 2))
            s["axis"] = ax
            s["len"] = draw(st.sampled_from([1, 3] if ctx.tier == "quick" else [1, 2, 3, 4]))
            h, v = transverse(ax)
            if kind == "cylinder":
                s["r"] = radius(min(total[h], total[v]))
                ext[h] = ext[v] = 2 * s["r"]
            else:
                s["family"], s["vertices"] = draw(_polygon(total[h], total[v], pool))
                vv = np.asarray(s["vertices"])
                ext[h] = float(vv[:, 0].max() - vv[:, 0].min())
                ext[v] = float(vv[:, 1].max() - vv[:, 1].min())
        lo = []
        for a in range(3):
            k = s["len"] if ext[a] is None else _cells_needed(E[a], ext[a])
            lo.append(draw(st.integers(0, max(0, shape[a] - k))))
        s["lo"] = lo
        shapes.append(s)
    return {"shape": shape, "grid": grid, "shapes": shapes}


# ----------------------------------------------------------------------------------------------
# oracle helpers (numpy float64 only)
# ----------------------------------------------------------------------------------------------
def transverse(axis):
    """(horizontal, vertical) axes of an object extruded along `axis` — the documented fdtdx convention:
    x -> (y, z), y -> (x, z), z -> (x, y)."""
    return {0: (1, 2), 1: (0, 2), 2: (0, 1)}[axis]


def seg_dist(px, py, ax, ay, bx, by):
    dx, dy = bx - ax, by - ay
    L2 = dx * dx + dy * dy
    if L2 == 0.0:
        return np.hypot(px - ax, py - ay)
    t = np.clip(((px - ax) * dx + (py - ay) * dy) / L2, 0.0, 1.0)
    return np.hypot(px - (ax + t * dx), py - (ay + t * dy))


def polygon_oracle(X, Y, verts):
    """crossing-number inside test + distance to the boundary, vectorised over the point grid."""
    v = np.asarray(verts, dtype=np.float64)
    if np.array_equal(v[0], v[-1]):
        v = v[:-1]
    inside = np.zeros(X.shape, dtype=bool)
    dist = np.full(X.shape, np.inf)
    n = len(v)
    for i in range(n):
        ax, ay = v[i]
        bx, by = v[(i + 1) % n]
        dist = np.minimum(dist, seg_dist(X, Y, ax, ay, bx, by))
        cond = (ay > Y) != (by > Y)
        with np.errstate(divide="ignore", invalid="ignore"):
            xint = ax + (Y - ay) * (bx - ax) / (by - ay)
        inside ^= cond & (X < xint)
    return inside, dist


def body(ctx, case):
    import fdtdx
    import jax
    import jax.numpy as jnp

    shape = tuple(case["shape"])
    grid = case["grid"]
    Ecell = _edges(grid, shape)  # cell units
    E = [e * D for e in Ecell]  # metres, float64
    rect = grid["kind"] == "rect"
    if rect:
        g = fdtdx.RectilinearGrid(x_edges=E[0], y_edges=E[1], z_edges=E[2])
    else:
        g = fdtdx.UniformGrid(spacing=D)
    cfg = fdtdx.SimulationConfig(grid=g, time=2e-15, backend="cpu",
                                 dtype=jnp.float64 if ctx.f64 else jnp.float32)
    mats = {"air": fdtdx.Material(permittivity=1.0), "si": fdtdx.Material(permittivity=4.0)}
    vol = fdtdx.SimulationVolume(partial_grid_shape=shape, name="volume")
    objs, cons = [vol], []
    for s in case["shapes"]:
        lo = s["lo"]
        axes, sides, gcoord = [0, 1, 2], ["-", "-", "-"], [lo[0], lo[1], lo[2]]
        if s["kind"] in ("sphere", "ellipsoid"):
            r = s["r"]
            kw = dict(radius=r[0] * D)
            if s["kind"] == "ellipsoid":
                kw.update(radius_x=r[0] * D, radius_y=r[1] * D, radius_z=r[2] * D)
            o = fdtdx.Sphere(name=s["name"], material_name="si", materials=mats, **kw)
        else:
            ax = s["axis"]
            axes.append(ax)
            sides.append("+")
            gcoord.append(lo[ax] + s["len"])
            if s["kind"] == "cylinder":
                o = fdtdx.Cylinder(name=s["name"], material_name="si", materials=mats, radius=s["r"] * D, axis=ax)
            else:
                o = fdtdx.ExtrudedPolygon(name=s["name"], material_name="si", materials=mats, axis=ax,
                                          vertices=np.asarray(s["vertices"], dtype=np.float64) * D)
        objs.append(o)
        if rect:
            cons.append(fdtdx.RealCoordinateConstraint(
                object=o.name, axes=tuple(axes), sides=tuple(sides),
                coordinates=tuple(float(E[a][c]) for a, c in zip(axes, gcoord))))
        else:
            cons.append(o.set_grid_coordinates(axes=tuple(axes), sides=tuple(sides), coordinates=tuple(gcoord)))

    objects, _arrays, _params, _config, _ = fdtdx.place_objects(objs, cfg, cons, jax.random.PRNGKey(0))

    ctx.classify("grid=" + grid["kind"])
    n_amb_total = 0
    for s in case["shapes"]:
        o = objects[s["name"]]
        sl = o.grid_slice_tuple
        gshape = tuple(b - a for a, b in sl)
        for a in range(3):
            ctx.check(sl[a][0] == s["lo"][a], f"{s['name']}: lower corner not where it was put on axis {a}",
                      observed=list(map(list, sl)), expected=s["lo"])
        mask = np.asarray(o.get_voxel_mask_for_shape())
        ctx.check(mask.dtype == np.bool_, f"{s['name']}: mask is not boolean", observed=str(mask.dtype))
        ctx.check(mask.ndim == 3 and all(m in (1, g_) for m, g_ in zip(mask.shape, gshape)),
                  f"{s['name']}: mask shape {mask.shape} is not broadcastable to the grid shape {gshape}",
                  observed=list(mask.shape), expected=list(gshape))
        if s["kind"] in ("cylinder", "polygon"):
            t = transverse(s["axis"])
            ctx.check(all(mask.shape[a] == gshape[a] for a in t), f"{s['name']}: transverse mask extent wrong",
                      observed=list(mask.shape), expected=list(gshape))
        mask = np.broadcast_to(mask, gshape)

        # cell centres relative to the box's lower corner, box centre, local max cell width (cell units)
        cen, ctr, wid = [], [], []
        for a in range(3):
            e = Ecell[a][sl[a][0]: sl[a][1] + 1]
            cen.append(0.5 * (e[:-1] + e[1:]) - e[0])
            ctr.append(0.5 * (e[-1] - e[0]))
            wid.append(np.diff(e))
        W = np.maximum(np.maximum(wid[0][:, None, None], wid[1][None, :, None]), wid[2][None, None, :])

        if s["kind"] in ("sphere", "ellipsoid", "cylinder"):
            if s["kind"] == "cylinder":
                r = [s["r"]] * 3
                use = transverse(s["axis"])
            else:
                r = s["r"]
                use = (0, 1, 2)
            f = np.zeros(gshape)
            g2 = np.zeros(gshape)
            for a in use:
                idx = [None, None, None]
                idx[a] = slice(None)
                u = ((cen[a] - ctr[a]) / r[a])[tuple(idx)]
                f = f + u ** 2
                g2 = g2 + (2 * u / r[a]) ** 2
            expect = f < 1.0
            amb = np.abs(f - 1.0) <= BAND * W * np.sqrt(g2) + 1e-12
        else:
            h, v = transverse(s["axis"])
            idx_h = [None, None, None]
            idx_h[h] = slice(None)
            idx_v = [None, None, None]
            idx_v[v] = slice(None)
            X = np.broadcast_to((cen[h] - ctr[h])[tuple(idx_h)], gshape)
            Y = np.broadcast_to((cen[v] - ctr[v])[tuple(idx_v)], gshape)
            expect, dist = polygon_oracle(X, Y, s["vertices"])
            amb = dist <= BAND * W
            ctx.classify("polygon=" + s["family"], "closed" if s["vertices"][0] == s["vertices"][-1] else "open")

        n_amb = int(amb.sum())
        n_amb_total += n_amb
        cmp = ~amb
        both = bool(mask.any() and not mask.all())
        ctx.classify("kind=" + s["kind"], "both-values" if both else "single-value")
        ctx.nontrivial(both)
        bad = cmp & (mask != expect)
        if bad.any():
            i = tuple(int(x) for x in np.argwhere(bad)[0])
            ctx.check(False,
                      f"{s['name']} ({s['kind']}): {int(bad.sum())} of {int(cmp.sum())} cells disagree with the "
                      f"analytic cell-centre inclusion, first at local index {i} (slice {sl})",
                      observed={"mask": bool(mask[i]), "cells_in_mask": int(mask.sum())},
                      expected={"inside": bool(expect[i]), "cells_inside": int(expect.sum())})
        ctx.metric("cells_compared", int(cmp.sum()))
    ctx.metric("ambiguous_cells", n_amb_total)
    if n_amb_total:
        ctx.classify("has-ambiguous-cell")


SUBS = [
    Sub(name="raster", body=body, strategy=lambda ctx: case_strategy(ctx), quick=48, thorough=3000,
        lanes=("f64", "f32"), f32_fraction=0.25, quick_shards=2,
        rule="1..3 random shapes per placed scene; mask compared cell by cell with analytic centre inclusion"),
]
