"""C13 — plane sources radiate only in their stated direction.

A plane source is placed in a homogeneous medium with PML on the two faces of the propagation axis; two
PoyntingFluxDetectors (same orientation as the source, so forward power counts positive) sit a few cells in front of
and behind the source plane.  The oracle is the property's own threshold on |P_back| / P_front, where P is the
time-integrated flux for a pulse and the mean over the last three carrier periods for a continuous wave.

* uniform:  UniformPlaneSource spanning a transversely periodic cell: |P_back| / P_front < 1e-3.
* gaussian: GaussianPlaneSource (radius >= 0.3 wavelengths) in a cell with PML on all six faces, detectors spanning
            the whole interior cross-section: P_back / P_front < 0.1.
"""

from __future__ import annotations

import math

import numpy as np
from hypothesis import strategies as st

from pbt import scenes
from pbt.engine import Sub
from pbt.oracles.longsims import collect, scaled

ID = "C13"
RULE = (
    "Stratified enumeration over the six (axis, direction) pairs x {CW, pulse} (index i -> pair i mod 6, profile "
    "(i div 6) mod 2) whose remaining parameters are a Hypothesis-drawn sample: transverse polarisation angle "
    "0..359.9 deg (0.1 deg steps), 15..30 cells per wavelength in the medium, medium permittivity {1, 1, 2.25, 4} "
    "(x permeability {1, 1, 2}), courant factor {0.99, 0.7, 0.5} (Gaussian: eps {1, 2.25}, mu 1, courant {0.99, 0.7}), "
    "pulse width factor {3, 5}, PML thickness {8, 10, 12} (quick: 10), "
    "detector distance 6..10 cells in front of / behind the source plane, transverse cell 3x3 / 2x5 / 4x2 cells "
    "(uniform, periodic) or beam radius 0.3..1.5 wavelengths (sampled densely in 0.3..0.6) with 0.4..2 wavelengths (quick: "
    "0.4..1) of clearance to PML on the transverse faces (Gaussian). Every case is a full run and is non-trivial "
    "when the forward power is positive. Distinct = sha1 of the case JSON. The histogram over the six directions "
    "is flat by construction."
)
ASSUMPTIONS = [
    "'power crossing a plane' = PoyntingFluxDetector (reduce_volume) over the whole interior cross-section, placed "
    "6..10 cells from the source plane and oriented like the source; pulse: sum over all steps; CW: mean over the "
    "last round(3 * period / dt) steps after 4 start-up periods + 2 more + two domain transits",
    "uniform: 'transversely periodic homogeneous medium' = isotropic eps (and mu) everywhere, periodic pairs on both "
    "transverse axes, PML on the propagation axis",
    "gaussian: the measured ratio depends on how much of the wide-angle part of the beam the two finite planes "
    "intercept (paraxial single-plane injection: a plane-wave component at angle t is sent backward with relative "
    "power tan^4(t/2); over unbounded planes that integrates to 0.124 / 0.110 / 0.094 / 0.058 / 0.019 / 0.002 for "
    "radius 0.3 / 0.4 / 0.5 / 0.7 / 1.0 / 1.5 wavelengths). The check reads 'a plane in front of / behind it' as the "
    "cross-section of a domain that leaves 0.4..2 wavelengths between the beam radius and the transverse PML, "
    "detectors 6..10 cells away (measured maximum 0.097 at 30 cells per wavelength, radius 0.3, clearance 2 "
    "wavelengths); wider domains or closer detectors exceed 0.1 for radii below ~0.45 wavelengths and are not "
    "generated",
    "float32 and float64 lanes use the property's thresholds unchanged",
]

AX = "xyz"


def _v(case):
    """c*dt/d: cells per step of a vacuum wave along an axis."""
    return case["courant"] / math.sqrt(3.0)


def _common(draw, gaussian, ctx):
    eps = draw(st.sampled_from([1.0, 1.0, 2.25, 4.0]))
    mu = draw(st.sampled_from([1.0, 1.0, 2.0]))
    c = {
        "axis": draw(st.integers(0, 2)),
        "direction": draw(st.sampled_from(["+", "-"])),
        "profile": draw(st.sampled_from(["cw", "pulse"])),
        # sampled_from (uniform) rather than integers() (biased towards small values)
        "angle": draw(st.sampled_from(range(0, 3600))) / 10.0,
        # "any transverse polarization": the vector may have any length and be given for E or for H
        "pol_len": draw(st.sampled_from([1.0, 1.0, 5.0, 0.3, 2.5])),
        "pol_field": draw(st.sampled_from(["E", "E", "H"])),
        "wave_phase": draw(st.sampled_from([0.0, 0.0, 1.0, 1.5707963, -2.0])),  # WaveCharacter.phase_shift of the source
        # the source's on/off schedule may be spelled explicitly (delayed start by a few steps, or an on-duration in
        # periods that outlasts the run): physically the same one-way source, but a different code path
        "switch": draw(st.sampled_from([{}, {}, {"start_step": 2}, {"start_step": 0}, {"on_for_steps": 100000, "periods": True}])),
        "cpw": draw(st.sampled_from(range(150, 301))) / 10.0,  # cells per wavelength in the medium
        "eps": eps,
        "mu": mu,
        "courant": draw(st.sampled_from([0.99, 0.99, 0.7, 0.5])),
        "width_factor": draw(st.sampled_from([3.0, 5.0])),
        # few distinct array shapes per process (XLA compile time dominates these small scenes): the quick tier uses
        # one PML thickness, and the detector-to-PML pad shrinks as the detector distance grows so that the axis
        # length stays 2 * tpml + 27
        "tpml": 10 if ctx.tier == "quick" else draw(st.sampled_from([8, 10, 12])),
        "gap": draw(st.integers(6, 10)),
    }
    c["pad"] = 12 - c["gap"]
    return c


@st.composite
def uniform_strategy(draw, ctx):
    c = _common(draw, False, ctx)
    c["tw"] = [3, 3] if ctx.tier == "quick" else draw(st.sampled_from([[3, 3], [2, 5], [4, 2]]))
    return c


@st.composite
def gaussian_strategy(draw, ctx):
    c = _common(draw, True, ctx)
    quick = ctx.tier == "quick"
    # the Gaussian scenes are 3-D and large: keep the step count down (index <= 1.5, courant >= 0.7)
    c["eps"] = draw(st.sampled_from([1.0, 1.0, 2.25]))
    c["mu"] = 1.0
    c["courant"] = draw(st.sampled_from([0.99, 0.99, 0.7]))
    if quick:
        c["cpw"] = draw(st.sampled_from(range(150, 201))) / 10.0
    # radius in wavelengths: half of the cases in the tight range 0.3..0.6
    if draw(st.booleans()):
        rho = draw(st.sampled_from(range(30, 61))) / 100.0
    else:
        rho = draw(st.sampled_from(range(30, 151))) / 100.0
    max_r_cells = 24.0 if (quick or ctx.lane == "f64") else 40.0
    rho = min(rho, math.floor(100 * max_r_cells / c["cpw"]) / 100.0)
    c["rho"] = max(rho, 0.3)
    clear = draw(st.sampled_from(range(40, 101 if quick else 201))) / 100.0  # clearance beam edge -> transverse PML, wavelengths
    max_half = (30.0 if ctx.lane == "f32" else 24.0) if quick else (45.0 if ctx.lane == "f64" else 75.0)  # cost cap on the interior half width (cells)
    c["clear"] = max(0.4, min(clear, math.floor(100 * (max_half / c["cpw"] - c["rho"])) / 100.0))
    return c


def paraxial_back_fraction(rho, half_cells, gap_cells):
    """Backward / forward power that a single-plane injection with the plane-wave impedance (H = E / eta for every
    transverse wavenumber) is expected to produce for a Gaussian of radius `rho` wavelengths (std = radius / 3),
    counting only plane-wave components inside the cone that two planes of half-width `half_cells` at distance
    `gap_cells` intercept.  A component at angle t splits into forward (1+q)/2 and backward (1-q)/2 with q = cos t
    (E in the plane of incidence) or 1/cos t (E normal to it).  Pure numpy; used to *describe* the known class of
    wide-angle configurations (KNOWN_CLASSES) and as a reported metric, never as the pass/fail oracle."""
    th_max = math.atan(half_cells / gap_cells)
    th = np.linspace(0.0, th_max, 20001)[1:]
    kt, c = np.sin(th), np.cos(th)
    w = np.exp(-((kt * 2 * math.pi * rho / 3.0) ** 2)) * kt * c
    F = B = 0.0
    for q, pf in ((c, 1 / c), (1 / c, c)):
        F += np.trapezoid(w * ((1 + q) / 2) ** 2 * pf, th)
        B += np.trapezoid(w * ((1 - q) / 2) ** 2 * pf, th)
    return float(B / F)


def _half_cells(case):
    return int(math.ceil((case["rho"] + case["clear"]) * case["cpw"])) + 0.5


def wide_angle_class(case):
    """Gaussian scenes whose planes intercept so much of the wide-angle part of a sub-wavelength beam that the
    paraxial-injection model predicts >= 9 % backward power (measured values are 1.05..1.15 x the model)."""
    return "rho" in case and paraxial_back_fraction(case["rho"], _half_cells(case), case["gap"]) >= 0.09


KNOWN_CLASSES = {"C13-gaussian-wide-angle": wide_angle_class}

# the corner of the generated domain where the 10 % bound is exceeded on the unchanged tree (0.1038 / 0.1010)
CORNER_CASES = [
    {"axis": 2, "direction": "+", "profile": "cw", "angle": 0.0, "cpw": 30.0, "eps": 1.0, "mu": 1.0, "courant": 0.99,
     "width_factor": 3.0, "tpml": 8, "gap": 6, "pad": 6, "rho": 0.3, "clear": 2.0},
    {"axis": 0, "direction": "-", "profile": "pulse", "angle": 45.0, "cpw": 30.0, "eps": 1.0, "mu": 1.0,
     "courant": 0.99, "width_factor": 3.0, "tpml": 8, "gap": 6, "pad": 6, "rho": 0.3, "clear": 2.0},
]


def _stratify(pool, offset=0):
    out = []
    for i, c in enumerate(pool, start=offset):
        c = dict(c)
        c["axis"], c["direction"] = (i % 6) // 2, "+-"[i % 2]
        c["profile"] = ["cw", "pulse"][(i // 6) % 2]
        out.append(c)
    return out


def uniform_cases(ctx):
    n = scaled(16 if ctx.tier == "quick" else (144 if ctx.lane == "f32" else 288), ctx)
    return _stratify(collect(uniform_strategy(ctx), n, ctx.seed, salt=f"C13u/{ctx.lane}/{ctx.tier}"))


def gaussian_cases(ctx):
    n = scaled(4 if ctx.tier == "quick" else (48 if ctx.lane == "f32" else 60), ctx)
    # the quick list is shorter than the 12 strata: start it at a seed / lane dependent stratum so that the two lanes
    # of one run cover 8 consecutive strata (all six directions) and successive seeds walk through the rest
    offset = 8 * ctx.seed + (4 if ctx.lane == "f64" else 0)
    out = _stratify(collect(gaussian_strategy(ctx), n, ctx.seed, salt=f"C13g/{ctx.lane}/{ctx.tier}"), offset)
    if ctx.tier == "thorough" and ctx.lane == "f32":
        out = [dict(c) for c in CORNER_CASES] + out
    return out


def measure(ctx, case, gaussian):
    import fdtdx

    ax, direction = case["axis"], case["direction"]
    n_med = math.sqrt(case["eps"] * case["mu"])
    wl_vac = case["cpw"] * n_med  # vacuum wavelength in cells
    v = _v(case)
    period = wl_vac / v  # steps per carrier period
    tpml, gap, pad = case["tpml"], case["gap"], case["pad"]
    L = tpml + pad + 1 + gap + 1 + gap + 1 + pad + tpml
    transit = L * n_med / v
    if gaussian:
        r_cells = case["rho"] * case["cpw"]
        half = r_cells + case["clear"] * case["cpw"]
        w_int = 2 * int(math.ceil(half)) + 1
        W = w_int + 2 * tpml
        shape = [W, W, W]
        faces = {f: {"kind": "pml", "thickness": tpml} for f in scenes.FACES}
        tlo, thi = [tpml] * 3, [W - tpml] * 3
    else:
        h_ax, w_ax = [(1, 2), (2, 0), (0, 1)][ax]
        shape = [0, 0, 0]
        shape[h_ax], shape[w_ax] = case["tw"]
        faces = {f: {"kind": "periodic"} for f in scenes.FACES}
        tlo, thi = [0, 0, 0], list(shape)
    shape[ax] = L
    thi[ax] = L
    faces["min_" + AX[ax]] = {"kind": "pml", "thickness": tpml}
    faces["max_" + AX[ax]] = {"kind": "pml", "thickness": tpml}
    spos = tpml + pad + 1 + gap
    front, back = (spos + gap, spos - gap) if direction == "+" else (spos - gap, spos + gap)
    h_ax, w_ax = [(1, 2), (2, 0), (0, 1)][ax]
    pol = [0.0, 0.0, 0.0]
    pol[h_ax] = round(math.cos(math.radians(case["angle"])), 9)
    pol[w_ax] = round(math.sin(math.radians(case["angle"])), 9)
    if case["profile"] == "cw":
        n_avg = int(round(3 * period))
        steps = int(math.ceil((4 + 2) * period + 2 * transit)) + n_avg
        prof = {"kind": "cw"}
    else:
        wf = case["width_factor"]
        steps = int(math.ceil(12 * wf / (2 * math.pi) * period + 3 * transit)) + 20
        prof = {"kind": "pulse", "width_factor": wf}
    src = {"type": "gaussian_plane" if gaussian else "uniform_plane", "name": "src", "wl_cells": wl_vac, "amp": 1.0,
           "profile": prof, "switch": case.get("switch", {}), "axis": ax, "pos": spos, "direction": direction, "pol": pol,
           "pol_len": case.get("pol_len", 1.0), "pol_field": case.get("pol_field", "E"), "wave_phase": case.get("wave_phase", 0.0),
           "lo": list(tlo), "hi": list(thi)}
    if gaussian:
        src["radius_cells"] = r_cells

    def det(name, pos):
        lo, hi = list(tlo), list(thi)
        lo[ax], hi[ax] = pos, pos + 1
        return {"type": "poynting", "name": name, "lo": lo, "hi": hi, "direction": direction, "reduce": True,
                "exact": True, "fixed_axis": ax}

    bg = {"eps": case["eps"]}
    if case["mu"] != 1.0:
        bg["mu"] = case["mu"]
    spec = {"shape": shape, "steps": steps, "courant": case["courant"], "faces": faces, "background": bg,
            "sources": [src], "detectors": [det("front", front), det("back", back)]}
    b = scenes.build(spec, ctx.lane)
    _, arrays = fdtdx.run_fdtd(arrays=b.arrays, objects=b.objects, config=b.config, key=b.key, show_progress=False)
    pf = np.asarray(arrays.detector_states["front"]["poynting_flux"], dtype=np.float64).ravel()
    pb = np.asarray(arrays.detector_states["back"]["poynting_flux"], dtype=np.float64).ravel()
    ctx.check(bool(np.isfinite(pf).all() and np.isfinite(pb).all()), "non-finite Poynting flux")
    ctx.check(len(pf) == steps and len(pb) == steps, "flux record length differs from the number of steps",
              observed=[len(pf), len(pb)], expected=steps)
    if case["profile"] == "cw":
        F, B = float(pf[-n_avg:].mean()), float(pb[-n_avg:].mean())
    else:
        F, B = float(pf.sum()), float(pb.sum())
        # the pulse must be over at both planes, otherwise the time integral is not the pulse's power
        tail = max(np.abs(pf[-10:]).max(), np.abs(pb[-10:]).max()) / max(np.abs(pf).max(), 1e-300)
        ctx.metric("pulse_tail", tail)
    return F, B


def _classify(ctx, case, gaussian):
    ctx.classify("dir=%s%s" % (AX[case["axis"]], case["direction"]), "profile=" + case["profile"],
                 "eps=%g" % case["eps"], "mu=%g" % case["mu"], "courant=%g" % case["courant"],
                 "cpw=" + ("15-20" if case["cpw"] < 20 else "20-25" if case["cpw"] < 25 else "25-30"),
                 "angle_quadrant=%d" % int(case["angle"] // 90), "axis_aligned_pol" if case["angle"] % 90 == 0 else "oblique_pol")
    if gaussian:
        r = case["rho"]
        ctx.classify("rho=" + ("0.3-0.45" if r < 0.45 else "0.45-0.6" if r < 0.6 else "0.6-1.0" if r < 1.0 else "1.0-1.5"),
                     "clear=" + ("0.4-1" if case["clear"] < 1 else "1-2"))


def body_uniform(ctx, case):
    _classify(ctx, case, False)
    F, B = measure(ctx, case, False)
    ctx.check(F > 0, f"no forward power: P_front = {F:.3e}, P_back = {B:.3e}", observed=F, expected="> 0")
    ctx.nontrivial(True)
    ratio = abs(B) / F
    ctx.metric("back_over_front", ratio)
    ctx.check(ratio < 1e-3, f"uniform plane source sends |P_back|/P_front = {ratio:.3e} backward (limit 1e-3); "
                            f"P_front = {F:.4e}, P_back = {B:.4e}", observed=ratio, expected="< 1e-3", tolerance=1e-3)


def body_gaussian(ctx, case):
    _classify(ctx, case, True)
    F, B = measure(ctx, case, True)
    ctx.check(F > 0, f"no forward power: P_front = {F:.3e}, P_back = {B:.3e}", observed=F, expected="> 0")
    ctx.nontrivial(True)
    ratio = abs(B) / F
    ctx.metric("back_over_front", ratio)
    model = paraxial_back_fraction(case["rho"], _half_cells(case), case["gap"])
    ctx.metric("measured_over_paraxial_model", ratio / model)
    ctx.classify("model=" + ("<0.03" if model < 0.03 else "0.03-0.06" if model < 0.06 else "0.06-0.09" if model < 0.09
                             else ">=0.09"))
    r = case["rho"]
    ctx.metric("back_over_front[rho<0.45]" if r < 0.45 else "back_over_front[rho<0.6]" if r < 0.6 else
               "back_over_front[rho<1]" if r < 1.0 else "back_over_front[rho>=1]", ratio)
    ctx.check(ratio < 0.1, f"Gaussian plane source (radius {r:.2f} wavelengths) sends P_back/P_front = {ratio:.4f} "
                           f"backward (limit 0.1); P_front = {F:.4e}, P_back = {B:.4e}",
              observed=ratio, expected="< 0.1", tolerance=0.1)


SUBS = [
    Sub(name="uniform", body=body_uniform, cases=uniform_cases, lanes=("f64", "f32"), quick_shards=4,
        exhaustive=False, max_seconds_quick=100.0, max_seconds_thorough=900.0,
        rule="UniformPlaneSource in a transversely periodic homogeneous cell: |P_back|/P_front < 1e-3"),
    Sub(name="gaussian", body=body_gaussian, cases=gaussian_cases, lanes=("f64", "f32"), quick_shards=4,
        exhaustive=False, max_seconds_quick=140.0, max_seconds_thorough=1400.0,
        rule="GaussianPlaneSource, radius >= 0.3 wavelengths, PML on all faces: P_back/P_front < 0.1"),
]
