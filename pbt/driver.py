"""Parent process: plans lanes/shards, forks workers, merges results, writes evidence, sets exit code.

exit 0  property held on everything explored (KNOWN-FINDING lines allowed)
exit 1  at least one "VIOLATION property=<id> replay=<path>" line
exit 2  harness / generator error or nothing explored (inconclusive; never a violation)
"""

from __future__ import annotations

import argparse
import importlib
import json
import math
import os
import shutil
import subprocess
import sys
import time

sys.path.insert(0, os.path.dirname(os.path.dirname(os.path.abspath(__file__))))

from pbt import engine  # noqa: E402

VERIF = engine.VERIF_DIR
PY = sys.executable


def repo_rev():
    try:
        r = subprocess.run(
            ["git", "-C", os.path.dirname(engine.repo_src()), "rev-parse", "--short", "HEAD"],
            capture_output=True,
            text=True,
            timeout=10,
        )
        d = subprocess.run(
            ["git", "-C", os.path.dirname(engine.repo_src()), "status", "--porcelain", "--untracked-files=no"],
            capture_output=True,
            text=True,
            timeout=10,
        )
        return r.stdout.strip() + ("+dirty" if d.stdout.strip() else "")
    except Exception:
        return "unknown"


def plan_workers(mod, tier, only_sub=None):
    """-> list of (lane, shard, nshards, {sub: n})"""
    subs = [s for s in mod.SUBS if only_sub in (None, s.name)]
    lanes = sorted({ln for s in subs for ln in s.lanes})
    ncpu = int(os.environ.get("VERIF_WORKERS", "16"))
    shards = {}
    if tier == "quick":
        for ln in lanes:
            shards[ln] = max(s.quick_shards for s in subs if ln in s.lanes)
    else:
        if len(lanes) == 2:
            shards = {"f64": max(1, ncpu - ncpu // 4), "f32": max(1, ncpu // 4)}
        else:
            shards = {lanes[0]: ncpu}
    workers = []
    for ln in lanes:
        for sh in range(shards[ln]):
            plan = {}
            for s in subs:
                if ln not in s.lanes:
                    continue
                n = s.quick if tier == "quick" else s.thorough
                n = max(1, int(n * float(os.environ.get("VERIF_SCALE", "1"))))  # development aid only
                if len(s.lanes) == 2:
                    frac = s.f32_fraction if ln == "f32" else 1.0 - s.f32_fraction
                else:
                    frac = 1.0
                plan[s.name] = max(1, math.ceil(n * frac / shards[ln]))
            workers.append((ln, sh, shards[ln], plan))
    return workers


def main():
    ap = argparse.ArgumentParser()
    ap.add_argument("prop")
    ap.add_argument("--tier", default=os.environ.get("VERIF_TIER", "quick"), choices=["quick", "thorough"])
    ap.add_argument("--seed", type=int, default=int(os.environ.get("VERIF_SEED", "1") or 1))
    ap.add_argument("--replay", default=None)
    ap.add_argument("--sub", default=None, help="run only this sub-check (debugging)")
    ap.add_argument("--no-evidence", action="store_true")
    a = ap.parse_args()
    prop = a.prop.upper()
    t0 = time.time()

    env = dict(os.environ)
    env.setdefault("PYTHONHASHSEED", "0")
    env["PYTHONDONTWRITEBYTECODE"] = "1"
    env.setdefault("JAX_PLATFORMS", "cpu")

    work = os.path.join(VERIF, ".work", f"{prop}-{a.tier}-{os.getpid()}")
    os.makedirs(work, exist_ok=True)
    try:
        code = _main(a, prop, env, work, t0)
    finally:
        shutil.rmtree(work, ignore_errors=True)
    sys.exit(code)


def _main(a, prop, env, work, t0):
    if a.replay:
        with open(a.replay) as f:
            rp = json.load(f)
        out = os.path.join(work, "replay.json")
        cmd = [PY, "-m", "pbt.worker", "--prop", prop, "--tier", a.tier, "--lane", rp.get("lane", "f64"),
               "--seed", str(a.seed), "--plan", "{}", "--out", out, "--replay", os.path.abspath(a.replay)]
        subprocess.run(cmd, cwd=VERIF, env=env)
        res = json.load(open(out))
        if res.get("fatal"):
            print("HARNESS-ERROR", res["fatal"])
            return 2
        v = res["replays"][0]["violation"]
        if v:
            print(f"VIOLATION property={prop} replay={a.replay}")
            print("  ", v["message"])
            return 1
        print(f"replay passed: property={prop} {a.replay}")
        return 0

    engine.bootstrap("f32")  # only to read the module's SUBS metadata
    mod = importlib.import_module(f"pbt.props.{prop.lower()}")
    workers = plan_workers(mod, a.tier, a.sub)
    procs = []
    for i, (lane, shard, nshards, plan) in enumerate(workers):
        out = os.path.join(work, f"w{i}.json")
        cmd = [PY, "-m", "pbt.worker", "--prop", prop, "--tier", a.tier, "--lane", lane, "--seed", str(a.seed),
               "--shard", str(shard), "--nshards", str(nshards), "--plan", json.dumps(plan), "--out", out]
        if shard == 0:
            cmd.append("--run-replays")
        log = open(os.path.join(work, f"w{i}.log"), "w")
        procs.append((subprocess.Popen(cmd, cwd=VERIF, env=env, stdout=log, stderr=subprocess.STDOUT), out, log, lane, shard))

    results, fatals = [], []
    for p, out, log, lane, shard in procs:
        p.wait()
        log.close()
        if os.path.exists(out):
            r = json.load(open(out))
            results.append(r)
            if r.get("fatal"):
                fatals.append(f"[{lane}/{shard}] {r['fatal']}")
        else:
            tail = open(log.name).read()[-3000:]
            fatals.append(f"[{lane}/{shard}] worker died rc={p.returncode}: {tail}")

    # ---- merge ---------------------------------------------------------------------------------
    sub_meta = {s.name: s for s in mod.SUBS}
    merged = {}
    violations, errors, known_lines, notes = [], list(fatals), [], []
    for r in results:
        for rp in r.get("replays", []):
            if rp.get("error"):
                errors.append(f"replay {rp['file']}: {rp['error']}")
            v = rp.get("violation")
            if rp["kind"] == "known":
                if v:
                    known_lines.append(f"KNOWN-FINDING: property={prop} {rp['finding']}: {rp['what_fails']}")
                else:
                    notes.append(f"note: known finding {rp['finding']} no longer reproduces on this tree")
            elif v:
                v = dict(v)
                v["from_replay"] = rp["file"]
                violations.append(v)
        for s in r.get("subs", []):
            m = merged.setdefault(s["name"], {
                "name": s["name"], "evaluations": 0, "skipped": 0, "budget_skipped": 0, "excluded_known": {},
                "fps": set(), "classes": {}, "samples": [], "lanes": {}, "metrics": {}, "exhaustive": True, "wall_s": 0.0})
            m["evaluations"] += s["evaluations"]
            m["skipped"] += s["skipped"]
            m["budget_skipped"] += s["budget_skipped"]
            for k, n in s["excluded_known"].items():
                m["excluded_known"][k] = m["excluded_known"].get(k, 0) + n
            m["fps"].update(s["nontrivial_fps"])
            for k, n in s["classes"].items():
                m["classes"][k] = m["classes"].get(k, 0) + n
            if len(m["samples"]) < 6:
                m["samples"].extend(s["samples"][: 6 - len(m["samples"])])
            m["lanes"][s["lane"]] = m["lanes"].get(s["lane"], 0) + s["evaluations"]
            for k, val in s["metrics"].items():
                key = f"{k}[{s['lane']}]"
                m["metrics"][key] = max(m["metrics"].get(key, 0.0), val)
            m["exhaustive"] = m["exhaustive"] and bool(s["exhaustive"])
            m["wall_s"] = max(m["wall_s"], s["wall_s"])
            violations.extend(s["violations"])
            errors.extend(f"[{s['name']}/{s['lane']}] {e}" for e in s["errors"])

    fail_dir = os.path.join(VERIF, "failures", prop)
    lines = []
    seen = set()
    for v in violations:
        fp = engine.fingerprint([v["sub"], v["lane"], v["case"]])
        if fp in seen:
            continue
        seen.add(fp)
        os.makedirs(fail_dir, exist_ok=True)
        path = os.path.join(fail_dir, f"{v['sub']}-{fp}.json")
        with open(path, "w") as f:
            json.dump({"property": prop, "sub": v["sub"], "lane": v["lane"], "case": v["case"],
                       "message": v["message"], "observed": v["observed"], "expected": v["expected"],
                       "tolerance": v["tolerance"], "repo_rev": repo_rev(), "seed": a.seed, "tier": a.tier},
                      f, indent=1, default=engine._json_default)
        lines.append((f"VIOLATION property={prop} replay={os.path.relpath(path, VERIF)}", v["message"]))

    evaluations = sum(m["evaluations"] for m in merged.values())
    distinct = sum(len(m["fps"]) for m in merged.values())
    samples = []
    for m in merged.values():
        for s in m["samples"][:3]:
            samples.append({"sub": m["name"], "case": s})
    sub_reports = []
    for name, m in merged.items():
        sm = sub_meta[name]
        sub_reports.append({
            "sub": name, "rule": sm.rule, "evaluations": m["evaluations"], "distinct_nontrivial": len(m["fps"]),
            "out_of_domain_skipped": m["skipped"], "budget_skipped": m["budget_skipped"],
            "excluded_known": m["excluded_known"], "classes": dict(sorted(m["classes"].items())),
            "lanes": m["lanes"], "max_observed": m["metrics"], "exhaustive": bool(m["exhaustive"] and sm.cases is not None),
            "wall_s": round(m["wall_s"], 2)})
    evidence = {
        "property_id": prop,
        "tier": a.tier,
        "seed": a.seed,
        "level": "exploration",
        "coverage": {
            "evaluations": evaluations,
            "distinct_nontrivial": distinct,
            "rule": getattr(mod, "RULE", ""),
            "samples": samples,
            "subchecks": sub_reports,
            "excluded_known": {k: n for m in merged.values() for k, n in m["excluded_known"].items()},
            "workers": len(workers),
            "repo_rev": repo_rev(),
            "exhaustive": bool(sub_reports) and all(s["exhaustive"] for s in sub_reports),
            "known_findings_reported": known_lines,
        },
        "assumptions": list(getattr(mod, "ASSUMPTIONS", [])),
        "wall_s": round(time.time() - t0, 2),
        "violations": len(lines),
    }
    if not a.no_evidence and a.sub is None:
        os.makedirs(os.path.join(VERIF, "evidence"), exist_ok=True)
        with open(os.path.join(VERIF, "evidence", f"{prop}.json"), "w") as f:
            json.dump(evidence, f, indent=1, default=engine._json_default)
            f.write("\n")

    for ln in known_lines:
        print(ln)
    for n in notes:
        print(n)
    for ln, msg in lines:
        print(ln)
        print("   ", msg)
    summary = ", ".join(f"{s['sub']}:{s['evaluations']}/{s['distinct_nontrivial']}" for s in sub_reports)
    print(f"[{prop} {a.tier} seed={a.seed}] evaluations={evaluations} distinct_nontrivial={distinct} ({summary}) "
          f"violations={len(lines)} wall={evidence['wall_s']}s")
    if lines:
        return 1
    if errors:
        print("HARNESS-ERROR (inconclusive, not a violation):")
        for e in errors[:5]:
            print(e)
        return 2
    if evaluations < 1 or distinct < 2:
        print("HARNESS-ERROR: nothing non-trivial explored")
        return 2
    return 0


if __name__ == "__main__":
    main()
