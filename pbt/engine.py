"""Worker-side engine: seeding, Hypothesis settings, case bookkeeping, violations.

A property module (pbt/props/cNN.py) exposes

    ID, RULE, ASSUMPTIONS, SUBS = [Sub(...), ...]
    KNOWN_CLASSES = {"<finding id>": predicate(case) -> bool}      (optional)

Each Sub generates JSON-able *cases* (Hypothesis strategy or plain enumeration) and checks them with
``body(ctx, case)``.  The body raises ``Violation`` when the oracle disagrees and reports what the case
looked like through ``ctx.classify`` / ``ctx.nontrivial``.  Everything random comes out of Hypothesis;
the case dict alone determines the execution, so a replay file is just the case.
"""

from __future__ import annotations

import hashlib
import json
import os
import sys
import time
import traceback
from dataclasses import dataclass, field
from typing import Any, Callable, Iterable, Optional

VERIF_DIR = os.path.dirname(os.path.dirname(os.path.abspath(__file__)))


# ----------------------------------------------------------------------------------------------
# environment bootstrap (must run before jax is imported)
# ----------------------------------------------------------------------------------------------
def bootstrap(lane: str) -> None:
    os.environ.setdefault("JAX_PLATFORMS", "cpu")
    os.environ["JAX_ENABLE_X64"] = "1" if lane == "f64" else "0"
    os.environ.setdefault("PYTHONDONTWRITEBYTECODE", "1")
    os.environ.setdefault("TF_CPP_MIN_LOG_LEVEL", "3")
    flags = os.environ.get("XLA_FLAGS", "")
    if "xla_force_host_platform_device_count" not in flags and "intra_op" not in flags:
        os.environ["XLA_FLAGS"] = (
            flags + " --xla_cpu_multi_thread_eigen=false intra_op_parallelism_threads=1"
        ).strip()
    for v in ("OMP_NUM_THREADS", "OPENBLAS_NUM_THREADS", "MKL_NUM_THREADS"):
        os.environ.setdefault(v, "1")
    src = repo_src()
    if src in sys.path:
        sys.path.remove(src)
    sys.path.insert(0, src)
    import fdtdx  # noqa

    got = os.path.realpath(fdtdx.__file__)
    if not got.startswith(os.path.realpath(src) + os.sep):
        raise HarnessError(f"fdtdx imported from {got}, expected under {src}")
    import jax

    jax.config.update("jax_enable_x64", lane == "f64")
    # Persistent XLA compilation cache: most of a scene's cost is compiling hundreds of tiny eager ops for a new
    # grid shape. Keys are HLO-based, so edited fdtdx code simply misses; nothing depends on the cache existing.
    if os.environ.get("VERIF_NO_JAXCACHE") != "1":
        try:
            cdir = os.environ.get("VERIF_JAXCACHE", os.path.join(VERIF_DIR, ".jaxcache"))
            os.makedirs(cdir, exist_ok=True)
            jax.config.update("jax_compilation_cache_dir", cdir)
            jax.config.update("jax_persistent_cache_min_compile_time_secs", 0.0)
            jax.config.update("jax_persistent_cache_min_entry_size_bytes", -1)
        except Exception:
            pass
    try:  # silence the library's own logger; failures are reported by the engine
        from loguru import logger

        logger.remove()
    except Exception:
        pass


def repo_src() -> str:
    return os.environ.get("VERIF_REPO_SRC", "/repo/src")


# ----------------------------------------------------------------------------------------------
# exceptions
# ----------------------------------------------------------------------------------------------
class Violation(Exception):
    def __init__(self, msg: str, observed: Any = None, expected: Any = None, tolerance: Any = None):
        super().__init__(msg)
        self.msg = msg
        self.observed = observed
        self.expected = expected
        self.tolerance = tolerance


class HarnessError(Exception):
    pass


class Skip(Exception):
    """The generated case is outside the property's domain (counted, never a violation)."""


# ----------------------------------------------------------------------------------------------
# Sub-check description
# ----------------------------------------------------------------------------------------------
@dataclass
class Sub:
    name: str
    body: Callable[["Ctx", dict], None]
    strategy: Optional[Callable[["Ctx"], Any]] = None  # -> hypothesis SearchStrategy of JSON cases
    cases: Optional[Callable[["Ctx"], Iterable[dict]]] = None  # enumeration instead of a strategy
    quick: int = 50  # examples per run, summed over shards (hypothesis) / ignored for enumerations
    thorough: int = 2000
    lanes: tuple = ("f64",)
    f32_fraction: float = 0.25  # share of the examples given to the f32 lane when both lanes are listed
    exhaustive: bool = False  # enumeration covers its finite domain completely (in this tier)
    exhaustive_quick: bool = False
    quick_shards: int = 1  # number of worker processes per lane in the quick tier
    rule: str = ""
    foreign_exceptions_are_violations: bool = True
    max_seconds_quick: float = 240.0
    max_seconds_thorough: float = 1500.0


def canon(case: Any) -> str:
    return json.dumps(case, sort_keys=True, separators=(",", ":"), default=_json_default)


def _json_default(o):
    try:
        import numpy as np

        if isinstance(o, np.generic):
            return o.item()
        if isinstance(o, np.ndarray):
            return o.tolist()
    except Exception:
        pass
    if isinstance(o, (set, frozenset, tuple)):
        return list(o)
    if isinstance(o, complex):
        return {"re": o.real, "im": o.imag}
    return repr(o)


def fingerprint(case: Any) -> str:
    return hashlib.sha1(canon(case).encode()).hexdigest()[:16]


# ----------------------------------------------------------------------------------------------
# Ctx: what a body sees
# ----------------------------------------------------------------------------------------------
@dataclass
class SubResult:
    name: str
    lane: str
    evaluations: int = 0
    skipped: int = 0
    budget_skipped: int = 0
    excluded_known: dict = field(default_factory=dict)
    nontrivial_fps: set = field(default_factory=set)
    all_fps: int = 0
    classes: dict = field(default_factory=dict)
    samples: list = field(default_factory=list)
    violations: list = field(default_factory=list)
    errors: list = field(default_factory=list)
    metrics: dict = field(default_factory=dict)  # name -> max observed value
    exhaustive: bool = False
    wall_s: float = 0.0

    def to_json(self) -> dict:
        d = dict(self.__dict__)
        d["nontrivial_fps"] = sorted(self.nontrivial_fps)
        return d


class Ctx:
    def __init__(self, prop_id, tier, lane, seed, shard, nshards, known_active):
        self.prop_id = prop_id
        self.tier = tier
        self.lane = lane
        self.seed = seed
        self.shard = shard
        self.nshards = nshards
        self.known_active = known_active  # {finding id: predicate}
        self.res: SubResult | None = None
        self._case = None
        self._nontrivial = False
        self._labels: list[str] = []
        self.deadline = float("inf")
        self.replaying = False
        self.failed_fps: set[str] = set()  # cases that already failed: Hypothesis re-executes them, never budget-skip

    # tolerances ---------------------------------------------------------------------------
    @property
    def f64(self) -> bool:
        return self.lane == "f64"

    def tol(self, f64: float = 1e-9, f32: float = 2e-4) -> float:
        return f64 if self.f64 else f32

    # reporting ----------------------------------------------------------------------------
    def classify(self, *labels: str) -> None:
        self._labels.extend(labels)

    def nontrivial(self, flag: bool = True) -> None:
        self._nontrivial = self._nontrivial or bool(flag)

    def metric(self, name: str, value: float) -> None:
        try:
            v = float(value)
        except Exception:
            return
        m = self.res.metrics
        if name not in m or v > m[name]:
            m[name] = v

    def check(self, cond: bool, msg: str, observed=None, expected=None, tolerance=None) -> None:
        if not cond:
            raise Violation(msg, observed, expected, tolerance)

    def close(self, a, b, scale=None, tol=None, msg="arrays differ", metric=None) -> float:
        """max|a-b| <= tol*scale, scale defaults to max(|a|,|b|,tiny); NaN counts as a difference."""
        import numpy as np

        a = np.asarray(a)
        b = np.asarray(b)
        if a.shape != b.shape:
            raise Violation(f"{msg}: shape {a.shape} vs {b.shape}", list(a.shape), list(b.shape))
        if a.size == 0:
            return 0.0
        if tol is None:
            tol = self.tol()
        if scale is None:
            fa = np.abs(a[np.isfinite(a)]) if a.dtype.kind in "fc" else np.abs(a)
            fb = np.abs(b[np.isfinite(b)]) if b.dtype.kind in "fc" else np.abs(b)
            scale = max(float(fa.max()) if fa.size else 0.0, float(fb.max()) if fb.size else 0.0)
        scale = max(float(scale), 1e-300)
        d = np.abs(a.astype(np.complex128) - b.astype(np.complex128))
        bad = ~np.isfinite(d)
        d = np.where(bad, np.inf, d)
        err = float(d.max()) / scale
        if metric:
            self.metric(metric, err)
        if not (err <= tol):
            idx = np.unravel_index(int(np.argmax(d)), d.shape)
            raise Violation(
                f"{msg}: rel err {err:.3e} > {tol:.1e} at index {tuple(int(i) for i in idx)}",
                observed=_scalar(a[idx]),
                expected=_scalar(b[idx]),
                tolerance=tol,
            )
        return err

    def excluded(self, case) -> bool:
        for fid, pred in self.known_active.items():
            try:
                hit = pred(case)
            except Exception:
                hit = False
            if hit:
                self.res.excluded_known[fid] = self.res.excluded_known.get(fid, 0) + 1
                return True
        return False


def _scalar(x):
    try:
        import numpy as np

        x = np.asarray(x)
        if x.dtype.kind == "c":
            return {"re": float(x.real), "im": float(x.imag)}
        return float(x)
    except Exception:
        return repr(x)


# ----------------------------------------------------------------------------------------------
# running one case
# ----------------------------------------------------------------------------------------------
def _innermost_owner(tb) -> str:
    """'fdtdx' if the exception surfaced below an fdtdx frame that is deeper than any pbt frame."""
    frames = traceback.extract_tb(tb)
    src = os.path.realpath(repo_src())
    last_pbt = -1
    last_fdtdx = -1
    for i, fr in enumerate(frames):
        fn = os.path.realpath(fr.filename)
        if fn.startswith(os.path.join(VERIF_DIR, "pbt")):
            last_pbt = i
        elif fn.startswith(src):
            last_fdtdx = i
    return "fdtdx" if last_fdtdx > last_pbt else "harness"


def run_case(ctx: Ctx, sub: Sub, case: dict, count: bool = True):
    """Returns None or a violation record."""
    res = ctx.res
    ctx._case = case
    ctx._nontrivial = False
    ctx._labels = []
    if time.time() > ctx.deadline and not ctx.replaying and fingerprint(case) not in ctx.failed_fps:
        res.budget_skipped += 1
        return None
    if not ctx.replaying and ctx.excluded(case):
        return None
    try:
        sub.body(ctx, case)
    except Skip:
        res.skipped += 1
        return None
    except Violation as v:
        _account(ctx, case, count)
        ctx.failed_fps.add(fingerprint(case))
        return {
            "sub": sub.name,
            "lane": ctx.lane,
            "case": case,
            "message": v.msg,
            "observed": v.observed,
            "expected": v.expected,
            "tolerance": v.tolerance,
        }
    except HarnessError:
        raise
    except Exception as e:  # noqa
        owner = _innermost_owner(e.__traceback__)
        tb = "".join(traceback.format_exception(type(e), e, e.__traceback__))[-3000:]
        if owner == "fdtdx" and sub.foreign_exceptions_are_violations:
            _account(ctx, case, count)
            ctx.failed_fps.add(fingerprint(case))
            return {
                "sub": sub.name,
                "lane": ctx.lane,
                "case": case,
                "message": f"unexpected {type(e).__name__} from fdtdx on an in-domain case: {e}"[:600],
                "observed": tb,
                "expected": "no exception",
                "tolerance": None,
            }
        raise HarnessError(f"{sub.name}: {type(e).__name__}: {e}\n{tb}") from e
    _account(ctx, case, count)
    return None


def _account(ctx: Ctx, case, count=True):
    if not count:
        return
    res = ctx.res
    res.evaluations += 1
    for lab in ctx._labels:
        res.classes[lab] = res.classes.get(lab, 0) + 1
    if ctx._nontrivial:
        fp = fingerprint(case)
        if fp not in res.nontrivial_fps:
            res.nontrivial_fps.add(fp)
            n = len(res.nontrivial_fps)
            # keep first, then a thinning reservoir (deterministic): 1st, 2nd, 4th, 8th, ...
            if n & (n - 1) == 0 and len(res.samples) < 12:
                s = canon(case)
                res.samples.append(json.loads(s) if len(s) < 6000 else {"truncated": s[:6000]})


# ----------------------------------------------------------------------------------------------
# running one sub
# ----------------------------------------------------------------------------------------------
def run_sub(ctx: Ctx, sub: Sub, n_examples: int) -> SubResult:
    res = SubResult(name=sub.name, lane=ctx.lane)
    ctx.res = res
    t0 = time.time()
    budget = sub.max_seconds_quick if ctx.tier == "quick" else sub.max_seconds_thorough
    ctx.deadline = t0 + budget
    try:
        if sub.cases is not None:
            _run_enumeration(ctx, sub, res)
        else:
            _run_hypothesis(ctx, sub, res, n_examples)
    except HarnessError as e:
        res.errors.append(str(e)[-4000:])
    res.wall_s = time.time() - t0
    return res


def _run_enumeration(ctx: Ctx, sub: Sub, res: SubResult):
    complete = True
    for i, case in enumerate(sub.cases(ctx)):
        if i % ctx.nshards != ctx.shard:
            continue
        if time.time() > ctx.deadline:
            res.budget_skipped += 1
            complete = False
            continue
        v = run_case(ctx, sub, case)
        if v is not None:
            res.violations.append(v)
            if len(res.violations) >= 3:
                complete = False
                break
    res.exhaustive = complete and (sub.exhaustive if ctx.tier == "thorough" else sub.exhaustive_quick)


def _run_hypothesis(ctx: Ctx, sub: Sub, res: SubResult, n_examples: int):
    import hypothesis
    from hypothesis import HealthCheck, Phase, given, settings

    if n_examples <= 0:
        return
    phases = [Phase.explicit, Phase.generate]
    if ctx.tier == "thorough":
        phases.append(Phase.shrink)
    st_settings = settings(
        max_examples=n_examples,
        database=None,
        deadline=None,
        derandomize=False,
        report_multiple_bugs=False,
        phases=phases,
        suppress_health_check=[HealthCheck.too_slow, HealthCheck.data_too_large, HealthCheck.large_base_example],
        print_blob=False,
    )
    strat = sub.strategy(ctx)
    last_fail: dict = {}

    sub_salt = int(hashlib.sha1(sub.name.encode()).hexdigest()[:6], 16)
    seed_value = (ctx.seed * 1009 + ctx.shard) * 7919 + sub_salt + (17 if ctx.lane == "f32" else 0)

    @hypothesis.seed(seed_value)
    @settings(st_settings)
    @given(strat)
    def prop(case):
        v = run_case(ctx, sub, case)
        if v is not None:
            last_fail["v"] = v
            raise _Fail()

    try:
        prop()
    except _Fail:
        res.violations.append(last_fail["v"])
    except hypothesis.errors.FailedHealthCheck as e:
        raise HarnessError(f"{sub.name}: generator health check failed: {e}") from e
    except hypothesis.errors.Unsatisfiable as e:
        raise HarnessError(f"{sub.name}: generator unsatisfiable: {e}") from e
    except hypothesis.errors.Flaky as e:
        # the body is a pure function of the case; flakiness means state leaked between cases
        if "v" in last_fail:
            last_fail["v"]["message"] += " [hypothesis reported the case as flaky]"
            res.violations.append(last_fail["v"])
        else:
            raise HarnessError(f"{sub.name}: flaky: {e}") from e
    except BaseExceptionGroup as eg:  # hypothesis may wrap
        if "v" in last_fail:
            res.violations.append(last_fail["v"])
        else:
            raise HarnessError(f"{sub.name}: {eg!r}") from eg


class _Fail(Exception):
    pass


# ----------------------------------------------------------------------------------------------
# helper strategies shared by the property modules
# ----------------------------------------------------------------------------------------------
def rng_from(seed: int):
    import numpy as np

    return np.random.default_rng(int(seed) & 0xFFFFFFFF)
