"""C34 — symmetric placement keeps the upper half and clips objects consistently.

Oracle: a direct integer model written from the SimulationConfig.symmetry documentation.  For a volume of n_a cells
and symmetry s_a on axis a (plane index m_a = n_a / 2 when s_a != 0):

* n_a odd (or < 2) on a symmetric axis  ->  place_objects raises ValueError;
* the reduced volume has n_a - m_a cells on symmetric axes (the *upper* half: on a non-uniform grid the kept
  edges are edges[m_a:]), n_a cells elsewhere; grid, fields and material arrays have that shape;
* an object with full-domain interval [s0, s1) keeps [max(s0, m) - m, s1 - m) on a symmetric axis, is dropped when
  that is empty on any symmetric axis, and is untouched on the other axes;
* every survivor (and the volume) reports `unreduced_grid_slice_tuple` = (s0 - m, s1 - m) on symmetric axes and
  (s0, s1) on the others;
* there is exactly one PEC boundary object per axis with s_a = -1, one cell thick at reduced index 0 of that axis,
  spanning the reduced volume on the other axes, facing "-"; no boundary object at all for s_a = +1.
"""

from __future__ import annotations

import itertools

import numpy as np
from hypothesis import strategies as st

from pbt.engine import Sub

ID = "C34"
RULE = (
    "placed: Hypothesis draws a symmetry tuple from {-1,0,1}^3 (mostly non-zero), a volume whose axis lengths come "
    "from {4,6,8,10} (even) or, with probability ~1/6 per case, an odd/too-small length {1,3,5,7} on one axis, a uniform or "
    "mirror-symmetric rectilinear grid, and 1..4 material boxes (+ optionally an energy detector box) whose interval on "
    "every axis is drawn from the seven relations to the plane {below, touching from below, straddling symmetrically, "
    "straddling asymmetrically, touching from above, above, full axis}; the scene goes through fdtdx.place_objects. "
    "reduce: the slice reduction and the wall construction are called directly for every box of a small volume "
    "(every interval [s0,s1) of an axis of 2/4/6 cells, combined over the three axes) under all 27 symmetry tuples. "
    "Non-trivial = at least one symmetric axis and at least one object that is clipped or dropped."
)
ASSUMPTIONS = [
    "the plane index is n/2 counted from the volume's lower edge (the geometric centre of an even axis)",
    "'PEC wall' is identified as a PerfectElectricConductor boundary object in the returned container; the test "
    "scenes contain no other boundary objects",
    "an odd count on a non-symmetric axis is legal",
    "rectilinear grids are generated mirror-symmetric on symmetric axes (documented precondition of the reduction)",
]

D = 5e-8
RELATIONS = ("below", "touch_below", "straddle_sym", "straddle_asym", "touch_above", "above", "full")


# ----------------------------------------------------------------------------------------------
# the model
# ----------------------------------------------------------------------------------------------
def model(shape, sym, boxes):
    """boxes: {name: ((s0,s1),)*3} full-domain. -> None when a ValueError is expected, else dict."""
    m = [0, 0, 0]
    red = []
    for a in range(3):
        if sym[a] != 0:
            if shape[a] < 2 or shape[a] % 2:
                return None
            m[a] = shape[a] // 2
            red.append(shape[a] - m[a])
        else:
            red.append(shape[a])
    kept, unred, dropped = {}, {}, []
    for name, sl in boxes.items():
        c, u, drop = [], [], False
        for a in range(3):
            s0, s1 = sl[a]
            if sym[a] != 0:
                c0, c1 = max(s0, m[a]) - m[a], s1 - m[a]
                drop = drop or c1 <= c0
                c.append((c0, c1))
                u.append((s0 - m[a], s1 - m[a]))
            else:
                c.append((s0, s1))
                u.append((s0, s1))
        if drop:
            dropped.append(name)
        else:
            kept[name] = tuple(c)
            unred[name] = tuple(u)
    walls = []
    for a in range(3):
        if sym[a] == -1:
            sl = [(0, red[b]) for b in range(3)]
            sl[a] = (0, 1)
            walls.append((a, tuple(sl)))
    return {"m": m, "reduced": tuple(red), "kept": kept, "unreduced": unred, "dropped": sorted(dropped),
            "walls": walls,
            "vol_unreduced": tuple((0 - m[a], shape[a] - m[a]) if sym[a] != 0 else (0, shape[a]) for a in range(3))}


def tt(x):
    return tuple(tuple(int(v) for v in p) for p in x)


# ----------------------------------------------------------------------------------------------
# sub 1: through place_objects
# ----------------------------------------------------------------------------------------------
@st.composite
def interval(draw, n, rel):
    """[s0, s1) inside [0, n) in relation `rel` to the plane m = n // 2 (n >= 4 even gives every relation room;
    otherwise falls back to any interval)."""
    m = n // 2
    if n < 4 or n % 2:
        a = draw(st.integers(0, n - 1))
        return [a, draw(st.integers(a + 1, n))]
    if rel == "below":
        b = draw(st.integers(1, m - 1))
        return [draw(st.integers(0, b - 1)), b]
    if rel == "touch_below":
        return [draw(st.integers(0, m - 1)), m]
    if rel == "straddle_sym":
        k = draw(st.integers(1, m))
        return [m - k, m + k]
    if rel == "straddle_asym":
        k0 = draw(st.integers(1, m))
        k1 = draw(st.integers(1, m).filter(lambda k: k != k0))
        return [m - k0, m + k1]
    if rel == "touch_above":
        return [m, draw(st.integers(m + 1, n))]
    if rel == "above":
        a = draw(st.integers(m + 1, n - 1))
        return [a, draw(st.integers(a + 1, n))]
    return [0, n]


@st.composite
def placed_strategy(draw, ctx):
    sym = [draw(st.sampled_from([-1, 1, 0])) for _ in range(3)]
    if sym == [0, 0, 0] and draw(st.integers(0, 3)):
        sym[draw(st.integers(0, 2))] = draw(st.sampled_from([-1, 1]))
    shape = [draw(st.sampled_from([4, 6, 8, 10])) for _ in range(3)]
    if draw(st.integers(0, 5)) == 0:
        shape[draw(st.integers(0, 2))] = draw(st.sampled_from([1, 3, 5, 7]))
    kind = draw(st.sampled_from(["uniform", "uniform", "rect"]))
    grid = {"kind": kind}
    if kind == "rect":
        widths = []
        for a in range(3):
            n = shape[a]
            half = [draw(st.sampled_from([0.6, 0.75, 1.0, 1.25, 1.6])) for _ in range((n + 1) // 2)]
            w = half[: n // 2][::-1] + ([half[-1]] if n % 2 else []) + half[: n // 2]
            # mirror-symmetric about the centre: w[i] == w[n-1-i]
            widths.append(w)
        grid["widths"] = widths
    boxes = []
    for i in range(draw(st.integers(1, 4))):
        iv = [draw(interval(shape[a], draw(st.sampled_from(RELATIONS)))) for a in range(3)]
        boxes.append({"name": f"box{i}", "iv": iv, "eps": float(2 + i)})
    det = None
    if draw(st.integers(0, 2)) == 0:
        det = {"name": "det0", "iv": [draw(interval(shape[a], draw(st.sampled_from(RELATIONS)))) for a in range(3)]}
    return {"shape": shape, "sym": sym, "grid": grid, "boxes": boxes, "det": det}


def _edges(case):
    g = case["grid"]
    if g["kind"] == "rect":
        return [np.concatenate([[0.0], np.cumsum(np.asarray(w, dtype=np.float64))]) * D for w in g["widths"]]
    return [np.arange(n + 1, dtype=np.float64) * D for n in case["shape"]]


def placed_body(ctx, case):
    import fdtdx
    import jax
    import jax.numpy as jnp

    shape, sym = tuple(case["shape"]), tuple(case["sym"])
    E = _edges(case)
    rect = case["grid"]["kind"] == "rect"
    g = fdtdx.RectilinearGrid(x_edges=E[0], y_edges=E[1], z_edges=E[2]) if rect else fdtdx.UniformGrid(spacing=D)
    fdt = jnp.float64 if ctx.f64 else jnp.float32
    cfg = fdtdx.SimulationConfig(grid=g, time=2e-15, backend="cpu", dtype=fdt, symmetry=sym)
    vol = fdtdx.SimulationVolume(partial_grid_shape=shape, name="volume")
    objs, cons, full = [vol], [], {}

    def put(o, iv):
        objs.append(o)
        full[o.name] = tt(iv)
        axes, sides = (0, 1, 2, 0, 1, 2), ("-", "-", "-", "+", "+", "+")
        idx = [iv[0][0], iv[1][0], iv[2][0], iv[0][1], iv[1][1], iv[2][1]]
        if rect:
            cons.append(fdtdx.RealCoordinateConstraint(object=o.name, axes=axes, sides=sides,
                                                       coordinates=tuple(float(E[a][i]) for a, i in zip(axes, idx))))
        else:
            cons.append(o.set_grid_coordinates(axes=axes, sides=sides, coordinates=tuple(idx)))

    for b in case["boxes"]:
        put(fdtdx.UniformMaterialObject(material=fdtdx.Material(permittivity=b["eps"]), name=b["name"]), b["iv"])
    if case["det"]:
        put(fdtdx.EnergyDetector(name=case["det"]["name"], dtype=fdt, plot=False), case["det"]["iv"])

    exp = model(shape, sym, full)
    nsym = sum(1 for s in sym if s != 0)
    ctx.classify(f"sym_axes={nsym}", "grid=" + case["grid"]["kind"], "n_pec=%d" % sum(1 for s in sym if s == -1))

    if exp is None:
        ctx.classify("odd-count")
        ctx.nontrivial(True)
        try:
            fdtdx.place_objects(objs, cfg, cons, jax.random.PRNGKey(0))
        except ValueError:
            return
        ctx.check(False, f"odd/too small cell count {shape} on a symmetric axis {sym} was accepted",
                  observed="no exception", expected="ValueError")
        return

    n_clipped = sum(1 for k in exp["kept"] if exp["kept"][k] != exp["unreduced"][k])
    if exp["dropped"]:
        ctx.classify("has-dropped")
    if n_clipped:
        ctx.classify("has-clipped")
    ctx.nontrivial(nsym > 0 and (n_clipped > 0 or bool(exp["dropped"])))

    objects, arrays, _params, config, _ = fdtdx.place_objects(objs, cfg, cons, jax.random.PRNGKey(0))

    red = exp["reduced"]
    ctx.check(tuple(config.grid.shape) == red, "returned grid does not have the reduced shape",
              observed=list(config.grid.shape), expected=list(red))
    ctx.check(tuple(arrays.inv_permittivities.shape[1:]) == red and tuple(arrays.fields.E.shape[1:]) == red,
              "arrays do not have the reduced shape", observed=list(arrays.fields.E.shape), expected=list(red))
    # kept upper half: cell widths of the reduced grid = widths of the upper half of the full grid
    for a in range(3):
        got = np.diff(np.asarray(config.grid.edges(a), dtype=np.float64))
        want = np.diff(E[a][exp["m"][a]:])
        ctx.close(got, want, tol=ctx.tol(1e-9, 1e-5), msg=f"reduced grid is not the upper half on axis {a}")
        if rect:
            # an explicit grid's edge arrays are sliced onto the kept upper half: the reduced grid keeps the upper half's
            # own coordinates (not those of the discarded half, nor re-based ones)
            ge = np.asarray(config.grid.edges(a), dtype=np.float64)
            we = E[a][exp["m"][a]:]
            ctx.close(ge, we, scale=float(np.abs(E[a]).max()), tol=ctx.tol(1e-9, 1e-5),
                      msg=f"reduced explicit grid does not keep the upper half's edge coordinates on axis {a}")

    by_name = {o.name: o for o in objects.objects}
    volp = by_name["volume"]
    ctx.check(tt(volp.grid_slice_tuple) == tuple((0, r) for r in red), "volume slice is not the reduced volume",
              observed=tt(volp.grid_slice_tuple), expected=[(0, r) for r in red])
    ctx.check(tt(volp.unreduced_grid_slice_tuple) == exp["vol_unreduced"], "volume's unreduced extent wrong",
              observed=tt(volp.unreduced_grid_slice_tuple), expected=exp["vol_unreduced"])

    clipped = 0
    for name, sl in full.items():
        if name in exp["dropped"]:
            ctx.check(name not in by_name, f"{name} lies in the discarded half but survived placement",
                      observed=tt(by_name[name].grid_slice_tuple) if name in by_name else None, expected="dropped")
            continue
        ctx.check(name in by_name, f"{name} reaches into the kept half but was dropped",
                  observed="dropped", expected=exp["kept"][name])
        o = by_name[name]
        ctx.check(tt(o.grid_slice_tuple) == exp["kept"][name], f"{name}: clipped slice wrong (full {sl}, sym {sym})",
                  observed=tt(o.grid_slice_tuple), expected=exp["kept"][name])
        ctx.check(tt(o.unreduced_grid_slice_tuple) == exp["unreduced"][name],
                  f"{name}: unreduced extent wrong (full {sl}, sym {sym}, plane {exp['m']})",
                  observed=tt(o.unreduced_grid_slice_tuple), expected=exp["unreduced"][name])
        for a in range(3):
            want = sym[a] != 0 and sl[a][0] < exp["m"][a]
            ctx.check(bool(o.straddles_symmetry_plane(a)) == want, f"{name}: straddles_symmetry_plane({a}) wrong",
                      observed=bool(o.straddles_symmetry_plane(a)), expected=want)
        if exp["kept"][name] != exp["unreduced"][name]:
            clipped += 1

    # walls: only PEC, only on electric planes
    bounds = list(objects.boundary_objects)
    pec = [b for b in bounds if isinstance(b, fdtdx.PerfectElectricConductor)]
    ctx.check(len(bounds) == len(pec), "a non-PEC boundary object was added",
              observed=[type(b).__name__ for b in bounds], expected="PEC only")
    got_walls = sorted((int(b.axis), tt(b.grid_slice_tuple)) for b in pec)
    ctx.check(got_walls == sorted(exp["walls"]), f"PEC walls do not match the electric planes of {sym}",
              observed=got_walls, expected=sorted(exp["walls"]))
    for b in pec:
        ctx.check(b.direction == "-", "symmetry wall does not face the min side", observed=b.direction, expected="-")
    extra = set(by_name) - set(full) - {"volume"} - {b.name for b in pec}
    ctx.check(not extra, "unexpected extra objects in the container", observed=sorted(extra), expected=[])

    # materials are painted through the clipped slices (boxes share placement_order 0: list order)
    eps = np.ones(red)
    for b in case["boxes"]:
        if b["name"] in exp["kept"]:
            s = exp["kept"][b["name"]]
            eps[s[0][0]:s[0][1], s[1][0]:s[1][1], s[2][0]:s[2][1]] = b["eps"]
    ctx.close(np.asarray(arrays.inv_permittivities)[0], 1.0 / eps, tol=ctx.tol(1e-12, 1e-6),
              msg="materials are not painted through the clipped boxes")
    if case["det"] and case["det"]["name"] in exp["kept"]:
        ctx.classify("detector-kept")



# ----------------------------------------------------------------------------------------------
# sub 2: reduction + walls called directly, enumerated
# ----------------------------------------------------------------------------------------------
def _intervals(n):
    return [(a, b) for a in range(n) for b in range(a + 1, n + 1)]


def reduce_cases(ctx):
    """One case = (volume shape, symmetry tuple, batch of boxes).  Thorough: every box (full product of the per-axis
    intervals) of each listed volume.  Quick: full product for 2x4x2, a diagonal slice (each axis cycles through all
    of its intervals, offset against the others) for 4x6x4."""
    syms = list(itertools.product((-1, 0, 1), repeat=3))
    vols = [(2, 4, 2), (4, 6, 4), (6, 4, 6), (4, 2, 6)]
    odd = [(3, 4, 4), (4, 5, 6), (6, 4, 1), (5, 3, 7)]
    if ctx.tier == "quick":
        vols, odd = vols[:2], odd[:2]
    for shape in vols:
        iv = [_intervals(n) for n in shape]
        if ctx.tier != "quick" or shape == (2, 4, 2):
            boxes = [list(map(list, c)) for c in itertools.product(*iv)]
        else:
            L = max(len(x) for x in iv)
            boxes = []
            for off in range(3):
                for i in range(L):
                    boxes.append([list(iv[0][i % len(iv[0])]), list(iv[1][(i * 3 + off) % len(iv[1])]),
                                  list(iv[2][(i * 5 + 2 * off) % len(iv[2])])])
        for s in syms:
            yield {"shape": list(shape), "sym": list(s), "boxes": boxes}
    for shape in odd:
        for s in syms:
            yield {"shape": list(shape), "sym": list(s), "boxes": [[[0, 1], [0, 1], [0, 1]]]}


def reduce_body(ctx, case):
    import fdtdx
    import jax
    from fdtdx.fdtd.symmetry import make_symmetry_walls, reduce_resolved_slices

    shape, sym = tuple(case["shape"]), tuple(case["sym"])
    cfg = fdtdx.SimulationConfig(grid=fdtdx.UniformGrid(spacing=D), time=2e-15, backend="cpu", symmetry=sym)
    vol = fdtdx.SimulationVolume(partial_grid_shape=shape, name="volume")
    omap = {"volume": vol}
    resolved = {"volume": tuple((0, n) for n in shape)}
    full = {}
    for i, b in enumerate(case["boxes"]):
        name = f"b{i}"
        omap[name] = fdtdx.UniformMaterialObject(material=fdtdx.Material(permittivity=2.0), name=name)
        resolved[name] = tt(b)
        full[name] = tt(b)
    exp = model(shape, sym, full)
    nsym = sum(1 for s in sym if s != 0)
    ctx.classify(f"sym_axes={nsym}")
    if nsym == 0:
        # place_objects does not call the reduction without symmetry; nothing to decide here
        ctx.classify("no-symmetry")
        walls = make_symmetry_walls(config=cfg, reduced_volume_shape=shape, key=jax.random.PRNGKey(0),
                                    existing_names=set(omap))
        ctx.check(len(walls) == 0, "walls without symmetry", observed=len(walls), expected=0)
        return
    if exp is None:
        ctx.classify("odd-count")
        ctx.nontrivial(True)
        try:
            reduce_resolved_slices(resolved_slices=resolved, object_map=omap, config=cfg, volume_name="volume")
        except ValueError:
            return
        ctx.check(False, f"odd/too small cell count {shape} on a symmetric axis {sym} was accepted",
                  observed="no exception", expected="ValueError")
        return
    ctx.nontrivial(bool(exp["dropped"]) or any(exp["kept"][k] != exp["unreduced"][k] for k in exp["kept"]))
    new, unred, dropped, red = reduce_resolved_slices(resolved_slices=resolved, object_map=omap, config=cfg,
                                                      volume_name="volume")
    ctx.check(tuple(red) == exp["reduced"], "reduced volume shape wrong", observed=list(red),
              expected=list(exp["reduced"]))
    ctx.check(tt(new["volume"]) == tuple((0, r) for r in exp["reduced"]), "reduced volume slice wrong",
              observed=tt(new["volume"]), expected=[(0, r) for r in exp["reduced"]])
    ctx.check(tt(unred["volume"]) == exp["vol_unreduced"], "volume's unreduced extent wrong",
              observed=tt(unred["volume"]), expected=exp["vol_unreduced"])
    ctx.check(sorted(dropped) == exp["dropped"], f"dropped set wrong (shape {shape}, sym {sym})",
              observed=sorted(dropped)[:10], expected=exp["dropped"][:10])
    n_clip = 0
    for name in full:
        if name in exp["dropped"]:
            ctx.check(name not in new, f"dropped box {full[name]} still has a slice", observed=tt(new.get(name, ())))
            continue
        ctx.check(name in new and tt(new[name]) == exp["kept"][name],
                  f"clipped slice wrong for box {full[name]} (shape {shape}, sym {sym})",
                  observed=tt(new[name]) if name in new else None, expected=exp["kept"][name])
        ctx.check(name in unred and tt(unred[name]) == exp["unreduced"][name],
                  f"unreduced extent wrong for box {full[name]} (shape {shape}, sym {sym})",
                  observed=tt(unred[name]) if name in unred else None, expected=exp["unreduced"][name])
        n_clip += exp["kept"][name] != exp["unreduced"][name]
    walls = make_symmetry_walls(config=cfg, reduced_volume_shape=tuple(red), key=jax.random.PRNGKey(0),
                                existing_names=set(new))
    ctx.check(all(isinstance(w, fdtdx.PerfectElectricConductor) for w in walls), "non-PEC wall",
              observed=[type(w).__name__ for w in walls])
    got = sorted((int(w.axis), tt(w.grid_slice_tuple)) for w in walls)
    ctx.check(got == sorted(exp["walls"]), f"PEC walls do not match the electric planes of {sym}", observed=got,
              expected=sorted(exp["walls"]))
    ctx.check(all(w.direction == "-" for w in walls), "wall not on the min side")
    ctx.metric("boxes_checked", len(full))


SUBS = [
    Sub(name="placed", body=placed_body, strategy=lambda ctx: placed_strategy(ctx), quick=40, thorough=3000,
        lanes=("f64", "f32"), f32_fraction=0.2, quick_shards=2,
        rule="random scene through place_objects; slices, unreduced extents, walls, grid, arrays vs. the integer model"),
    Sub(name="reduce", body=reduce_body, cases=reduce_cases, lanes=("f64",), exhaustive=True, exhaustive_quick=False,
        rule="every per-axis interval of small volumes x all 27 symmetry tuples, reduction and walls called directly"),
]
