"""C36 — dispersive cells follow their recurrence; accepted passive media stay bounded.

recurrence (eager `forward` steps, random wall-consistent start fields, P starts at 0):
  * stored polarisation: P_{k+1} = c1 P_k + c2 P_{k-1} + c3 E_k for every pole slot, component and cell, with
    c1 = (2 - (w0 dt)^2) / (1 + g dt / 2), c2 = -(1 - g dt / 2) / (1 + g dt / 2), c3 = K dt^2 / (1 + g dt / 2),
    K = d_eps w0^2 (Lorentz) or wp^2 (Drude), recomputed here in numpy from the drawn pole parameters and painted
    into the cells by placement order (all-zero where no dispersive material / in padded pole slots);
  * zero-coefficient cells: one `forward` step of the dispersive scene and of its non-dispersive twin (same objects,
    eps_inf only) from the *same* state give the same E in every cell whose pole coefficients are all zero, and in
    dispersive cells the two differ by exactly inv_eps * sum_p (P_k - P_{k+1}) [/ (1 + c sigma eta0 inv_eps / 2)];
  * a scene whose poles all have zero strength evolves like the twin in every cell over the whole run.

bounded (jitted `lax.scan` over `forward`, 10^4 steps, closed 5..7 cell domain, random start fields):
  passive isotropic Lorentz/Drude media (d_eps >= 0, damping >= 0, eps_inf >= 1) that `place_objects` accepts with no
  exception, no Python warning and no loguru WARNING record must keep sum(eps_inf |E|^2 + mu |H|^2) <= 10 x its initial
  value at every step, and everything finite.
"""

from __future__ import annotations

import math
import warnings

import numpy as np
from hypothesis import strategies as st

from pbt import scenes
from pbt.engine import Skip, Sub
from pbt.oracles.longsims import collect, scaled

ID = "C36"
RULE = (
    "recurrence: Hypothesis draws a 4..7 cell scene with any closed/open wall kinds (zero halo, PEC, PMC, periodic), "
    "iso/diagonal background permittivity, optional electric conductivity, 1..2 dispersive boxes (own eps_inf, 1..2 "
    "Lorentz/Drude poles each, scalar or per-axis parameters incl. zero strength on single axes, w0 dt in 0.05..1.9, "
    "damping*dt 0..2) and optionally a non-dispersive box painted over them, random dense start fields (+ impulses), "
    "4..12 eager steps; non-trivial = the scene has both cells with all-zero coefficients and dispersive cells and the "
    "polarisation became non-zero (or, for the zero-strength variant, the fields are non-zero). "
    "bounded: pole shapes (1..3 isotropic poles, w0 dt, damping*dt, relative strengths) are drawn and their strengths "
    "scaled so that the coupled-scheme load L = sum_p K_p dt^2 / (4 - w0p^2 dt^2) / (eps_inf - courant^2) lands on a "
    "drawn target in {0.05 .. 0.89, 1.1, 3}; courant factor {0.5, 0.7, 0.9, 0.99}, eps_inf 1..4, medium fills the "
    "domain or a sub-box (mask) in a vacuum/dielectric background, per-axis periodic or PEC walls, 5..7 cells; every "
    "case is a 10^4-step run and non-trivial when the initial energy is > 0 and placement raised/warned nothing. "
    "Distinct = sha1 of the case JSON."
)
ASSUMPTIONS = [
    "'documented recurrence' = the module docstring of fdtdx/dispersion.py (c1, c2, c3 above; P stored in units of E)",
    "'evolves exactly like the same cell without dispersion' is a statement about the cell update: both scenes are "
    "stepped once from one common state (tolerance 1e-13 / 1e-6 of max|E|, observed 0)",
    "'field energy' = sum over cells of eps_inf |E|^2 + mu |H|^2 (plain, un-paired); 'within a factor 10' is read "
    "one-sided (no growth): passive damped media lose field energy",
    "'accepts without error or warning' = no exception, no warnings.warn, no loguru record of level >= WARNING during "
    "place_objects/apply_params",
    "bounded uses isotropic poles and an isotropic eps_inf so that the known-finding class can be stated exactly",
]

FACE_KINDS = ("none", "pec", "pmc", "periodic")


# ----------------------------------------------------------------------------------------------
# independent coefficient model
# ----------------------------------------------------------------------------------------------
def _axes(v):
    return [float(x) for x in v] if isinstance(v, (list, tuple)) else [float(v)] * 3


def pole_coefficients(pole):
    """(c1, c2, c3) per axis of one pole given in step units: w = w0*dt, g = damping*dt, de / wp = wp*dt."""
    g = _axes(pole["g"])
    if pole["type"] == "lorentz":
        w = _axes(pole["w"])
        k = [d * ww * ww for d, ww in zip(_axes(pole["de"]), w)]
    else:
        w = [0.0, 0.0, 0.0]
        k = [x * x for x in _axes(pole["wp"])]
    c1 = [(2.0 - w[a] ** 2) / (1.0 + g[a] / 2) for a in range(3)]
    c2 = [-(1.0 - g[a] / 2) / (1.0 + g[a] / 2) for a in range(3)]
    c3 = [k[a] / (1.0 + g[a] / 2) for a in range(3)]
    return c1, c2, c3


def _fd_poles(poles, dt):
    import fdtdx

    def tup(v):
        return tuple(x / dt for x in v) if isinstance(v, (list, tuple)) else v / dt

    out = []
    for p in poles:
        if p["type"] == "lorentz":
            de = tuple(p["de"]) if isinstance(p["de"], (list, tuple)) else p["de"]
            out.append(fdtdx.LorentzPole(resonance_frequency=tup(p["w"]), damping=tup(p["g"]), delta_epsilon=de))
        else:
            out.append(fdtdx.DrudePole(plasma_frequency=tup(p["wp"]), damping=tup(p["g"])))
    return tuple(out)


def _material(m, poles, dt):
    import fdtdx

    kw = {"permittivity": tuple(m["eps"]) if isinstance(m["eps"], list) else float(m["eps"])}
    if "sigE" in m:
        kw["electric_conductivity"] = float(m["sigE"])
    if poles:
        kw["dispersion"] = fdtdx.DispersionModel(poles=_fd_poles(poles, dt))
    return fdtdx.Material(**kw)


class _Capture:
    """Python warnings + loguru records (>= WARNING) raised while building a scene."""

    def __enter__(self):
        from loguru import logger

        self.records = []
        self._logger = logger
        self._sink = logger.add(lambda m: self.records.append(str(m).strip()), level="WARNING")
        self._cm = warnings.catch_warnings(record=True)
        self._wl = self._cm.__enter__()
        warnings.simplefilter("always")
        return self

    def __exit__(self, *exc):
        self._cm.__exit__(*exc)
        self._logger.remove(self._sink)
        self.warnings = [f"{w.category.__name__}: {w.message}" for w in self._wl]
        return False


def _build(spec, lane, boxes, dispersive=True):
    """scenes.build + material boxes given as {"name","lo","hi","eps","sigE"?, "poles":[...], "order"}."""
    import fdtdx

    def extra(cfg, vol):
        dt = cfg.time_step_duration
        objs, cons = [], []
        for bx in boxes:
            mat = _material(bx, bx.get("poles", []) if dispersive else [], dt)
            o = fdtdx.UniformMaterialObject(material=mat, name=bx["name"], placement_order=bx["order"])
            objs.append(o)
            cons.append(o.set_grid_coordinates(axes=(0, 1, 2, 0, 1, 2), sides=("-", "-", "-", "+", "+", "+"),
                                               coordinates=(*bx["lo"], *bx["hi"])))
        return objs, cons

    return scenes.build(spec, lane, extra_objects=extra)


# ----------------------------------------------------------------------------------------------
# (a) recurrence
# ----------------------------------------------------------------------------------------------
def _pole_strategy(draw, per_axis_ok, zero_strength):
    kind = draw(st.sampled_from(["lorentz", "lorentz", "drude"]))
    per_axis = per_axis_ok and draw(st.booleans())
    # a pole may be per-axis in all of its parameters or in a single one (here: the damping only)
    g_only = per_axis and draw(st.booleans())

    def val(choices, axes=None):
        if per_axis if axes is None else axes:
            return [draw(st.sampled_from(choices)) for _ in range(3)]
        return draw(st.sampled_from(choices))

    g = val([0.0, 0.0, 0.05, 0.3, 1.0, 2.0], axes=per_axis)
    if g_only:
        g = [0.05, 1.0, 0.3] if len(set(g)) == 1 else g
        per_axis = False  # every other parameter stays scalar
    if kind == "lorentz":
        w = val([0.05, 0.2, 0.5, 0.9, 1.3, 1.9])
        de = val([0.0, 0.5, 1.0, 2.5, 6.0])
        if zero_strength:
            de = [0.0, 0.0, 0.0] if per_axis else 0.0
        return {"type": "lorentz", "w": w, "g": g, "de": de}
    wp = val([0.0, 0.1, 0.3, 0.8, 1.5]) if per_axis else draw(st.sampled_from([0.1, 0.3, 0.8, 1.5]))
    if zero_strength:
        return {"type": "lorentz", "w": val([0.2, 0.9]), "g": g, "de": [0.0, 0.0, 0.0] if per_axis else 0.0}
    return {"type": "drude", "wp": wp, "g": g}


@st.composite
def recurrence_strategy(draw, ctx):
    shape = [draw(st.integers(4, 7)) for _ in range(3)]
    faces = draw(scenes.faces_strategy(kinds=FACE_KINDS))
    zero_strength = draw(st.integers(0, 6)) == 0
    per_axis_ok = draw(st.booleans())
    bg = {"eps": draw(st.sampled_from([1.0, 2.25, [2.0, 3.0, 4.0]]))}
    if draw(st.integers(0, 3)) == 0:
        bg["sigE"] = draw(st.sampled_from([1e3, 2e4]))
    boxes = []
    nbox = draw(st.integers(1, 2))
    # dispersive boxes are disjoint along x (so that the painting model needs no overlap rule between them)
    cut = draw(st.integers(2, shape[0] - 2)) if nbox == 2 else shape[0]
    xr = [(0, cut), (cut, shape[0])]
    for i in range(nbox):
        lo, hi = [], []
        for a in range(3):
            a0, a1 = xr[i] if a == 0 else (0, shape[a])
            l0 = draw(st.integers(a0, a1 - 1))
            h0 = draw(st.integers(l0 + 1, a1))
            lo.append(l0)
            hi.append(h0)
        bx = {"name": f"disp{i}", "lo": lo, "hi": hi, "order": i + 1,
              "eps": draw(st.sampled_from([1.0, 2.5, [1.5, 2.0, 3.0]])),
              "poles": [_pole_strategy(draw, per_axis_ok, zero_strength) for _ in range(draw(st.integers(1, 2)))]}
        if draw(st.integers(0, 4)) == 0:
            bx["sigE"] = draw(st.sampled_from([1e3, 2e4]))
        boxes.append(bx)
    if draw(st.integers(0, 2)) == 0:  # a plain dielectric painted over part of the dispersive boxes
        lo, hi = draw(scenes.box_strategy(shape))
        boxes.append({"name": "cover", "lo": lo, "hi": hi, "order": 5, "eps": draw(st.sampled_from([1.0, 3.0])),
                      "poles": []})
    n_imp = draw(st.integers(0, 2))
    imp = [[draw(st.integers(0, 5)), draw(st.integers(0, 6)), draw(st.integers(0, 6)), draw(st.integers(0, 6)),
            draw(st.sampled_from([1.0, -2.0]))] for _ in range(n_imp)]
    return {"shape": shape, "faces": faces, "courant": draw(st.sampled_from([0.5, 0.8, 0.99])), "background": bg,
            "boxes": boxes, "steps": draw(st.integers(4, 12)), "field_seed": draw(st.integers(0, 2 ** 31 - 1)),
            "impulses": imp, "zero_strength": zero_strength}


def _paint(case, n_slots):
    """numpy coefficient fields (n_slots, 3, nx, ny, nz) painted in placement order; boxes without poles zero them."""
    shape = tuple(case["shape"])
    c = [np.zeros((n_slots, 3, *shape)) for _ in range(3)]
    for bx in sorted(case["boxes"], key=lambda b: b["order"]):
        sl = tuple(slice(l, h) for l, h in zip(bx["lo"], bx["hi"]))
        for arr in c:
            arr[(slice(None), slice(None), *sl)] = 0.0
        for p_i, pole in enumerate(bx.get("poles", [])):
            co = pole_coefficients(pole)
            for k in range(3):
                for a in range(3):
                    c[k][(p_i, a, *sl)] = co[k][a]
    return c


def body_recurrence(ctx, case):
    import jax.numpy as jnp
    from fdtdx.constants import eta0

    shape = tuple(case["shape"])
    spec = {"shape": list(shape), "steps": case["steps"], "courant": case["courant"], "faces": case["faces"],
            "background": case["background"]}
    b = _build(spec, ctx.lane, case["boxes"], dispersive=True)
    twin = _build(spec, ctx.lane, case["boxes"], dispersive=False)
    arrays = b.arrays
    ctx.check(arrays.fields.dispersive_P_curr is not None, "no polarisation state allocated for a scene with poles")
    ctx.check(twin.arrays.fields.dispersive_P_curr is None, "twin without poles still has a polarisation state")
    n_slots = arrays.fields.dispersive_P_curr.shape[0]
    want_slots = max(len(bx.get("poles", [])) for bx in case["boxes"])
    ctx.check(n_slots == want_slots, "number of pole slots differs from the largest pole count", observed=n_slots,
              expected=want_slots)
    ctx.close(np.asarray(b.arrays.inv_permittivities), np.asarray(twin.arrays.inv_permittivities), tol=0.0,
              msg="eps_inf of the dispersive scene differs from its non-dispersive twin")
    c1, c2, c3 = _paint(case, n_slots)
    zero_cell = (np.abs(c1).sum(axis=0) + np.abs(c2).sum(axis=0) + np.abs(c3).sum(axis=0)) == 0  # (3, nx, ny, nz)
    active = ~zero_cell

    cplx = np.iscomplexobj(np.asarray(arrays.fields.E))
    e_imp = [i for i in case["impulses"] if i[0] < 3]
    h_imp = [[i[0] - 3, *i[1:]] for i in case["impulses"] if i[0] >= 3]
    E0 = scenes.random_field(case["field_seed"], shape, cplx, e_imp, 1.0)
    H0 = scenes.random_field(case["field_seed"] + 1, shape, cplx, h_imp, 1.0)
    arrays = scenes.project_walls(scenes.set_fields(arrays, E0, H0), b.objects)

    inv_eps = np.broadcast_to(np.asarray(arrays.inv_permittivities, dtype=np.float64), (3, *shape))
    sig = arrays.electric_conductivity
    loss = 1.0
    if sig is not None:
        loss = 1.0 + b.config.courant_number * np.broadcast_to(np.asarray(sig, dtype=np.float64), (3, *shape)) * eta0 * inv_eps / 2

    state = (jnp.asarray(0, dtype=jnp.int32), arrays)
    tol_p = ctx.tol(1e-12, 3e-6)
    tol_e = ctx.tol(1e-13, 1e-6)
    p_seen = 0.0
    twin_steps = {0, case["steps"] // 2, case["steps"] - 1}
    for k in range(case["steps"]):
        a_k = state[1]
        E_k = np.asarray(a_k.fields.E)
        P_k = np.asarray(a_k.fields.dispersive_P_curr)
        P_km1 = np.asarray(a_k.fields.dispersive_P_prev)
        state = scenes.step(b, state)
        a_n = state[1]
        P_n = np.asarray(a_n.fields.dispersive_P_curr)
        E_n = np.asarray(a_n.fields.E)
        ctx.check(bool(np.isfinite(P_n).all() and np.isfinite(E_n).all()), f"non-finite state after step {k}")
        want = c1 * P_k + c2 * P_km1 + c3 * E_k[None]
        scale = max(np.abs(P_k).max(), np.abs(P_km1).max(), np.abs(c3 * E_k[None]).max(), 1e-30)
        ctx.close(P_n, want, scale=scale, tol=tol_p, metric="P_recurrence_err",
                  msg=f"step {k}: stored polarisation is not c1*P + c2*P_prev + c3*E")
        ctx.close(np.asarray(a_n.fields.dispersive_P_prev), P_k, tol=0.0,
                  msg=f"step {k}: P_prev after the step is not P_curr before it")
        p_seen = max(p_seen, float(np.abs(P_n).max()))
        if k in twin_steps or case["zero_strength"]:
            ta = scenes.set_fields(twin.arrays, a_k.fields.E, a_k.fields.H)
            t_n = scenes.step(twin, (state[0] - 1, ta))[1]
            Et = np.asarray(t_n.fields.E)
            escale = max(np.abs(Et).max(), 1e-30)
            d = E_n - Et
            ctx.close(np.where(zero_cell, d, 0), np.zeros_like(d), scale=escale, tol=tol_e, metric="zero_cell_E_diff",
                      msg=f"step {k}: a cell with all-zero pole coefficients evolves differently from the "
                          f"non-dispersive twin")
            coupling = inv_eps * (P_k - P_n).sum(axis=0) / loss
            ctx.close(np.where(active, d, 0), np.where(active, coupling, 0),
                      scale=max(escale, np.abs(coupling).max()), tol=ctx.tol(1e-12, 3e-6), metric="E_coupling_err",
                      msg=f"step {k}: E(dispersive) - E(twin) is not inv_eps * sum_p (P_k - P_k+1)")
            if case["zero_strength"]:
                ctx.close(E_n, Et, scale=escale, tol=tol_e, msg=f"step {k}: zero-strength poles change E")
                Ht = np.asarray(t_n.fields.H)
                ctx.close(np.asarray(a_n.fields.H), Ht, scale=max(np.abs(Ht).max(), 1e-30), tol=tol_e,
                          msg=f"step {k}: zero-strength poles change H")

    kinds = sorted({f["kind"] for f in case["faces"].values()})
    per_axis = any(isinstance(v, list) for bx in case["boxes"] for p in bx.get("poles", []) for v in p.values())
    ctx.classify("slots=%d" % n_slots, "boxes=%d" % len([bx for bx in case["boxes"] if bx.get("poles")]),
                 "cover" if any(not bx.get("poles") for bx in case["boxes"]) else "no-cover",
                 "per-axis" if per_axis else "isotropic", "lossy" if sig is not None else "lossless",
                 "zero-strength" if case["zero_strength"] else "coupled",
                 "has_padded_slot" if len({len(bx.get("poles", [])) for bx in case["boxes"] if bx.get("poles")}) > 1 else "equal_slots",
                 *("face=" + k for k in kinds),
                 *("pole=" + p["type"] for bx in case["boxes"] for p in bx.get("poles", [])))
    if case["zero_strength"]:
        ctx.check(p_seen == 0.0, "polarisation of zero-strength poles became non-zero", observed=p_seen, expected=0.0)
        ctx.nontrivial(bool(np.abs(E_n).max() > 0))
    else:
        ctx.nontrivial(bool(zero_cell.any() and active.any() and p_seen > 0))


# ----------------------------------------------------------------------------------------------
# (b) boundedness
# ----------------------------------------------------------------------------------------------
def load_factor(poles, eps_inf, courant, mu=1.0):
    """lhs / rhs of the coupled ADE-FDTD bound  sum_p K_p dt^2 / (4 - w0p^2 dt^2) <= eps_inf - courant_factor^2 / mu
    (von Neumann analysis of a homogeneous passive medium on the 3-D Yee grid whose polarisation recurrence is driven
    by E^n; lossless poles — damping moves the threshold by < 1 %, measured).  > 1: exponential growth."""
    lhs = _pole_load(poles)
    rhs = eps_inf - courant ** 2 / mu
    return lhs / rhs if rhs > 0 else float("inf")


def _pole_load(poles):
    lhs = 0.0
    for p in poles:
        if p["type"] == "lorentz":
            lhs += p["de"] * p["w"] ** 2 / (4.0 - p["w"] ** 2)
        else:
            lhs += p["wp"] ** 2 / 4.0
    return lhs


def stability_margin(poles, eps_inf, courant, mu=1.0):
    """1 - (courant_factor^2 / mu + sum_p K_p dt^2 / (4 - w0p^2 dt^2)) / eps_inf: normalised distance to the coupled
    stability limit.  < 0: unstable (measured: overflow to inf within 10^2..10^4 steps).  0 .. ~0.003: bounded, but the
    plain field energy swings by more than a factor 10 (measured 9.9 at 0.002, 13 at 0.0014, 21 at 0.0008; <= 7.9 over
    12 seeds at 0.004, <= 4.9 at 0.01; plain vacuum at courant 0.99 has 0.0199 and swings by 2.6..4.1)."""
    return 1.0 - (courant ** 2 / mu + _pole_load(poles)) / eps_inf


MARGIN_CLASS = 0.01


def overloaded_medium(case):
    """KNOWN_CLASSES predicate: the scene contains a passive Lorentz/Drude medium beyond, or within 0.01 (normalised)
    of, the coupled ADE-FDTD stability limit for its courant factor — and placement says nothing about it."""
    if not ("poles" in case and "target" in case):
        return False
    if any(p["type"] == "lorentz" and p["w"] >= 2.0 for p in case["poles"]):
        return False  # rejected at placement by the isolated-pole rule, not part of the finding
    if case.get("eps_inf_axes"):
        return False  # non-positive static permittivity: placement warns about it, not part of the finding
    return stability_margin(case["poles"], case["eps_inf"], case["courant"]) < MARGIN_CLASS


KNOWN_CLASSES = {"C36-coupled-ade-courant-bound": overloaded_medium}

# targets for the load factor; 2 of 10 beyond the bound (plus the thin-margin corner courant 0.99 / eps_inf 1)
TARGETS = [0.05, 0.2, 0.4, 0.5, 0.6, 0.75, 0.85, 0.89, 1.1, 3.0]


@st.composite
def bounded_strategy(draw, ctx):
    shape = [draw(st.sampled_from([6, 6, 5, 7])) for _ in range(3)]
    walls = [draw(st.sampled_from(["periodic", "periodic", "pec"])) for _ in range(3)]
    courant = draw(st.sampled_from([0.5, 0.7, 0.9, 0.99]))
    eps_inf = draw(st.sampled_from([1.0, 1.0, 1.5, 2.25, 4.0]))
    npoles = draw(st.sampled_from([1, 1, 2, 3]))
    shapes = []
    for _ in range(npoles):
        kind = draw(st.sampled_from(["lorentz", "drude"]))
        g = draw(st.sampled_from([0.0, 0.0, 0.01, 0.1, 0.5, 2.0]))
        rel = draw(st.sampled_from([1.0, 1.0, 0.3, 3.0]))
        if kind == "lorentz":
            shapes.append({"type": "lorentz", "w": draw(st.sampled_from([0.05, 0.2, 0.5, 1.0, 1.5, 1.9])), "g": g, "rel": rel})
        else:
            shapes.append({"type": "drude", "g": g, "rel": rel})
    target = draw(st.sampled_from(TARGETS))
    # scale the strengths so that the load factor hits the target (strength enters the load linearly)
    unit = []
    for s in shapes:
        if s["type"] == "lorentz":
            unit.append({"type": "lorentz", "w": s["w"], "g": s["g"], "de": s["rel"]})
        else:
            unit.append({"type": "drude", "wp": math.sqrt(s["rel"]), "g": s["g"]})
    l0 = load_factor(unit, eps_inf, courant)
    k = target / l0
    poles = []
    for u in unit:
        if u["type"] == "lorentz":
            poles.append({"type": "lorentz", "w": u["w"], "g": u["g"], "de": float("%.6g" % (u["de"] * k))})
        else:
            poles.append({"type": "drude", "wp": float("%.6g" % (u["wp"] * math.sqrt(k))), "g": u["g"]})
    # a few media that the documented isolated-pole rule (w0 dt < 2) makes placement reject: they exercise the
    # "accepted" premise from the other side (a tree that stops rejecting them lets them through to the run)
    # (cheap: they never reach the 10^4-step run on a tree that rejects them). Damping on both sides of g dt = 2,
    # since an "overdamped poles need no w0 dt rule" shortcut is a plausible wrong refinement of that guard.
    if draw(st.sampled_from(range(8))) == 0:
        poles[0] = {"type": "lorentz", "w": draw(st.sampled_from([2.001, 2.6])),
                    "g": draw(st.sampled_from([0.0, 0.5, 2.0, 3.0])), "de": 1.0}
    eps_axes = None
    if draw(st.sampled_from(range(8))) == 0:
        eps_axes = draw(st.sampled_from([[1.0, 1.0, -0.5], [2.25, 2.25, 0.0], [-1.0, 1.0, 1.0], [1.0, -2.0, 1.0],
                                         [1.0, 1.0, -2.0]]))
    mask = None
    if draw(st.integers(0, 2)) == 0:
        lo, hi = [], []
        for a in range(3):
            size = draw(st.integers(3, shape[a]))
            l0_ = draw(st.integers(0, shape[a] - size))
            lo.append(l0_)
            hi.append(l0_ + size)
        mask = {"lo": lo, "hi": hi}
    case = {"shape": shape, "walls": walls, "courant": courant, "eps_inf": eps_inf,
            "eps_bg": draw(st.sampled_from([1.0, 1.0, 2.25])), "poles": poles, "mask": mask, "target": target,
            "steps": 10000, "field_seed": draw(st.integers(0, 2 ** 31 - 1))}
    if eps_axes is not None:
        case["eps_inf_axes"] = eps_axes
    return case


def bounded_cases(ctx):
    n = scaled(24 if ctx.tier == "quick" else (160 if ctx.lane == "f32" else 360), ctx)
    return collect(bounded_strategy(ctx), n, ctx.seed, salt=f"C36b/{ctx.lane}/{ctx.tier}")


def body_bounded(ctx, case):
    import jax
    import jax.numpy as jnp
    from fdtdx.fdtd.forward import forward

    shape = tuple(case["shape"])
    faces = {}
    for a, kind in enumerate(case["walls"]):
        for side in ("min", "max"):
            faces[f"{side}_{'xyz'[a]}"] = {"kind": kind}
    spec = {"shape": list(shape), "steps": case["steps"], "courant": case["courant"], "faces": faces,
            "background": {"eps": case["eps_bg"]}}
    lo, hi = (case["mask"]["lo"], case["mask"]["hi"]) if case["mask"] else ([0, 0, 0], list(shape))
    # "eps_inf_axes": a diagonal high-frequency permittivity with one non-positive entry (non-negative damping and
    # strength, so inside the property's literal premise): unconditionally unstable, hence fdtdx must reject it or warn
    box = {"name": "medium", "lo": lo, "hi": hi, "order": 1, "eps": case.get("eps_inf_axes", case["eps_inf"]),
           "poles": case["poles"]}
    if case.get("eps_inf_axes"):
        ctx.classify("eps_inf_axis<=0")
    if any(p["type"] == "lorentz" and abs(p["w"] - 2.0) < 1e-6 for p in case["poles"]):
        raise Skip()  # w0*dt == 2 up to rounding: whether the documented "< 2" rule accepts it is a float coin toss
    beyond_pole_rule = any(p["type"] == "lorentz" and p["w"] >= 2.0 for p in case["poles"])
    if beyond_pole_rule:
        load, margin = float("inf"), float("-inf")
        ctx.classify("w0dt>=2")
    else:
        load = load_factor(case["poles"], case["eps_inf"], case["courant"])
        margin = stability_margin(case["poles"], case["eps_inf"], case["courant"])
    stable = margin >= MARGIN_CLASS
    ctx.classify("load=" + ("<0.5" if load < 0.5 else "0.5-0.8" if load < 0.8 else "0.8-0.9" if load < 0.9 else
                            "0.9-1" if load < 1 else "1-2" if load < 2 else ">=2"),
                 "margin=" + ("<0 (beyond the coupled bound)" if margin < 0 else "0-0.01" if margin < MARGIN_CLASS else
                              "0.01-0.05" if margin < 0.05 else "0.05-0.3" if margin < 0.3 else ">=0.3"),
                 "courant=%g" % case["courant"], "eps_inf=%g" % case["eps_inf"], "poles=%d" % len(case["poles"]),
                 "masked" if case["mask"] else "full-domain",
                 "walls=" + "".join(sorted(w[:3] for w in case["walls"])),
                 "damped" if any(p["g"] > 0 for p in case["poles"]) else "undamped",
                 *("pole=" + p["type"] for p in case["poles"]))
    for p in case["poles"]:  # the premise of the property: passive
        assert p["g"] >= 0 and p.get("de", 0.0) >= 0 and case["eps_inf"] >= 1
    try:
        with _Capture() as cap:
            b = _build(spec, ctx.lane, [box], dispersive=True)
    except (ValueError, NotImplementedError) as e:  # placement rejected the medium: outside the property's premise
        ctx.classify("rejected:" + type(e).__name__)
        raise Skip()
    said = [w for w in cap.warnings if "float64" not in w and "dtype" not in w] + cap.records
    if said:
        ctx.classify("warned_at_placement")
        ctx.metric("warned_cases", 1)
        raise Skip()

    arrays = b.arrays
    E0 = scenes.random_field(case["field_seed"], shape)
    H0 = scenes.random_field(case["field_seed"] + 1, shape)
    arrays = scenes.project_walls(scenes.set_fields(arrays, E0, H0), b.objects)
    inv_eps = arrays.inv_permittivities

    def energy(a):
        return jnp.sum(jnp.abs(a.fields.E) ** 2 / jnp.abs(inv_eps)) + jnp.sum(jnp.abs(a.fields.H) ** 2)

    def one(state, _):
        state = forward(state, b.config, b.objects, b.key, record_detectors=False, record_boundaries=False,
                        simulate_boundaries=True)
        return state, energy(state[1])

    @jax.jit
    def loop(arr):
        st0 = (jnp.asarray(0, dtype=jnp.int32), arr)
        st1, en = jax.lax.scan(one, st0, None, length=case["steps"])
        return en, st1[1].fields.E, st1[1].fields.H, st1[1].fields.dispersive_P_curr

    e0 = float(energy(arrays))
    if not e0 > 0:
        raise Skip()
    en, E1, H1, P1 = loop(arrays)
    en = np.asarray(en, dtype=np.float64)
    ctx.nontrivial(True)
    fin = np.isfinite(en)
    finite_max = float(np.max(np.where(fin, en, 0.0))) / e0
    ctx.metric("energy_ratio[margin>=0.01]" if stable else "energy_ratio[margin<0.01]", min(finite_max, 1e300))
    desc = (f"stability margin {margin:.4f}, load factor {load:.3f} (poles {case['poles']}, eps_inf {case['eps_inf']}, courant {case['courant']}), "
            f"placement raised no warning")
    if not fin.all():
        k = int(np.argmax(~fin))
        ctx.check(False, f"field energy becomes non-finite at step {k + 1}; {desc}", observed="non-finite",
                  expected="<= 10 x initial", tolerance=10.0)
    over = en > 10.0 * e0
    if over.any():
        k = int(np.argmax(over))
        ctx.check(False, f"field energy exceeds 10 x its initial value at step {k + 1} (max {finite_max:.3g} x); {desc}",
                  observed=finite_max, expected="<= 10", tolerance=10.0)
    ok = all(bool(np.isfinite(np.asarray(x)).all()) for x in (E1, H1, P1))
    ctx.check(ok, f"non-finite field / polarisation after {case['steps']} steps; {desc}")


SUBS = [
    Sub(name="recurrence", body=body_recurrence, strategy=lambda ctx: recurrence_strategy(ctx), quick=40, thorough=1600,
        lanes=("f64", "f32"), f32_fraction=0.25, quick_shards=4, max_seconds_quick=110.0, max_seconds_thorough=1100.0,
        rule="stepwise P recurrence against numpy coefficients; one-step twin comparison in zero-coefficient cells"),
    Sub(name="bounded", body=body_bounded, cases=bounded_cases, lanes=("f64", "f32"), quick_shards=4,
        exhaustive=False, max_seconds_quick=140.0, max_seconds_thorough=1400.0,
        rule="accepted passive Lorentz/Drude media in a closed box: energy <= 10 x initial over 10^4 steps"),
]
